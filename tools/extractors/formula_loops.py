"""The LOOPS and list effects of the formula engine -> Lean (`Extracted/FormulaLoops.lean`), from the current source text.

  (a) `FormulaBuilder.push_oper`: the guard, the pop loop over the build stack and the push      -> `pushOper`
  (b) `FormulaBuilder.finalize` (draining of the build stack)                                     -> `finalize`
  (c) `push_metric` / `push_constant` / `push_clipper`                                            -> `pushMetric` …
  (e) `MetricFetcher.apply`                                                                       -> `metricFetcherApply`
  (f) `FormulaEvaluator.apply` from the loop over the steps on                                    -> `evaluatorApply`
  (g) `_BaseHOFormulaBuilder.__init__ / _push` (through `__add__` …) / `consumption` / `production` -> `hoInit`, `hoPush`, `hoUnary`
  (d) `Tokenizer.__next__` and `_read_unsigned_int`                                               -> `nextToken`

How: a small partial evaluator / translator over the `ast` (the repo is never imported).  Values are either concrete
Python constants (operator strings, enum members, classes, literal dicts — tests on them are decided statically) or typed
Lean terms.  Objects live in a heap of slots (`self._build_stack`, …), so `self = self._copy()`, helper methods
(inlined), properties, walrus, `match`, conditional expressions, early returns all end up as one decision tree
(continuation-passing, like `py2lean`).  Python lists are Lean lists: a list that is only used as a stack (`append`,
`pop()`, `[-1]`, truth value, `len`, `clear`, `reversed`) has its top at the head, the others are in order.  `while` /
`for` loops become `pyLoop step fuel state`: `step` is ONE iteration (`.inl` = next iteration with the new loop-carried
variables — found by dataflow, in a canonical order —, `.inr` = the loop is left), so that the tie proofs
(`Lemmas/ShuntingTie.lean`) only reason about one iteration plus a generic simulation lemma, whatever the shape of
the loop body.  Functions that depend on an operator string / the kind of an operand / the kind of an input value are
translated once per concrete case (then the dispatch code — if/elif, match, dict of classes, helper — is executed,
not pattern-matched) and assembled by a Lean `match`.

Anything that cannot be established raises `py2lean.Unsupported`.
"""
import ast
import pathlib
import re
import sys
from dataclasses import dataclass, field

sys.path.insert(0, str(pathlib.Path(__file__).resolve().parent))
from py2lean import Unsupported  # noqa: E402

NAME = "FormulaLoops"
BASE = "src/frequenz/sdk/timeseries/formula_engine/"
SOURCES = [BASE + "_formula_engine.py", BASE + "_formula_steps.py", BASE + "_formula_evaluator.py", BASE + "_tokenizer.py"]

# operator string -> constructor of `Formula.Op` (the model's names for the keys of `_operator_precedence`)
OPS = {"max": "max", "min": "min", "consumption": "cons", "production": "prod", "(": "lp",
       "/": "div", "*": "mul", "-": "sub", "+": "add", ")": "rp"}
OP_ORDER = ["max", "min", "consumption", "production", "(", "/", "*", "-", "+", ")"]

_FUNC = (ast.FunctionDef, ast.AsyncFunctionDef)


# ================================================================================================ values
@dataclass(frozen=True)
class Const:
    v: object


@dataclass(frozen=True)
class Term:
    term: str
    ty: object


@dataclass(frozen=True)
class Ref:  # a reference to a mutable list (lists are shared by reference: `x = self._stack; x.pop()` mutates both)
    cid: int


@dataclass(frozen=True)
class Obj:
    oid: int
    cls: str


@dataclass(frozen=True)
class Cls:
    name: str


@dataclass(frozen=True)
class Tup:
    items: tuple


@dataclass(frozen=True)
class Fn:
    node: object
    mod: str
    self_val: object = None
    owner: str = None


@dataclass(frozen=True)
class Inst:  # a constructor application that is kept symbolic: `Adder()`, `Token(…)`, `Sample(…)`, `Clipper(a, b)` …
    cls: str
    args: tuple = ()
    kwargs: tuple = ()


@dataclass(frozen=True)
class Enum:
    cls: str
    member: str


@dataclass(frozen=True)
class Qty:  # a Quantity / float whose kind is known on this path
    kind: str  # 'nan' | 'inf' | 'val'
    term: str = ""


@dataclass(frozen=True)
class Prim:
    name: str


@dataclass(frozen=True)
class Opaque:
    what: str


def is_list(t) -> bool:
    return isinstance(t, tuple) and t[0] == "list"


def is_opt(t) -> bool:
    return isinstance(t, tuple) and t[0] == "opt"


LEAN_TY = {"Op": "Formula.Op", "Step": "Formula.Step", "V": "Formula.V", "RawTok": "Formula.RawTok", "Inp": "Formula.Inp",
           "Fetchers": "(List (Nat × Bool))"}


def lty(t) -> str:
    if isinstance(t, str):
        return LEAN_TY.get(t, t)
    if t[0] == "list":
        return f"(List {lty(t[1])})"
    if t[0] == "opt":
        return f"(Option {lty(t[1])})"
    if t[0] == "tup":
        return "(" + " × ".join(lty(x) for x in t[1]) + ")"
    raise Unsupported(f"type {t}")


def atom(s: str) -> str:
    return s if (re.fullmatch(r"[\w.']+", s) or (s.startswith("(") and s.endswith(")")) or s.startswith("[")) else f"({s})"


# ================================================================================================ code trees
@dataclass
class Leaf:
    s: str


@dataclass
class Let:
    name: str
    ty: str
    val: str
    body: object


@dataclass
class If:
    p: str
    a: object
    b: object


@dataclass
class MatchOpt:
    scrut: str
    var: str
    some: object
    none: object


@dataclass
class MatchList:
    scrut: str
    h: str
    t: str
    cons: object
    nil: object


@dataclass
class Bind:  # monadic bind of a call that may raise
    scrut: str
    var: str
    body: object
    mode: str


@dataclass
class Loop:  # let name := (head (fun (s : sty) => body) tail); rest
    name: str
    ty: str
    head: str
    sty: str
    body: object
    tail: str
    rest: object


@dataclass
class MatchCtor:
    scrut: str
    alts: list  # [(pattern, tree)]


def render(t, ind: str) -> str:
    if isinstance(t, Leaf):
        return ind + t.s
    if isinstance(t, Let):
        return f"{ind}let {t.name} : {t.ty} := {t.val}\n" + render(t.body, ind)
    if isinstance(t, If):
        return f"{ind}if {t.p} then\n{render(t.a, ind + '  ')}\n{ind}else\n{render(t.b, ind + '  ')}"
    if isinstance(t, MatchOpt):
        return (f"{ind}(match {t.scrut} with\n{ind}| some {t.var} =>\n{render(t.some, ind + '  ')}\n"
                f"{ind}| none =>\n{render(t.none, ind + '  ')})")
    if isinstance(t, MatchList):
        return (f"{ind}(match {t.scrut} with\n{ind}| {t.h} :: {t.t} =>\n{render(t.cons, ind + '  ')}\n"
                f"{ind}| [] =>\n{render(t.nil, ind + '  ')})")
    if isinstance(t, Bind):
        ok, err = ("some", "| none => none") if t.mode == "option" else (".ok", "| .error e => .error e")
        return f"{ind}(match {t.scrut} with\n{ind}| {ok} {t.var} =>\n{render(t.body, ind + '  ')}\n{ind}{err})"
    if isinstance(t, Loop):
        return (f"{ind}let {t.name} : {t.ty} := ({t.head} (fun (s : {t.sty}) =>\n{render(t.body, ind + '    ')})\n"
                f"{ind}  {t.tail})\n" + render(t.rest, ind))
    if isinstance(t, MatchCtor):
        out = f"{ind}(match {t.scrut} with"
        for pat, sub in t.alts:
            out += f"\n{ind}| {pat} =>\n{render(sub, ind + '  ')}"
        return out + ")"
    raise AssertionError(t)


# ================================================================================================ environment
class Env:
    def __init__(self):
        self.locals: dict = {}
        self.heap: dict = {}
        self.cons: dict = {}  # list term -> (head term, tail term)
        self.nil: frozenset = frozenset()  # list terms known to be empty
        self.some: dict = {}  # option term -> unwrapped term
        self.none: frozenset = frozenset()
        self.cells: dict = {}  # list reference -> current value (a Lean term)

    def copy(self) -> "Env":
        e = Env()
        e.cells = dict(self.cells)
        e.locals = dict(self.locals)
        e.heap = {k: dict(v) for k, v in self.heap.items()}
        e.cons = dict(self.cons)
        e.nil = self.nil
        e.some = dict(self.some)
        e.none = self.none
        return e

    def bind(self, name: str, v) -> "Env":
        e = self.copy()
        e.locals[name] = v
        return e

    def set_slot(self, oid: int, attr: str, v) -> "Env":
        e = self.copy()
        e.heap[oid][attr] = v
        return e

    def set_cell(self, cid: int, v) -> "Env":
        e = self.copy()
        e.cells[cid] = v
        return e


class Kont:
    def end(self, env):
        raise Unsupported("block may fall off its end")

    def ret(self, val, env):
        raise Unsupported("return not expected here")

    def brk(self, env):
        raise Unsupported("break not expected here")

    def cont(self, env):
        raise Unsupported("continue not expected here")


class FnK(Kont):
    """Continuation of an inlined call: falling off the end returns None."""

    def __init__(self, k):
        self.k = k

    def end(self, env):
        return self.k(Const(None), env)

    def ret(self, val, env):
        return self.k(val, env)


class Module:
    def __init__(self, key: str, src: str):
        self.key = key
        self.tree = ast.parse(src)
        self.classes = {n.name: n for n in self.tree.body if isinstance(n, ast.ClassDef)}
        self.functions = {n.name: n for n in self.tree.body if isinstance(n, _FUNC)}
        self.consts: dict = {}
        for n in self.tree.body:
            if isinstance(n, ast.Assign) and len(n.targets) == 1 and isinstance(n.targets[0], ast.Name):
                self.consts[n.targets[0].id] = n.value
            elif isinstance(n, ast.AnnAssign) and isinstance(n.target, ast.Name) and n.value is not None:
                self.consts[n.target.id] = n.value
        self.imports: dict = {}
        for n in self.tree.body:
            if isinstance(n, ast.Import):
                for a in n.names:
                    self.imports[a.asname or a.name.split(".")[0]] = a.name if a.asname else a.name.split(".")[0]
            elif isinstance(n, ast.ImportFrom):
                for a in n.names:
                    self.imports[a.asname or a.name] = f"{n.module or ''}.{a.name}"


def strip_doc(body):
    if body and isinstance(body[0], ast.Expr) and isinstance(body[0].value, ast.Constant) and isinstance(body[0].value.value, str):
        return body[1:]
    return body


MUTATORS = {"append", "pop", "clear", "extend", "appendleft", "popleft", "setdefault"}


class Tr:
    """One translation context (one generated Lean function)."""

    def __init__(self, mods: dict, reprs: dict, mode: str = "pure", raises: dict | None = None):
        self.mods = mods  # key -> Module
        self.reprs = reprs  # step class -> repr literal
        self.mode = mode  # 'pure' | 'option' | 'except'
        self.raises = raises or {}  # exception class -> Lean term (mode 'except')
        self.n = 0
        self.oid = 0
        self.cid = 0
        self.depth = 0
        self.boundaries: dict = {}  # (class, method) -> handler: call of an already translated function instead of inlining
        self.len_of: dict = {}  # `<list>.length` term -> the list (so that `len(x) == 0` is an emptiness test)
        self.ret_ty = None  # Lean type of the value `return`ed from inside a loop (when that is needed)
        self.exc_ty = "Unit"  # error type in mode 'except'

    # ------------------------------------------------------------------------------------------ small helpers
    def fresh(self, base: str) -> str:
        self.n += 1
        return f"{re.sub(r'[^A-Za-z0-9_]', '_', base).strip('_') or 'x'}_{self.n}"

    def new_obj(self, env: Env, cls: str, slots: dict):
        self.oid += 1
        e = env.copy()
        e.heap[self.oid] = dict(slots)
        return Obj(self.oid, cls), e

    def new_cell(self, env: Env, v):
        self.cid += 1
        return Ref(self.cid), env.set_cell(self.cid, v)

    @staticmethod
    def deref(v, env: Env):
        return env.cells[v.cid] if isinstance(v, Ref) else v

    def ok(self, s: str) -> str:
        return s if self.mode == "pure" else (f"some {atom(s)}" if self.mode == "option" else f".ok {atom(s)}")

    def raise_leaf(self, exc: str):
        if self.mode == "pure":
            raise Unsupported(f"raise {exc} on a translated path of a function that cannot raise")
        if self.mode == "option":
            return Leaf("none")
        if exc not in self.raises:
            raise Unsupported(f"raise {exc}")
        return Leaf(f".error {self.raises[exc]}")

    def find_class(self, name: str):
        for m in self.mods.values():
            if name in m.classes:
                return m, m.classes[name]
        return None

    def mro(self, cname: str):
        out, todo, seen = [], [cname], set()
        while todo:
            c = todo.pop(0)
            if c in seen:
                continue
            seen.add(c)
            f = self.find_class(c)
            if f is None:
                continue
            out.append(f)
            for b in f[1].bases:
                b = b.value if isinstance(b, ast.Subscript) else b
                if isinstance(b, ast.Name):
                    todo.append(b.id)
        return out

    def method(self, cname: str, name: str):
        for m, c in self.mro(cname):
            for n in c.body:
                if isinstance(n, _FUNC) and n.name == name and strip_doc(n.body):
                    return m, n
        return None

    # ------------------------------------------------------------------------------------------ coercion to Lean
    def want(self, v, ty, env: Env = None) -> str:
        if isinstance(v, Ref):
            if env is None:
                raise Unsupported("list reference used without its environment")
            v = env.cells[v.cid]
        if isinstance(v, Term):
            if v.ty == ty or (is_list(v.ty) and is_list(ty) and v.ty[1] == ty[1] and v.ty[2] == ty[2]):
                return v.term
            if v.ty == "Op" and ty == "Step":
                return f"(Formula.Step.op {atom(v.term)})"
            if v.ty == "Rat" and ty == "V":
                return f"(Formula.PyF.lit {atom(v.term)})"
            if is_opt(ty) and v.ty == ty[1]:
                return f"(some {atom(v.term)})"
            if is_list(v.ty) and is_list(ty) and v.ty[1] == ty[1]:
                return f"{atom(v.term)}.reverse"
            raise Unsupported(f"term {v.term} : {v.ty} used at type {ty}")
        if isinstance(v, Const):
            c = v.v
            if ty == "Op" and isinstance(c, str) and c in OPS:
                return f"Formula.Op.{OPS[c]}"
            if ty == "Char" and isinstance(c, str) and len(c) == 1:
                return f"(Char.ofNat {ord(c)})"
            if ty == "Bool" and isinstance(c, bool):
                return "true" if c else "false"
            if ty in ("Rat", "V") and isinstance(c, (int, float)) and not isinstance(c, bool):
                from fractions import Fraction
                if c != c:
                    if ty == "V":
                        return "Formula.PyF.nan"
                    raise Unsupported("NaN as a rational")
                fr = Fraction(c)
                q = f"({fr.numerator} : Rat)" if fr.denominator == 1 else f"(({fr.numerator} : Rat) / {fr.denominator})"
                return q if ty == "Rat" else f"(Formula.PyF.lit {q})"
            if ty == "Nat" and isinstance(c, int) and not isinstance(c, bool) and c >= 0:
                return f"({c} : Nat)"
            if is_opt(ty) and c is None:
                return f"(none : {lty(ty)})"
            if is_list(ty) and c == ():
                return f"([] : {lty(ty)})"
            if is_opt(ty):
                return f"(some {atom(self.want(v, ty[1], env))})"
            if is_list(ty) and ty[1] == "Char" and isinstance(c, str):
                return "([" + ", ".join(f"(Char.ofNat {ord(x)})" for x in c) + "] : List Char)"
            raise Unsupported(f"constant {c!r} used at type {ty}")
        if isinstance(v, Qty):
            if ty == "V":
                if v.kind == "val":
                    return f"(Formula.PyF.lit {atom(v.term)})"
                if v.kind == "nan":
                    return "Formula.PyF.nan"
                raise Unsupported("an infinite value reaches the evaluation stack (not representable in the model)")
            if ty == "Rat" and v.kind == "val":
                return v.term
            raise Unsupported(f"quantity of kind {v.kind} used at type {ty}")
        if isinstance(v, Inst):
            if v.cls in self.reprs and not v.args and not v.kwargs and self.reprs[v.cls] in OPS:
                op = f"Formula.Op.{OPS[self.reprs[v.cls]]}"
                if ty == "Op":
                    return op
                if ty == "Step":
                    return f"(Formula.Step.op {op})"
            if ty == "Step" and v.cls == "ConstantValue" and len(v.args) == 1 and not v.kwargs:
                return f"(Formula.Step.const {atom(self.want(v.args[0], 'Rat', env))})"
            if ty == "Step" and v.cls == "Clipper" and len(v.args) + len(v.kwargs) == 2:
                kw = dict(v.kwargs)
                lo = v.args[0] if len(v.args) > 0 else kw.get("min_val")
                hi = v.args[1] if len(v.args) > 1 else kw.get("max_val")
                if lo is None or hi is None:
                    raise Unsupported("Clipper(...) arguments")
                return (f"(Formula.Step.clip {atom(self.want(lo, ('opt', 'Rat'), env))} "
                        f"{atom(self.want(hi, ('opt', 'Rat'), env))})")
            if ty == "Step" and v.cls == "MetricFetcher":
                kw = dict(v.kwargs)
                fname = v.args[0] if v.args else kw.get("name")
                if fname is None or "nones_are_zeros" not in kw:
                    raise Unsupported("MetricFetcher(...) arguments")
                return f"(Formula.Step.metric {atom(self.want(fname, 'Nat', env))} {atom(self.want(kw['nones_are_zeros'], 'Bool', env))})"
            if ty == "RawTok" and v.cls == "Token" and len(v.args) + len(v.kwargs) == 2:
                kw = dict(v.kwargs)
                typ = v.args[0] if v.args else kw.get("type")
                val = v.args[1] if len(v.args) > 1 else kw.get("value")
                if typ == Enum("TokenType", "OPER"):
                    return f"(Formula.RawTok.oper {atom(self.want(val, 'Char', env))})"
                if typ == Enum("TokenType", "COMPONENT_METRIC"):
                    return f"(Formula.RawTok.metric {atom(self.want(val, ('list', 'Char', 'seq'), env))})"
            raise Unsupported(f"instance of {v.cls} used at type {ty}")
        if isinstance(v, Kind):
            for _n, pv in v.payload:
                if isinstance(pv, Ref) and env is not None:
                    pv = env.cells[pv.cid]
                if isinstance(pv, Term) and pv.ty == ty:
                    return pv.term
            raise Unsupported(f"operand of classes {sorted(v.classes)} used at type {ty}")
        if isinstance(v, Tup):
            if ty == "HTok" and len(v.items) == 2 and isinstance(v.items[0], Enum) and v.items[0].cls == "TokenType":
                m = v.items[0].member
                if m == "OPER":
                    return f"(HTok.oper {atom(self.want(v.items[1], 'Op', env))})"
                if m == "COMPONENT_METRIC":
                    return f"(HTok.metric {atom(self.want(v.items[1], 'Nat', env))})"
                if m == "CONSTANT":
                    return f"(HTok.const {atom(self.want(v.items[1], 'Rat', env))})"
            if isinstance(ty, tuple) and ty[0] == "tup" and len(ty[1]) == len(v.items):
                return "(" + ", ".join(self.want(x, t, env) for x, t in zip(v.items, ty[1])) + ")"
            raise Unsupported(f"tuple used at type {ty}")
        raise Unsupported(f"value {v} used at type {ty}")

    # ------------------------------------------------------------------------------------------ names
    def resolve_name(self, name: str, mod: Module):
        if name in mod.classes or self.find_class(name) is not None and name in mod.imports:
            return Cls(name)
        if name in mod.functions:
            return Fn(mod.functions[name], mod.key)
        if name in mod.consts and name not in mod.imports:
            return ("const-expr", mod.consts[name])
        dotted = mod.imports.get(name, name)
        last = dotted.split(".")[-1]
        if last in ("isnan", "isinf", "isfinite") and dotted.startswith("math"):
            return Prim("math." + last)
        if dotted in ("math", "copy", "asyncio", "operator"):
            return Prim("module:" + dotted)
        if name in ("len", "repr", "isinstance", "reversed", "next", "iter", "float", "int", "str", "list", "tuple", "bool",
                    "max", "min"):
            return Prim(name)
        if self.find_class(last) is not None:
            return Cls(last)
        return Cls(last)  # an unknown (imported) class / name: only its identity matters (isinstance, constructor)

    # ------------------------------------------------------------------------------------------ expressions (CPS)
    def ev(self, e: ast.expr, env: Env, mod: Module, k):
        if isinstance(e, ast.Await):
            return self.ev(e.value, env, mod, k)
        if isinstance(e, ast.Constant):
            return k(Const(e.value), env)
        if isinstance(e, ast.Name):
            if e.id in env.locals:
                return k(env.locals[e.id], env)
            r = self.resolve_name(e.id, mod)
            if isinstance(r, tuple) and r[0] == "const-expr":
                return self.ev(r[1], Env(), mod, lambda v, _e: k(self.named_const(e.id, v), env))
            return k(r, env)
        if isinstance(e, ast.Tuple):
            return self.ev_list(list(e.elts), env, mod, lambda vs, e2: k(Tup(tuple(vs)), e2))
        if isinstance(e, ast.List) and not e.elts:
            return k(Const(()), env)
        if isinstance(e, ast.Dict):
            if any(x is None for x in e.keys):
                raise Unsupported("dict unpacking")
            return self.ev_list(list(e.keys) + list(e.values), env, mod,
                                lambda vs, e2: k(self.mk_dict(vs[:len(e.keys)], vs[len(e.keys):]), e2))
        if isinstance(e, ast.NamedExpr) and isinstance(e.target, ast.Name):
            return self.ev(e.value, env, mod, lambda v, e2: k(v, e2.bind(e.target.id, v)))
        if isinstance(e, ast.IfExp):
            return self.cond(e.test, env, mod, lambda e2: self.ev(e.body, e2, mod, k), lambda e2: self.ev(e.orelse, e2, mod, k))
        if isinstance(e, (ast.BoolOp, ast.Compare)) or (isinstance(e, ast.UnaryOp) and isinstance(e.op, ast.Not)):
            return self.cond(e, env, mod, lambda e2: k(Const(True), e2), lambda e2: k(Const(False), e2))
        if isinstance(e, ast.UnaryOp) and isinstance(e.op, ast.USub):
            return self.ev(e.operand, env, mod, lambda v, e2: k(self.neg(v), e2))
        if isinstance(e, ast.BinOp):
            return self.ev(e.left, env, mod, lambda a, e1: self.ev(e.right, e1, mod, lambda b, e2: k(self.binop(e, a, b), e2)))
        if isinstance(e, ast.Attribute):
            return self.ev(e.value, env, mod, lambda b, e2: self.attr(b, e.attr, e2, mod, k, e))
        if isinstance(e, ast.Subscript):
            if isinstance(e.value, ast.Name) and e.value.id not in env.locals and e.value.id in ("Sample",):
                return self.ev(e.value, env, mod, k)  # Sample[QuantityT]
            return self.ev(e.value, env, mod, lambda b, e1: self.ev(e.slice, e1, mod, lambda i, e2: self.index(b, i, e2, k, e)))
        if isinstance(e, ast.Call):
            return self.call(e, env, mod, k)
        if isinstance(e, ast.JoinedStr):
            return k(Opaque("f-string"), env)
        if isinstance(e, ast.Lambda):
            return k(Opaque("lambda"), env)
        raise Unsupported(f"expression {ast.unparse(e)[:60]}")

    def ev_list(self, es: list, env: Env, mod: Module, k, acc=()):
        if not es:
            return k(list(acc), env)
        return self.ev(es[0], env, mod, lambda v, e2: self.ev_list(es[1:], e2, mod, k, acc + (v,)))

    def named_const(self, name: str, v):
        if isinstance(v, Const) and isinstance(v.v, dict) and name == "_operator_precedence":
            return Const(PrecTable(v.v))
        return v

    @staticmethod
    def mk_dict(ks: list, vs: list):
        if not all(isinstance(x, Const) and isinstance(x.v, (str, int)) for x in ks):
            raise Unsupported("dict with non-constant keys")
        return Const({x.v: y for x, y in zip(ks, vs)})

    def neg(self, v):
        if isinstance(v, Const) and isinstance(v.v, (int, float)):
            return Const(-v.v)
        raise Unsupported("unary minus")

    def binop(self, e, a, b):
        if isinstance(e.op, ast.Add) and isinstance(a, Term) and a.ty == ("list", "Char", "seq"):
            return Term(f"({atom(a.term)} ++ [{self.want(b, 'Char')}])", a.ty)  # str + char
        if isinstance(e.op, ast.Add) and isinstance(a, Const) and a.v == "" and isinstance(b, Term) and b.ty == "Char":
            return Term(f"[{b.term}]", ("list", "Char", "seq"))
        raise Unsupported(f"operator in {ast.unparse(e)[:60]}")

    # ------------------------------------------------------------------------------------------ attributes
    def attr(self, b, name: str, env: Env, mod: Module, k, src):
        if isinstance(b, Obj):
            slots = env.heap[b.oid]
            if name in slots:
                return k(slots[name], env)
            m = self.method(b.cls, name)
            if m is not None:
                fn = m[1]
                if any(isinstance(d, ast.Name) and d.id == "property" for d in fn.decorator_list):
                    return self.apply_fn(Fn(fn, m[0].key, b, b.cls), [], {}, env, k, src)
                return k(Fn(fn, m[0].key, b, b.cls), env)
            raise Unsupported(f"attribute {ast.unparse(src)[:60]} (no slot / method {name})")
        if isinstance(b, Cls):
            f = self.find_class(b.name)
            if f is not None:
                if any(isinstance(x, ast.Name) and x.id == "Enum" for x in f[1].bases):
                    return k(Enum(b.name, name), env)
                m = self.method(b.name, name)
                if m is not None:
                    return k(Fn(m[1], m[0].key, None, b.name), env)
            return k(Enum(b.name, name), env)
        if isinstance(b, Prim) and b.name.startswith("module:"):
            modname = b.name[7:]
            if modname == "math" and name in ("isnan", "isinf", "isfinite"):
                return k(Prim("math." + name), env)
            if modname == "math" and name == "nan":
                return k(Const(float("nan")), env)
            if modname == "copy" and name == "copy":
                return k(Prim("copy.copy"), env)
            if modname == "asyncio":
                return k(Opaque("asyncio." + name), env)
            raise Unsupported(f"attribute {ast.unparse(src)[:60]}")
        if isinstance(b, Qty) or (isinstance(b, Const) and b.v is None):
            if isinstance(b, Qty) and name == "base_value":
                return k(b, env)
            if isinstance(b, Qty) and name in ("isnan", "isinf"):
                return k(("qty-attr", b, name), env)
            raise Unsupported(f"attribute {name} of {b} (a value that may be None / of unknown kind)")
        if isinstance(b, Ref) or isinstance(b, Term) and is_list(b.ty) or isinstance(b, Const) and isinstance(b.v, (dict, PrecTable, tuple, str)):
            return k(("bound", b, name, src.value if isinstance(src, ast.Attribute) else None), env)
        if isinstance(b, Inst):
            kw = dict(b.kwargs)
            if name in kw:
                return k(kw[name], env)
            return k(("bound", b, name, None), env)
        if isinstance(b, Term) and b.ty == "Char" and name == "isdigit":
            return k(("bound", b, name, None), env)
        if isinstance(b, Term) and b.ty == "EngineName" and name == "_name":
            return k(Term(b.term, "Nat"), env)
        if isinstance(b, Opaque):
            return k(Opaque(b.what + "." + name), env)
        if isinstance(b, Kind):
            for n, pv in b.payload:
                if n == name:
                    return k(pv, env)
            raise Unsupported(f"attribute {name} of an operand of classes {sorted(b.classes)}")
        raise Unsupported(f"attribute {ast.unparse(src)[:60]} of {type(b).__name__}")

    def index(self, b, i, env: Env, k, src):
        b = self.deref(b, env)
        if isinstance(b, Const) and isinstance(b.v, PrecTable):
            if isinstance(i, Const) and i.v in b.v.table:
                return k(Term(f"(Extracted.Formula.prec Formula.Op.{OPS[i.v]})", "Nat"), env)
            if isinstance(i, Term) and i.ty == "Op":
                return k(Term(f"(Extracted.Formula.prec {atom(i.term)})", "Nat"), env)
            raise Unsupported(f"precedence lookup {ast.unparse(src)[:60]}")
        if isinstance(b, Const) and isinstance(b.v, dict) and isinstance(i, Const):
            if i.v in b.v:
                return k(b.v[i.v], env)
            raise Unsupported(f"KeyError in {ast.unparse(src)[:60]}")
        if isinstance(b, Term) and is_list(b.ty) and b.ty[2] == "stack" and i == Const(-1):
            return self.need_cons(b, env, lambda h, t, e2: k(Term(h, b.ty[1]), e2), "IndexError")
        raise Unsupported(f"subscript {ast.unparse(src)[:60]}")

    def need_cons(self, lst: Term, env: Env, k, exc: str):
        """k(head term, tail term, env) on the path where the list is non-empty; `exc` otherwise."""
        if lst.term in env.cons:
            h, t = env.cons[lst.term]
            return k(h, t, env)
        if lst.term in env.nil:
            return self.raise_leaf(exc)
        h, t = self.fresh("h"), self.fresh("t")
        e2 = env.copy()
        e2.cons[lst.term] = (h, t)
        e3 = env.copy()
        e3.nil = e3.nil | {lst.term}
        return MatchList(lst.term, h, t, k(h, t, e2), self.raise_leaf(exc))

    # ------------------------------------------------------------------------------------------ locations
    def loc(self, e: ast.expr, env: Env, mod: Module, k):
        """k(getter value, setter(env, newval) -> env, env)."""
        e = e.value if isinstance(e, ast.Await) else e
        if isinstance(e, ast.Name) and e.id in env.locals and isinstance(env.locals[e.id], Ref):
            r = env.locals[e.id]
            return k(env.cells[r.cid], lambda en, v: en.set_cell(r.cid, v), env)
        if isinstance(e, ast.Name) and e.id in env.locals:
            return k(env.locals[e.id], lambda en, v: en.bind(e.id, v), env)
        if isinstance(e, ast.Attribute):
            def got(b, e2):
                if isinstance(b, Obj) and e.attr in e2.heap[b.oid]:
                    cur = e2.heap[b.oid][e.attr]
                    if isinstance(cur, Ref):
                        return k(e2.cells[cur.cid], lambda en, v: en.set_cell(cur.cid, v), e2)
                    return k(cur, lambda en, v: en.set_slot(b.oid, e.attr, v), e2)
                if isinstance(b, Kind):
                    for n_, pv in b.payload:
                        if n_ == e.attr and isinstance(pv, Ref):
                            return k(e2.cells[pv.cid], lambda en, v: en.set_cell(pv.cid, v), e2)
                raise Unsupported(f"mutation of {ast.unparse(e)[:60]}")
            return self.ev(e.value, env, mod, got)
        raise Unsupported(f"mutation of {ast.unparse(e)[:60]}")

    # ------------------------------------------------------------------------------------------ calls
    def call(self, e: ast.Call, env: Env, mod: Module, k):
        if any(kw.arg is None for kw in e.keywords) or any(isinstance(a, ast.Starred) for a in e.args):
            raise Unsupported(f"call {ast.unparse(e)[:60]}")
        f = e.func
        # mutating list methods need the receiver as a location
        if isinstance(f, ast.Attribute) and f.attr in MUTATORS:
            return self.loc(f.value, env, mod, lambda cur, setter, e1: self.ev_list(
                list(e.args), e1, mod, lambda args, e2: self.mutate(cur, setter, f.attr, args, e2, k, e)))
        if isinstance(f, ast.Attribute) and f.attr == "apply" and len(e.args) == 1 and not e.keywords:
            def recv(r, e1):
                if not (isinstance(r, Term) and r.ty == "Step"):
                    raise Unsupported(f"call {ast.unparse(e)[:60]}")

                def with_stack(cur, setter, e2):
                    if not (isinstance(cur, Term) and cur.ty == ("list", "V", "stack")) or self.mode != "except":
                        raise Unsupported(f"call {ast.unparse(e)[:60]}")
                    nv = self.fresh("st")
                    return Bind(f"applyStep {atom(r.term)} {atom(cur.term)}", nv,
                                k(Const(None), setter(e2, Term(nv, cur.ty))), self.mode)
                return self.loc(e.args[0], e1, mod, with_stack)
            return self.ev(f.value, env, mod, recv)
        if isinstance(f, ast.Name) and f.id == "next" and len(e.args) == 1 and f.id not in env.locals:
            return self.loc(e.args[0], env, mod, lambda cur, setter, e1: self.stream_next(cur, setter, e1, k, "StopIteration"))
        return self.ev(f, env, mod, lambda fv, e1: self.ev_list(
            list(e.args) + [kw.value for kw in e.keywords], e1, mod,
            lambda vs, e2: self.apply(fv, vs[:len(e.args)], dict(zip([kw.arg for kw in e.keywords], vs[len(e.args):])), e2, mod, k, e)))

    def elem_ty(self, lst: Term):
        return lst.ty[1]

    def mutate(self, cur, setter, meth: str, args: list, env: Env, k, src):
        args = [self.deref(a, env) for a in args]
        if isinstance(cur, Term) and cur.ty == "Fetchers" and meth == "setdefault" and len(args) == 2:
            # dict.setdefault(name, MetricFetcher(name, …, nones_are_zeros=z)); a fetcher is identified by (name, z)
            f = args[1]
            fname = (f.args[0] if f.args else dict(f.kwargs).get("name")) if isinstance(f, Inst) else None
            if not (isinstance(f, Inst) and f.cls == "MetricFetcher" and fname is not None and "nones_are_zeros" in dict(f.kwargs)):
                raise Unsupported(f"{ast.unparse(src)[:60]}: the default is not a new MetricFetcher")
            n = self.want(args[0], "Nat", env)
            if self.want(fname, "Nat", env) != n:
                raise Unsupported("the fetcher is registered under a different name than its own")
            z = self.want(dict(f.kwargs)["nones_are_zeros"], "Bool", env)
            zv = self.fresh("z")
            new = Term(f"({atom(cur.term)} ++ [({n}, {z})])", "Fetchers")
            return MatchOpt(f"Formula.lookupFetcher {atom(cur.term)} {atom(n)}", zv,
                            k(Term(f"(Formula.Step.metric {atom(n)} {zv})", "Step"), env),
                            k(Term(f"(Formula.Step.metric {atom(n)} {atom(z)})", "Step"), setter(env, new)))
        if isinstance(cur, Const) and cur.v == () and meth == "append" and len(args) == 1 and isinstance(args[0], Term) \
                and isinstance(args[0].ty, str):
            return k(Const(None), setter(env, Term(f"[{args[0].term}]", ("list", args[0].ty, "seq"))))
        if not (isinstance(cur, Term) and is_list(cur.ty)):
            if isinstance(cur, Opaque):
                return k(Const(None), env)
            raise Unsupported(f"{ast.unparse(src)[:60]}: receiver is not a list")
        ety, rep = cur.ty[1], cur.ty[2]
        if meth == "append" and len(args) == 1:
            x = self.want(args[0], ety, env)
            new = Term(f"({x} :: {cur.term})" if rep == "stack" else f"({atom(cur.term)} ++ [{x}])", cur.ty)
            e2 = setter(env, new)
            if rep == "stack":
                e2.cons[new.term] = (x, cur.term)
            return k(Const(None), e2)
        if meth == "appendleft" and len(args) == 1 and rep == "seq":
            x = self.want(args[0], ety, env)
            return k(Const(None), setter(env, Term(f"({x} :: {cur.term})", cur.ty)))
        if meth == "extend" and len(args) == 1 and rep == "seq":
            o = args[0]
            if not (isinstance(o, Term) and is_list(o.ty) and o.ty[2] == "seq"):
                raise Unsupported(f"{ast.unparse(src)[:60]}: argument of extend")
            if o.ty[1] == ety:
                ot = atom(o.term)
            elif (o.ty[1], ety) == ("Op", "Step"):
                ot = f"({atom(o.term)}.map Formula.Step.op)"
            else:
                raise Unsupported(f"{ast.unparse(src)[:60]}: element type of the argument of extend")
            return k(Const(None), setter(env, Term(f"({atom(cur.term)} ++ {ot})", cur.ty)))
        if meth == "clear" and not args:
            new = Term(f"([] : {lty(cur.ty)})", cur.ty)
            e2 = setter(env, new)
            e2.nil = e2.nil | {new.term}
            return k(Const(None), e2)
        if meth == "pop" and not args and rep == "stack":
            def popped(h, t, e2):
                return k(Term(h, ety), setter(e2, Term(t, cur.ty)))
            return self.need_cons(cur, env, popped, "IndexError")
        raise Unsupported(f"list operation {ast.unparse(src)[:60]}")

    def stream_next(self, cur, setter, env: Env, k, exc: str):
        if not (isinstance(cur, Term) and cur.ty == ("list", "Char", "stream")):
            raise Unsupported("next() of something that is not the character stream")
        return self.need_cons(cur, env, lambda h, t, e2: k(Term(h, "Char"), setter(e2, Term(t, cur.ty))), exc)

    def apply(self, fv, args: list, kwargs: dict, env: Env, mod: Module, k, src):
        if isinstance(fv, Fn):
            return self.apply_fn(fv, args, kwargs, env, k, src)
        if isinstance(fv, Cls):
            return self.construct(fv, args, kwargs, env, k, src)
        if isinstance(fv, Prim):
            return self.prim(fv.name, args, kwargs, env, k, src)
        if isinstance(fv, tuple) and fv[0] == "bound":
            return self.bound(fv[1], fv[2], args, kwargs, env, k, src)
        if isinstance(fv, tuple) and fv[0] == "qty-attr" and not args and not kwargs:
            return k(Const(fv[1].kind == ("nan" if fv[2] == "isnan" else "inf")), env)
        if isinstance(fv, Opaque):
            return k(Opaque(fv.what + "()"), env)
        raise Unsupported(f"call {ast.unparse(src)[:60]}")

    def apply_fn(self, fv: Fn, args: list, kwargs: dict, env: Env, k, src):
        fn = fv.node
        if (fv.owner, getattr(fn, "name", None)) in self.boundaries:
            return self.boundaries[(fv.owner, fn.name)](fv, args, kwargs, env, k)
        if self.depth > 12:
            raise Unsupported("calls nested too deeply")
        static = any(isinstance(d, ast.Name) and d.id == "staticmethod" for d in getattr(fn, "decorator_list", []))
        a = fn.args
        if a.vararg or a.kwarg:
            raise Unsupported(f"signature of {fn.name}")
        names = [p.arg for p in a.posonlyargs + a.args]
        if fv.owner is not None and not static:
            if fv.self_val is None:
                raise Unsupported(f"unbound method {fn.name}")
            args = [fv.self_val] + args
        if len(args) > len(names):
            raise Unsupported(f"too many arguments for {fn.name}")
        bound = dict(zip(names, args))
        kwnames = [p.arg for p in a.kwonlyargs]
        for kname, v in kwargs.items():
            if (kname not in names and kname not in kwnames) or kname in bound:
                raise Unsupported(f"keyword {kname} of {fn.name}")
            bound[kname] = v
        defaults = dict(zip(names[len(names) - len(a.defaults):], a.defaults))
        defaults.update({p: d for p, d in zip(kwnames, a.kw_defaults) if d is not None})
        mod = self.mods[fv.mod]
        missing = [n for n in names + kwnames if n not in bound]

        def run(e: Env):
            inner = e.copy()
            saved = inner.locals
            inner.locals = dict(bound)
            self.depth += 1
            try:
                def back(v, e2):
                    e3 = e2.copy()
                    e3.locals = saved
                    self.depth -= 1
                    try:
                        return k(v, e3)
                    finally:
                        self.depth += 1
                return self.block(strip_doc(fn.body), inner, mod, FnK(back), fn)
            finally:
                self.depth -= 1

        def fill(i: int, e: Env):
            if i == len(missing):
                return run(e)
            n = missing[i]
            if n not in defaults:
                raise Unsupported(f"missing argument {n} of {fn.name}")

            def got(v, e2):
                bound[n] = v
                return fill(i + 1, e2)
            return self.ev(defaults[n], e, mod, got)
        return fill(0, env)

    def construct(self, c: Cls, args: list, kwargs: dict, env: Env, k, src):
        if c.name == "deque" and not args and not kwargs:
            return k(Term("([] : List HTok)", SEQ_HTOK), env)
        if c.name in ("RuntimeError", "ValueError", "StopIteration", "IndexError", "NotImplementedError", "KeyError"):
            return k(Inst(c.name), env)
        return k(Inst(c.name, tuple(args), tuple(sorted(kwargs.items()))), env)

    def bound(self, recv, name: str, args: list, kwargs: dict, env: Env, k, src):
        if isinstance(recv, Const) and isinstance(recv.v, dict) and name == "get" and 1 <= len(args) <= 2 and not kwargs:
            if not isinstance(args[0], Const):
                raise Unsupported(f"dict lookup with a symbolic key: {ast.unparse(src)[:60]}")
            return k(recv.v.get(args[0].v, args[1] if len(args) == 2 else Const(None)), env)
        if isinstance(recv, Const) and recv.v == "" and name == "join" and len(args) == 1 and not kwargs:
            a = self.deref(args[0], env)
            if isinstance(a, Term) and a.ty == ("list", "Char", "seq"):
                return k(a, env)  # the concatenation of one-character strings
            if isinstance(a, Const) and a.v == ():
                return k(Const(""), env)
            raise Unsupported(f"call {ast.unparse(src)[:60]}")
        if isinstance(recv, Ref) and name == "copy" and not args:
            r, e2 = self.new_cell(env, env.cells[recv.cid])
            return k(r, e2)
        recv = self.deref(recv, env)
        if isinstance(recv, Term) and is_list(recv.ty) and name == "copy" and not args:
            r, e2 = self.new_cell(env, recv)
            return k(r, e2)
        if isinstance(recv, Term) and recv.ty == "Char" and name == "isdigit" and not args:
            return k(Term(f"{atom(recv.term)}.isDigit", "Bool"), env)
        if isinstance(recv, Term) and recv.ty == ("list", "Char", "stream") and name == "peek" and not args:
            if recv.term in env.cons:
                return k(Term(env.cons[recv.term][0], "Char"), env)
            if recv.term in env.nil:
                return k(Const(None), env)
            h, t = self.fresh("c"), self.fresh("cs")
            e2, e3 = env.copy(), env.copy()
            e2.cons[recv.term] = (h, t)
            e3.nil = e3.nil | {recv.term}
            return MatchList(recv.term, h, t, k(Term(h, "Char"), e2), k(Const(None), e3))
        if isinstance(recv, Inst):
            return k(Opaque(f"{recv.cls}.{name}()"), env)
        raise Unsupported(f"call {ast.unparse(src)[:60]}")

    def prim(self, name: str, args: list, kwargs: dict, env: Env, k, src):
        args = [self.deref(a, env) if not (name == "isinstance") else a for a in args]
        if kwargs:
            raise Unsupported(f"keyword arguments in {ast.unparse(src)[:60]}")
        if name == "repr" and len(args) == 1:
            a = args[0]
            if isinstance(a, Term) and a.ty == "Op":
                return k(a, env)  # a step on the build stack is represented by its `repr`
            if isinstance(a, Inst) and a.cls in self.reprs:
                return k(Const(self.reprs[a.cls]), env)
            raise Unsupported(f"repr of {a}")
        if name == "len" and len(args) == 1 and isinstance(args[0], Term) and is_list(args[0].ty):
            t = Term(f"{atom(args[0].term)}.length", "Nat")
            self.len_of[t.term] = args[0]
            return k(t, env)
        if name == "reversed" and len(args) == 1 and isinstance(args[0], Term) and is_list(args[0].ty):
            a = args[0]
            if a.ty[2] == "stack":  # top-first IS the reversed python list
                return k(Term(a.term, ("list", a.ty[1], "seq")), env)
            raise Unsupported("reversed() of a list that is not a stack")
        if name == "isinstance" and len(args) == 2:
            return k(Const(self.isinstance(args[0], args[1])), env)
        if name == "copy.copy" and len(args) == 1 and isinstance(args[0], Obj):
            o, e2 = self.new_obj(env, args[0].cls, env.heap[args[0].oid])
            return k(o, e2)
        if name in ("math.isnan", "math.isinf", "math.isfinite") and len(args) == 1:
            a = args[0]
            if isinstance(a, Term) and a.ty == "V":
                if name == "math.isnan":
                    return k(Term(f"(Formula.PyF.isnan {atom(a.term)})", "Bool"), env)
                if name == "math.isinf":
                    return k(Const(False), env)  # the exact-arithmetic stack values have no infinities
                return k(Term(f"(!(Formula.PyF.isnan {atom(a.term)}))", "Bool"), env)
            raise Unsupported(f"{name} of {a}")
        if name == "create" and len(args) == 1 and isinstance(args[0], Term) and args[0].ty == "V":
            return k(Term(args[0].term, ("opt", "Rat")), env)  # `self._create_method(res)`: the quantity with base value res
        if name in ("float", "int") and len(args) == 1 and isinstance(args[0], (Term, Const, Qty)):
            return k(args[0], env)
        raise Unsupported(f"call {ast.unparse(src)[:60]}")

    def isinstance(self, v, c) -> bool:
        names = set()
        for x in (c.items if isinstance(c, Tup) else (c,)):
            if isinstance(x, Cls):
                names.add(x.name)
            elif isinstance(x, Prim):
                names.add(x.name)
            else:
                raise Unsupported(f"isinstance against {x}")
        if isinstance(v, Kind):
            return bool(names & v.classes)
        if isinstance(v, Const) and isinstance(v.v, str):
            return "str" in names
        if isinstance(v, Const) and v.v is None:
            return False
        raise Unsupported(f"isinstance of {v}")

    # ------------------------------------------------------------------------------------------ conditions
    def cond(self, t: ast.expr, env: Env, mod: Module, T, E):
        if isinstance(t, ast.BoolOp):
            first, rest = t.values[0], t.values[1:]
            rest_t = rest[0] if len(rest) == 1 else ast.BoolOp(op=t.op, values=rest)
            if isinstance(t.op, ast.And):
                return self.cond(first, env, mod, lambda e: self.cond(rest_t, e, mod, T, E), E)
            return self.cond(first, env, mod, T, lambda e: self.cond(rest_t, e, mod, T, E))
        if isinstance(t, ast.UnaryOp) and isinstance(t.op, ast.Not):
            return self.cond(t.operand, env, mod, E, T)
        if isinstance(t, ast.Compare):
            if len(t.ops) != 1:
                raise Unsupported(f"chained comparison {ast.unparse(t)[:60]}")
            op = t.ops[0]
            return self.ev(t.left, env, mod, lambda a, e1: self.ev(
                t.comparators[0], e1, mod, lambda b, e2: self.compare(op, a, b, e2, T, E, t)))
        return self.ev(t, env, mod, lambda v, e2: self.truth(v, e2, T, E, t))

    def truth(self, v, env: Env, T, E, src):
        v = self.deref(v, env)
        if isinstance(v, Const):
            if isinstance(v.v, float) and v.v != v.v:
                return T(env)
            return T(env) if v.v else E(env)
        if isinstance(v, (Obj, Inst, Cls, Fn, Qty, Enum, Kind)) and not isinstance(v, Kind) or isinstance(v, Kind) and v.classes - {'float', 'int'}:
            if isinstance(v, Qty):
                raise Unsupported("truth value of a quantity")
            return T(env)
        if isinstance(v, Term):
            if v.ty == "Bool":
                return If(f"{v.term} = true", T(env), E(env))
            if v.ty == "Char":
                return T(env)  # a one-character string is truthy
            if is_opt(v.ty) and v.ty[1] == "Char":
                return self.opt_test(v, env, T, E)
            if is_list(v.ty):
                if v.term in env.cons:
                    return T(env)
                if v.term in env.nil:
                    return E(env)
                h, t = self.fresh("h"), self.fresh("t")
                e2, e3 = env.copy(), env.copy()
                e2.cons[v.term] = (h, t)
                e3.nil = e3.nil | {v.term}
                return MatchList(v.term, h, t, T(e2), E(e3))
        raise Unsupported(f"truth value of {ast.unparse(src)[:60]}")

    def compare(self, op, a, b, env: Env, T, E, src):
        if isinstance(a, Ref) and isinstance(b, Ref) and isinstance(op, (ast.Is, ast.IsNot)):
            return (T if (a == b) == isinstance(op, ast.Is) else E)(env)
        a, b = self.deref(a, env), self.deref(b, env)
        pos, neg = (T, E) if isinstance(op, (ast.Eq, ast.Is, ast.In, ast.Lt, ast.LtE, ast.Gt, ast.GtE)) else (E, T)
        # `len(x) == 0` / `!= 0` / `> 0` / `0 < len(x)`: an emptiness test (the list is known non-empty on the other branch)
        for x, y, flip in ((a, b, False), (b, a, True)):
            if isinstance(x, Term) and x.term in self.len_of and y == Const(0):
                lst = self.len_of[x.term]
                if isinstance(op, (ast.Eq, ast.NotEq)):
                    return self.truth(lst, env, neg, pos, src)
                if isinstance(op, ast.Gt) and not flip or isinstance(op, ast.Lt) and flip:
                    return self.truth(lst, env, T, E, src)
        if isinstance(op, (ast.Is, ast.IsNot)):
            if isinstance(b, Const) and b.v is None or isinstance(a, Const) and a.v is None:
                x = a if (isinstance(b, Const) and b.v is None) else b
                if isinstance(x, Const):
                    return (pos if x.v is None else neg)(env)
                if isinstance(x, (Obj, Inst, Qty, Cls, Enum, Tup, Fn, Kind)):
                    return neg(env)
                if isinstance(x, Term) and is_opt(x.ty):
                    return self.opt_test(x, env, neg, pos)
                if isinstance(x, Term):
                    return neg(env)
            raise Unsupported(f"identity test {ast.unparse(src)[:60]}")
        if isinstance(op, (ast.Eq, ast.NotEq)):
            if isinstance(a, (Const, Enum)) and isinstance(b, (Const, Enum)):
                return (pos if a == b else neg)(env)
            for x, y in ((a, b), (b, a)):
                if isinstance(x, Term) and x.ty in ("Op", "Char") and isinstance(y, Const) and isinstance(y.v, str):
                    return If(f"{x.term} = {self.want(y, x.ty)}", pos(env), neg(env))
                if isinstance(x, Term) and x.ty == "Nat" and isinstance(y, Const) and isinstance(y.v, int):
                    return If(f"{x.term} = {y.v}", pos(env), neg(env))
            if isinstance(a, Term) and isinstance(b, Term) and a.ty == b.ty and a.ty in ("Op", "Char", "Nat", "Bool"):
                return If(f"{a.term} = {b.term}", pos(env), neg(env))
            if isinstance(a, Term) and a.ty == "V" or isinstance(b, Term) and b.ty == "V":
                x, y = self.want(a, "V"), self.want(b, "V")
                return If(f"(Formula.PyF.eq {atom(x)} {atom(y)}) = true", pos(env), neg(env))
            raise Unsupported(f"comparison {ast.unparse(src)[:60]}")
        if isinstance(op, (ast.In, ast.NotIn)):
            if isinstance(b, Const) and isinstance(b.v, (str, tuple)) or isinstance(b, Tup):
                items = list(b.v) if isinstance(b, Const) else [x.v if isinstance(x, Const) else None for x in b.items]
                if any(not isinstance(x, str) for x in items):
                    raise Unsupported(f"membership {ast.unparse(src)[:60]}")
                if isinstance(a, Const):
                    return (pos if a.v in items else neg)(env)
                if isinstance(a, Term) and a.ty in ("Char", "Op"):
                    lst = "[" + ", ".join(self.want(Const(x), a.ty) for x in items) + "]"
                    return If(f"{lst}.contains {atom(a.term)} = true", pos(env), neg(env))
            if isinstance(b, Const) and isinstance(b.v, dict) and isinstance(a, Const):
                return (pos if a.v in b.v else neg)(env)
            raise Unsupported(f"membership {ast.unparse(src)[:60]}")
        sym = {ast.Lt: "<", ast.LtE: "≤", ast.Gt: ">", ast.GtE: "≥"}[type(op)]
        if all(isinstance(x, (Term, Const)) for x in (a, b)):
            ty = next((x.ty for x in (a, b) if isinstance(x, Term)), None)
            if ty == "Nat":
                return If(f"{self.want(a, 'Nat')} {sym} {self.want(b, 'Nat')}", T(env), E(env))
        raise Unsupported(f"comparison {ast.unparse(src)[:60]}")

    def opt_test(self, x: Term, env: Env, S, N):
        if x.term in env.some:
            return S(env)
        if x.term in env.none:
            return N(env)
        var = self.fresh("v")
        e2, e3 = env.copy(), env.copy()
        e2.some[x.term] = var
        e3.none = e3.none | {x.term}
        return MatchOpt(x.term, var, S(e2), N(e3))

    # ------------------------------------------------------------------------------------------ statements
    def block(self, stmts: list, env: Env, mod: Module, K: Kont, fn=None):
        if not stmts:
            return K.end(env)
        s, rest = stmts[0], stmts[1:]
        go = lambda e: self.block(rest, e, mod, K, fn)  # noqa: E731
        if isinstance(s, ast.Pass) or isinstance(s, ast.Assert):
            return go(env)
        if isinstance(s, ast.Expr):
            if isinstance(s.value, ast.Constant):
                return go(env)
            if isinstance(s.value, ast.Call) and ast.unparse(s.value.func).startswith("_logger."):
                return go(env)
            return self.ev(s.value, env, mod, lambda _v, e2: go(e2))
        if isinstance(s, ast.Return):
            if s.value is None:
                return K.ret(Const(None), env)
            return self.ev(s.value, env, mod, K.ret)
        if isinstance(s, ast.Break):
            return K.brk(env)
        if isinstance(s, ast.Continue):
            return K.cont(env)
        if isinstance(s, ast.Raise):
            if s.exc is None:
                return self.raise_leaf("Exception")

            def raised(v, e):
                if isinstance(v, Inst):
                    return self.raise_leaf(v.cls)
                if isinstance(v, Cls):
                    return self.raise_leaf(v.name)
                raise Unsupported(f"raise {ast.unparse(s.exc)[:50]}")
            return self.ev(s.exc, env, mod, raised)
        if isinstance(s, ast.AnnAssign):
            if s.value is None:
                return go(env)
            s = ast.Assign(targets=[s.target], value=s.value)
        if isinstance(s, ast.AugAssign) and isinstance(s.target, ast.Name):
            s = ast.Assign(targets=[s.target], value=ast.BinOp(left=ast.Name(id=s.target.id, ctx=ast.Load()), op=s.op, right=s.value))
        if isinstance(s, ast.Assign) and len(s.targets) == 1:
            return self.ev(s.value, env, mod, lambda v, e2: self.assign(s.targets[0], v, e2, mod, go))
        if isinstance(s, ast.If):
            return self.cond(s.test, env, mod,
                             lambda e: self.block(s.body + rest, e, mod, K, fn),
                             lambda e: self.block(s.orelse + rest, e, mod, K, fn))
        if isinstance(s, ast.Match):
            return self.match(s, rest, env, mod, K, fn)
        if isinstance(s, ast.While):
            return self.loop(s, rest, env, mod, K, fn)
        if isinstance(s, ast.For):
            return self.loop(s, rest, env, mod, K, fn)
        raise Unsupported(f"statement {type(s).__name__}: {ast.unparse(s)[:60]}")

    def materialize(self, name: str, v, env: Env, go):
        """Bind a Lean-term value to a fresh `let` (keeps the generated code readable and linear in size)."""
        if isinstance(v, Term) and not re.fullmatch(r"[\w.']+", v.term) and not is_list(v.ty):
            ln = self.fresh(name)
            return Let(ln, lty(v.ty), v.term, go(Term(ln, v.ty), env))
        return go(v, env)

    def assign(self, tgt, v, env: Env, mod: Module, go):
        if isinstance(v, Term) and is_list(v.ty) and v.ty[1] != "Char":
            v, env = self.new_cell(env, v)  # a list that is not yet shared: from now on it is (by reference)
        if isinstance(tgt, ast.Name):
            return self.materialize(tgt.id, v, env, lambda w, e: go(e.bind(tgt.id, w)))
        if isinstance(tgt, ast.Attribute):
            def got(b, e2):
                if not isinstance(b, Obj):
                    raise Unsupported(f"store to {ast.unparse(tgt)[:60]}")
                return go(e2.set_slot(b.oid, tgt.attr, v))
            return self.ev(tgt.value, env, mod, got)
        if isinstance(tgt, (ast.Tuple, ast.List)):
            if isinstance(v, Tup) and len(v.items) == len(tgt.elts):
                def each(i: int, e: Env):
                    if i == len(tgt.elts):
                        return go(e)
                    return self.assign(tgt.elts[i], v.items[i], e, mod, lambda e2: each(i + 1, e2))
                return each(0, env)
        raise Unsupported(f"assignment target {ast.unparse(tgt)[:60]}")

    def match(self, s: ast.Match, rest: list, env: Env, mod: Module, K: Kont, fn):
        def with_subject(subj, env1: Env):
            def case_k(i: int, e: Env):
                if i == len(s.cases):
                    return self.block(rest, e, mod, K, fn)
                c = s.cases[i]
                alts = list(c.pattern.patterns) if isinstance(c.pattern, ast.MatchOr) else [c.pattern]

                def body(e2: Env):
                    if c.guard is None:
                        return self.block(c.body + rest, e2, mod, K, fn)
                    return self.cond(c.guard, e2, mod, lambda e3: self.block(c.body + rest, e3, mod, K, fn),
                                     lambda e3: case_k(i + 1, e3))

                def alt_k(j: int, e2: Env):
                    if j == len(alts):
                        return case_k(i + 1, e2)
                    p = alts[j]
                    if isinstance(p, ast.MatchAs) and p.pattern is None:
                        return body(e2 if p.name is None else e2.bind(p.name, subj))
                    if isinstance(p, ast.MatchValue):
                        return self.ev(p.value, e2, mod, lambda pv, e3: self.compare(
                            ast.Eq(), subj, pv, e3, body, lambda e4: alt_k(j + 1, e4), p.value))
                    if isinstance(p, ast.MatchSingleton):
                        return self.compare(ast.Is(), subj, Const(p.value), e2, body, lambda e4: alt_k(j + 1, e4), s.subject)
                    raise Unsupported(f"pattern {ast.unparse(p)[:60]}")
                return alt_k(0, e)
            return case_k(0, env1)
        return self.ev(s.subject, env, mod, with_subject)

    # ------------------------------------------------------------------------------------------ loops
    @staticmethod
    def ty_of(v):
        if isinstance(v, Term):
            return v.ty
        if isinstance(v, Const):
            if isinstance(v.v, bool):
                return "Bool"
            if isinstance(v.v, str):
                return ("list", "Char", "seq")
            if v.v is None:
                return "NoneType"
            if v.v == ():
                return "EmptyList"
        return None

    def locations(self, env: Env) -> dict:
        out = {("local", n): v for n, v in env.locals.items() if not isinstance(v, Ref)}
        for oid, slots in env.heap.items():
            for a, v in slots.items():
                if not isinstance(v, Ref):
                    out[("slot", oid, a)] = v
        names = self.cell_names(env)
        for cid, v in env.cells.items():
            out[("cell", cid, names.get(cid, f"list{cid}"))] = v
        return out

    @staticmethod
    def cell_names(env: Env) -> dict:
        """A stable, readable name per list cell: the slot (or local) that refers to it."""
        names: dict = {}
        for n, v in env.locals.items():
            if isinstance(v, Ref):
                names.setdefault(v.cid, n)
        for _oid, slots in env.heap.items():
            for a, v in slots.items():
                if isinstance(v, Ref):
                    names[v.cid] = a
        return names

    @staticmethod
    def set_loc(env: Env, loc, v) -> Env:
        if loc[0] == "cell":
            return env.set_cell(loc[1], v)
        return env.bind(loc[1], v) if loc[0] == "local" else env.set_slot(loc[1], loc[2], v)

    def loop(self, s, rest: list, env: Env, mod: Module, K: Kont, fn):
        brk_flag = False
        if s.orelse:
            # `else:` runs when the loop is left normally; without a `break` in the body that is every time it is left
            def has_break(stmts) -> bool:
                for st in stmts:
                    if isinstance(st, ast.Break):
                        return True
                    if isinstance(st, (ast.For, ast.While, ast.AsyncFor, ast.FunctionDef)):
                        continue
                    for fld in ("body", "orelse", "cases"):
                        sub = getattr(st, fld, None)
                        if sub and has_break([c for x in sub for c in (x.body if isinstance(x, ast.match_case) else [x])]):
                            return True
                return False
            brk_flag = has_break(s.body)
            if not brk_flag:
                rest = list(s.orelse) + list(rest)
        # `for x in <list>`: a hidden iterator variable; `for c in <stream slot>`: the slot itself is consumed
        it_loc = None
        if isinstance(s, ast.For):
            holder: list = []
            self.ev(s.iter, env, mod, lambda v, e2: holder.append((v, e2)) or Leaf(""))
            if len(holder) != 1:
                raise Unsupported("loop iterable with branches")
            itv, env = holder[0]
            itref = itv if isinstance(itv, Ref) else None
            itv = self.deref(itv, env)
            if not (isinstance(itv, Term) and is_list(itv.ty)):
                raise Unsupported(f"iteration over {ast.unparse(s.iter)[:50]}")
            if itv.ty[2] == "stream":
                locs = [l for l in self.locations(env) if itref is not None and l[0] == "cell" and l[1] == itref.cid] or \
                    [l for l, v in self.locations(env).items() if v == itv]
                if len(locs) != 1:
                    raise Unsupported("iteration over a stream that is not held by exactly one slot")
                it_loc = locs[0]
            else:
                if itv.ty[2] == "stack":
                    itv = Term(f"{atom(itv.term)}.reverse", ("list", itv.ty[1], "seq"))
                self.n += 1
                it_loc = ("local", f"__it{self.n}")
                env = env.bind(it_loc[1], itv)

        entry = self.locations(env)
        # locals first assigned inside the loop (loop target, walrus, …) and read after it keep their last value
        stored = {x.id for x in ast.walk(s) if isinstance(x, ast.Name) and isinstance(x.ctx, ast.Store)}
        after_loads = {x.id for st in list(rest) + list(s.orelse) for x in ast.walk(st)
                       if isinstance(x, ast.Name) and isinstance(x.ctx, ast.Load)}
        live_new = {("local", n) for n in stored & after_loads if ("local", n) not in entry and n not in env.locals}
        has_return = any(isinstance(x, ast.Return) for st in s.body for x in ast.walk(st))
        # `return` (None) inside the last loop of an inlined function that then falls off its end == `break`
        ret_is_break = has_return and not rest and isinstance(K, FnK) and all(
            (x.value is None or (isinstance(x.value, ast.Constant) and x.value.value is None))
            for st in s.body for x in ast.walk(st) if isinstance(x, ast.Return))
        payload = has_return and not ret_is_break

        def iteration(e0: Env, LK: Kont, on_exit):
            """One iteration from the loop head."""
            def body(e: Env):
                return self.block(list(s.body), e, mod, LK, fn)
            if isinstance(s, ast.While):
                return self.cond(s.test, e0, mod, body, on_exit)
            cur = self.locations(e0)[it_loc]
            ety = cur.ty[1]

            def step(h, t, e: Env):
                e = self.set_loc(e, it_loc, Term(t, cur.ty))
                return self.assign(s.target, Term(h, ety), e, mod, body)
            if cur.term in e0.cons:
                return step(*e0.cons[cur.term], e0)
            h, t = self.fresh("x"), self.fresh("xs")
            return MatchList(cur.term, h, t, step(h, t, e0), on_exit(e0))

        # ---- dry run: which locations does an iteration modify?
        modified: dict = {}

        class Rec(Kont):
            def note(self_, e: Env):
                for l, v in self.locations(e).items():
                    if (l in entry and entry[l] != v) or l in live_new:
                        modified.setdefault(l, []).append(v)
                return Leaf("")
            end = cont = brk = note

            def ret(self_, val, e):
                return self_.note(e)
        saved = (self.n, self.oid)
        mode_saved = self.mode
        iteration(env, Rec(), Rec().note)
        self.n, self.oid = saved
        self.mode = mode_saved

        state = []
        for l, vals in modified.items():
            tys = {self.ty_of(v) for v in vals + ([entry[l]] if l in entry else [])}
            tys.discard(None) if len(tys) > 1 else None
            if "EmptyList" in tys and len(tys) == 2 and is_list(next(t for t in tys if t != "EmptyList")):
                tys = {next(t for t in tys if t != "EmptyList")}
            if "NoneType" in tys and len(tys) == 2:
                tys = {("opt", next(t for t in tys if t != "NoneType"))}
            if len(tys) != 1 or None in tys or "NoneType" in tys:
                raise Unsupported(f"loop-carried variable {l} has no single Lean type ({tys})")
            state.append((l, tys.pop()))
        if not state:
            raise Unsupported("loop without loop-carried state")
        state.sort(key=lambda x: (lty(x[1]), str(x[0][-1]) if x[0][0] in ("slot", "cell") else x[0][1]))
        lists = [(l, t) for l, t in state if is_list(t)]
        if not lists:
            raise Unsupported("no list among the loop-carried variables: cannot bound the number of iterations")

        def dummy(t) -> str:  # the value of a variable that is not yet assigned (never read on such a path)
            if t == "Char":
                return "(Char.ofNat 0)"
            if t == "Bool":
                return "false"
            if is_opt(t):
                return f"(none : {lty(t)})"
            if is_list(t):
                return f"([] : {lty(t)})"
            raise Unsupported(f"no placeholder for an unassigned variable of type {t}")

        def pack(e: Env) -> str:
            locs = self.locations(e)
            terms = [self.want(locs[l], t, e) if l in locs else dummy(t) for l, t in state]
            return terms[0] if len(terms) == 1 else "(" + ", ".join(terms) + ")"

        sty = lty(state[0][1]) if len(state) == 1 else "(" + " × ".join(lty(t) for _l, t in state) + ")"
        rty = self.ret_ty if payload else None
        extras = ([f"Option {lty(rty)}"] if payload else []) + (["Bool"] if brk_flag else [])
        rho = sty if not extras else "(" + " × ".join([sty] + extras) + ")"

        def extra(base: str, which: str) -> str:
            names = (["ret"] if payload else []) + (["brk"] if brk_flag else [])
            i = names.index(which)
            return f"{base}.2" if len(names) == 1 else (f"{base}.2.1" if i == 0 else f"{base}.2.2")

        def proj(i: int, base: str) -> str:
            if len(state) == 1:
                return base
            return f"{base}.{'2.' * i}1" if i < len(state) - 1 else f"{base}.{'2.' * (i - 1)}2"

        def enter(base: str, e: Env, k):
            """Bind the state locations to the components of `base`."""
            def each(i: int, e2: Env):
                if i == len(state):
                    return k(e2)
                l, t = state[i]
                nm = self.fresh(l[1] if l[0] == "local" else l[2])
                e3 = self.set_loc(e2, l, Term(nm, t))
                return Let(nm, lty(t), proj(i, base), each(i + 1, e3))
            e = e.copy()
            e.cons, e.nil, e.some, e.none = {}, frozenset(), {}, frozenset()
            return each(0, e)

        def exit_leaf(e: Env, ret=None, broke: bool = False):
            st = pack(e)
            ex = ([ret if ret is not None else "none"] if payload else []) + (["true" if broke else "false"] if brk_flag else [])
            if ex:
                st = "(" + ", ".join([st] + ex) + ")"
            return Leaf(self.ok(f".inr {atom(st)}"))

        class LK(Kont):
            def end(self_, e):
                return Leaf(self.ok(f".inl {atom(pack(e))}"))
            cont = end

            def brk(self_, e):
                return exit_leaf(e, broke=True)

            def ret(self_, val, e):
                if ret_is_break:
                    return exit_leaf(e, broke=True)
                return exit_leaf(e, f"some {atom(self.want(val, rty, e))}")

        step_tree = enter("s", env, lambda e: iteration(e, LK(), exit_leaf))
        init = pack(env)
        fuel = " + ".join(f"{atom(self.want(self.locations(env)[l], t, env))}.length" for l, t in lists) + " + 1"
        exit0 = init if not extras else "(" + ", ".join([init] + (["none"] if payload else []) + (["false"] if brk_flag else [])) + ")"
        r = self.fresh("r")

        def after(e: Env):
            def normal(e2: Env):
                if not brk_flag:
                    return self.block(rest, e2, mod, K, fn)
                return If(f"{extra(r, 'brk')} = true", self.block(rest, e2, mod, K, fn),
                          self.block(list(s.orelse) + list(rest), e2, mod, K, fn))

            def cont(e2: Env):
                if not payload:
                    return normal(e2)
                rv = self.fresh("ret")
                e3 = e2.copy()
                e3.some[extra(r, "ret")] = rv
                return MatchOpt(extra(r, "ret"), rv, K.ret(Term(rv, rty), e3), normal(e2))
            base = r if not extras else f"{r}.1"
            e = e.copy()
            for n in [x.id for st in s.body for x in ast.walk(st) if isinstance(x, ast.Name) and isinstance(x.ctx, ast.Store)]:
                if ("local", n) not in [l for l, _t in state] and n not in entry_names:
                    e.locals.pop(n, None)
            return enter(base, e, cont)
        entry_names = set(env.locals)
        if self.mode == "pure":
            return Loop(r, rho, "(pyLoop", sty, step_tree, f"({fuel}) {atom(init)}).getD {atom(exit0)}", after(env))
        ro = self.fresh("ro")
        inner = Let(r, rho, f"{ro}.getD {atom(exit0)}", after(env))
        lo = self.fresh("loop")
        mty = f"(Option (Option {rho}))" if self.mode == "option" else f"(Except {self.exc_ty} (Option {rho}))"
        return Loop(lo, mty, "(pyLoopM", sty, step_tree, f"({fuel}) {atom(init)})", Bind(lo, ro, inner, self.mode))


class PrecTable:
    def __init__(self, table: dict):
        self.table = {k: (v.v if isinstance(v, Const) else v) for k, v in table.items()}

    def __eq__(self, o):
        return isinstance(o, PrecTable) and self.table == o.table

    def __hash__(self):
        return hash(tuple(sorted(self.table.items())))


@dataclass(frozen=True)
class Kind:  # a value of which only the Python classes are known, plus named Lean payloads
    classes: frozenset
    payload: tuple = ()  # ((attribute, value), …)


# ================================================================================================ drivers
PRELUDE = '''import Frequenz.Model.Shunting

namespace Extracted.FormulaLoops

/-- A Python `while` / `for` loop: `step s = .inl s'` — the iteration ends (falls through / `continue`) with the
loop-carried variables `s'`; `.inr r` — the loop is left (condition false / iterable exhausted / `break` / `return`)
with `r`.  `none` = more than `fuel` iterations (the tie lemmas show that the fuel passed by the translation suffices). -/
def pyLoop {σ ρ : Type} (step : σ → σ ⊕ ρ) : Nat → σ → Option ρ
  | 0, _ => none
  | n + 1, s =>
    match step s with
    | .inl s' => pyLoop step n s'
    | .inr r => some r

/-- The same for a loop whose body can raise (`Option` / `Except`). -/
def pyLoopM {m : Type → Type} [Monad m] {σ ρ : Type} (step : σ → m (σ ⊕ ρ)) : Nat → σ → m (Option ρ)
  | 0, _ => pure none
  | n + 1, s => do
    match ← step s with
    | .inl s' => pyLoopM step n s'
    | .inr r => pure (some r)

/-- An element of `_BaseHOFormulaBuilder._steps`: `(TokenType.COMPONENT_METRIC, engine)` (the engine's name),
`(TokenType.CONSTANT, value)`, `(TokenType.OPER, oper)`. -/
inductive HTok where
  | metric (n : Nat)
  | const (c : Rat)
  | oper (o : Formula.Op)
deriving DecidableEq, Repr

/-- The right operand of `_push`, by its Python class: a `FormulaEngine` (name), a `Quantity`, a `float`/`int`, another
higher-order builder (its `_steps`), anything else. -/
inductive Operand where
  | engine (n : Nat)
  | quantity (c : Rat)
  | scalar (c : Rat)
  | builder (steps : List HTok)
  | other
deriving Repr

/-- What `Tokenizer.__next__` can raise. -/
inductive TokErr where
  | valueError
  | stopIteration
deriving DecidableEq, Repr

'''

STACK_OP = ("list", "Op", "stack")
SEQ_STEP = ("list", "Step", "seq")
SEQ_HTOK = ("list", "HTok", "seq")


def load(repo: pathlib.Path):
    keys = ["engine", "steps", "evaluator", "tokenizer"]
    mods = {k: Module(k, (repo / s).read_text()) for k, s in zip(keys, SOURCES)}
    reprs = {}
    for c in mods["steps"].classes.values():
        for n in c.body:
            if isinstance(n, ast.FunctionDef) and n.name == "__repr__":
                b = strip_doc(n.body)
                if len(b) == 1 and isinstance(b[0], ast.Return) and isinstance(b[0].value, ast.Constant) \
                        and isinstance(b[0].value.value, str):
                    reprs[c.name] = b[0].value.value
    if sorted(reprs.values()) != sorted(k for k in OPS if k != ")"):
        raise Unsupported(f"step classes with a literal __repr__: {sorted(reprs.items())}")
    return mods, reprs


def builder_obj(tr: Tr, env: Env):
    r1, env = tr.new_cell(env, Term("stack", STACK_OP))
    r2, env = tr.new_cell(env, Term("steps", SEQ_STEP))
    return tr.new_obj(env, "FormulaBuilder", {
        "_build_stack": r1, "_steps": r2,
        "_metric_fetchers": Term("fetchers", "Fetchers"), "_name": Opaque("name"), "_create_method": Opaque("create")})


def call_method(tr: Tr, obj: Obj, name: str, args: list, kwargs: dict, env: Env, k):
    m = tr.method(obj.cls, name)
    if m is None:
        raise Unsupported(f"{obj.cls}.{name} not found")
    if isinstance(m[1], ast.AsyncFunctionDef) and name not in ("apply",):
        raise Unsupported(f"{obj.cls}.{name} is async")
    return tr.apply_fn(Fn(m[1], m[0].key, obj, obj.cls), args, kwargs, env, k, m[1])


def gen_builder(mods, reprs) -> list:
    out = []
    sig = "(stack : List Formula.Op) (steps : List Formula.Step)"
    # (a) push_oper, once per operator string
    for op in OP_ORDER:
        tr = Tr(mods, reprs)
        obj, env = builder_obj(tr, Env())

        def done(_v, e, tr=tr, obj=obj):
            s = e.heap[obj.oid]
            return Leaf(f"({tr.want(s['_build_stack'], STACK_OP, e)}, {tr.want(s['_steps'], SEQ_STEP, e)})")
        t = call_method(tr, obj, "push_oper", [Const(op)], {}, env, done)
        out.append(f"/-- `FormulaBuilder.push_oper({op!r})` on (`_build_stack` top first, `_steps`). -/\n"
                   f"def pushOper_{OPS[op]} {sig} : List Formula.Op × List Formula.Step :=\n" + render(t, "  ") + "\n")
    out.append("/-- `FormulaBuilder.push_oper(oper)`. -/\n"
               f"def pushOper (oper : Formula.Op) {sig} : List Formula.Op × List Formula.Step :=\n  match oper with\n"
               + "\n".join(f"  | .{OPS[o]} => pushOper_{OPS[o]} stack steps" for o in OP_ORDER) + "\n")
    # (b) finalize
    tr = Tr(mods, reprs)
    obj, env = builder_obj(tr, Env())

    def fin(v, e):
        if not (isinstance(v, Tup) and len(v.items) == 2):
            raise Unsupported("finalize does not return (steps, fetchers)")
        return Leaf(f"({tr.want(e.heap[obj.oid]['_build_stack'], STACK_OP, e)}, {tr.want(v.items[0], SEQ_STEP, e)})")
    t = call_method(tr, obj, "finalize", [], {}, env, fin)
    out.append("/-- `FormulaBuilder.finalize()`: (the build stack afterwards, the returned steps). -/\n"
               f"def finalize {sig} : List Formula.Op × List Formula.Step :=\n" + render(t, "  ") + "\n")
    # build() must finalize
    b = tr.method("FormulaBuilder", "build")
    if b is None or not any(isinstance(x, ast.Call) and ast.unparse(x.func) == "self.finalize" for x in ast.walk(b[1])):
        raise Unsupported("FormulaBuilder.build does not call self.finalize()")
    # (c) push_metric / push_constant / push_clipper
    tr = Tr(mods, reprs)
    obj, env = builder_obj(tr, Env())

    def met(_v, e):
        s = e.heap[obj.oid]
        return Leaf(f"({tr.want(s['_metric_fetchers'], 'Fetchers', e)}, {tr.want(s['_steps'], SEQ_STEP, e)})")
    t = call_method(tr, obj, "push_metric", [Term("name", "Nat"), Opaque("stream")],
                    {"nones_are_zeros": Term("nones_are_zeros", "Bool")}, env, met)
    out.append("/-- `FormulaBuilder.push_metric(name, stream, nones_are_zeros=…)` on (`_metric_fetchers`, `_steps`); a fetcher is\n"
               "identified by (name, flag), the dict by its association list (`Formula.lookupFetcher`). -/\n"
               "def pushMetric (fetchers : List (Nat × Bool)) (steps : List Formula.Step) (name : Nat) (nones_are_zeros : Bool) :\n"
               "    List (Nat × Bool) × List Formula.Step :=\n" + render(t, "  ") + "\n")
    for meth, params, lean, doc in [
            ("push_constant", [Term("value", "Rat")], "pushConstant (steps : List Formula.Step) (value : Rat)", "push_constant(value)"),
            ("push_clipper", [Term("min_value", ("opt", "Rat")), Term("max_value", ("opt", "Rat"))],
             "pushClipper (steps : List Formula.Step) (min_value max_value : Option Rat)", "push_clipper(min_value, max_value)")]:
        tr = Tr(mods, reprs)
        obj, env = builder_obj(tr, Env())

        def one(_v, e, tr=tr, obj=obj):
            return Leaf(tr.want(e.heap[obj.oid]["_steps"], SEQ_STEP, e))
        t = call_method(tr, obj, meth, params, {}, env, one)
        out.append(f"/-- `FormulaBuilder.{doc}` on `_steps`. -/\ndef {lean} : List Formula.Step :=\n" + render(t, "  ") + "\n")
    return out


def gen_fetcher(mods, reprs) -> list:
    """(e) `MetricFetcher.apply`, once per kind of the latest sample's value."""
    alts = []
    for pat, val in [(".none", Const(None)), (".nan", Qty("nan")), (".inf negative", Qty("inf")), (".val q", Qty("val", "q"))]:
        tr = Tr(mods, reprs)
        sample, env = tr.new_obj(Env(), "Sample", {"value": val, "timestamp": Opaque("timestamp")})
        obj, env = tr.new_obj(env, "MetricFetcher", {
            "_next_value": sample, "_nones_are_zeros": Term("nones_are_zeros", "Bool"), "_name": Opaque("name"),
            "_stream": Opaque("stream"), "_fallback": Opaque("fallback"), "_latest_fallback_sample": Opaque("x"),
            "_is_stopped": Opaque("x")})
        env = env.bind("__stack", Term("stack", ("list", "V", "stack")))
        m = tr.method("MetricFetcher", "apply")
        if m is None:
            raise Unsupported("MetricFetcher.apply not found")
        params = [a.arg for a in m[1].args.args]
        if len(params) != 2:
            raise Unsupported("MetricFetcher.apply: signature")
        # the evaluation stack is passed by reference: bind the parameter name in the callee to a caller-visible local
        holder = {}

        def done(_v, e, tr=tr, holder=holder):
            return Leaf("<unused>")
        # run the body directly (so that the mutated parameter is visible at the end)
        sref, env = tr.new_cell(env, Term("stack", ("list", "V", "stack")))
        inner = env.copy()
        inner.locals = {params[0]: obj, params[1]: sref}

        class EndK(Kont):
            def end(self_, e, tr=tr, p=params[1]):
                return Leaf(tr.want(e.locals[p], ("list", "V", "stack"), e))

            def ret(self_, v, e, tr=tr, p=params[1]):
                return Leaf(tr.want(e.locals[p], ("list", "V", "stack"), e))
        alts.append((pat, tr.block(strip_doc(m[1].body), inner, mods[m[0].key], EndK(), m[1])))
    return ["/-- `MetricFetcher.apply(eval_stack)` for the four kinds of the latest sample's value (None, NaN quantity, ±inf\n"
            "quantity, finite quantity with base value `q`); the stack has its top at the head. -/\n"
            "def metricFetcherApply (nones_are_zeros : Bool) (inp : Formula.Inp) (stack : List Formula.V) : List Formula.V :=\n"
            + render(MatchCtor("inp", alts), "  ") + "\n"]


def gen_evaluator(mods, reprs) -> list:
    """(f) `FormulaEvaluator.apply` from the loop over the steps on."""
    tr = Tr(mods, reprs, mode="except", raises={"RuntimeError": "Formula.Err.stack", "IndexError": "Formula.Err.stack"})
    tr.exc_ty = "Formula.Err"
    m = tr.method("FormulaEvaluator", "apply")
    if m is None:
        raise Unsupported("FormulaEvaluator.apply not found")
    body = strip_doc(m[1].body)
    stacks = {ast.unparse(n.args[0]) for n in ast.walk(m[1]) if isinstance(n, ast.Call) and isinstance(n.func, ast.Attribute)
              and n.func.attr == "apply" and len(n.args) == 1}
    if len(stacks) != 1 or not next(iter(stacks)).isidentifier():
        raise Unsupported("FormulaEvaluator.apply: no unique local evaluation stack (`step.apply(<stack>)`)")
    stack = stacks.pop()
    loops = [i for i, st in enumerate(body) if isinstance(st, ast.For) and stack in {x.id for x in ast.walk(st) if isinstance(x, ast.Name)}]
    if len(loops) != 1:
        raise Unsupported("FormulaEvaluator.apply: expected one top-level loop over the steps")
    inits = [st for st in body[:loops[0]] if stack in {x.id for x in ast.walk(st) if isinstance(x, ast.Name)}]
    if len(inits) != 1 or not (isinstance(inits[0], (ast.Assign, ast.AnnAssign)) and isinstance(inits[0].value, ast.List)
                               and not inits[0].value.elts and inits[0] in body):
        raise Unsupported(f"FormulaEvaluator.apply: `{stack}` is not initialised once as [] before the loop")
    self_name = m[1].args.args[0].arg
    steps_ref, env0 = tr.new_cell(Env(), Term("steps", SEQ_STEP))
    obj, env = tr.new_obj(env0, "FormulaEvaluator", {"_steps": steps_ref, "_create_method": Prim("create"),
                                                       "_name": Opaque("name"), "_metric_fetchers": Opaque("fetchers"),
                                                       "_first_run": Opaque("first_run")})
    empty = Term("([] : List Formula.V)", ("list", "V", "stack"))
    eref, env = tr.new_cell(env, empty)
    env = env.bind(self_name, obj).bind(stack, eref)
    env.nil = env.nil | {empty.term}
    for st in body[:loops[0]]:  # locals computed before (the timestamp): opaque
        for x in ast.walk(st):
            if isinstance(x, ast.Name) and isinstance(x.ctx, ast.Store) and x.id != stack:
                env = env.bind(x.id, Opaque(x.id))

    class RetK(Kont):
        def ret(self_, v, e):
            if not (isinstance(v, Inst) and v.cls == "Sample" and len(v.args) + len(v.kwargs) == 2):
                raise Unsupported("FormulaEvaluator.apply does not return a Sample(timestamp, value)")
            val = v.args[1] if len(v.args) > 1 else dict(v.kwargs).get("value")
            if val is None:
                raise Unsupported("Sample(...) arguments")
            return Leaf(tr.ok(tr.want(val, ("opt", "Rat"), e)))
    t = tr.block(body[loops[0]:], env, mods[m[0].key], RetK(), m[1])
    return ["/-- `FormulaEvaluator.apply` once the inputs of the round are there: `for step in self._steps: step.apply(stack)`\n"
            "(`applyStep` = the dynamic dispatch to the step's `apply`; an exception aborts), then the size check, the pop and\n"
            "the final test; the result is the value of the returned `Sample` (`none` = `None`). -/\n"
            "def evaluatorApply (applyStep : Formula.Step → List Formula.V → Formula.M (List Formula.V)) (steps : List Formula.Step) :\n"
            "    Formula.M (Option Rat) :=\n" + render(t, "  ") + "\n"]


HO_KINDS = [
    (".engine n", lambda: Kind(frozenset({"FormulaEngine"}), (("n", Term("n", "Nat")),))),
    (".quantity c", lambda: Kind(frozenset({"Quantity"}), (("c", Term("c", "Rat")),))),
    (".scalar c", lambda: Kind(frozenset({"float"}), (("c", Term("c", "Rat")),))),
    (".builder osteps", lambda: Kind(frozenset({"_BaseHOFormulaBuilder", "HigherOrderFormulaBuilder"}),
                                     (("_steps", Term("osteps", SEQ_HTOK)),))),
    (".other", lambda: Kind(frozenset())),
]
HO_BIN = [("add", "__add__"), ("sub", "__sub__"), ("mul", "__mul__"), ("div", "__truediv__"), ("max", "max"), ("min", "min")]
HO_UN = [("cons", "consumption"), ("prod", "production")]


def gen_ho(mods, reprs) -> list:
    """(g) `_BaseHOFormulaBuilder`: `__init__`, the six operator methods (through `_push`), `consumption`, `production`."""
    out = []

    def run(meth: str, args: list, init: bool = False):
        tr = Tr(mods, reprs, mode="option")
        slots = {"_create_method": Opaque("create")}
        env = Env()
        if not init:
            slots["_steps"], env = tr.new_cell(env, Term("steps", SEQ_HTOK))
        obj, env = tr.new_obj(env, "HigherOrderFormulaBuilder", slots)
        fixed = []
        for a in args:  # the other builder's deque is a shared list as well
            if isinstance(a, Kind) and any(isinstance(pv, Term) and is_list(pv.ty) for _n, pv in a.payload):
                pl = []
                for n_, pv in a.payload:
                    if isinstance(pv, Term) and is_list(pv.ty):
                        pv, env = tr.new_cell(env, pv)
                    pl.append((n_, pv))
                a = Kind(a.classes, tuple(pl))
            fixed.append(a)
        args = fixed

        def done(v, e):
            o = obj if init else v
            if not isinstance(o, Obj) or "_steps" not in e.heap[o.oid]:
                raise Unsupported(f"{meth} does not return a builder")
            return Leaf(tr.ok(tr.want(e.heap[o.oid]["_steps"], SEQ_HTOK, e)))
        return call_method(tr, obj, meth, args, {}, env, done)

    t = run("__init__", [HO_KINDS[0][1](), Opaque("create")], init=True)
    out.append("/-- `_BaseHOFormulaBuilder.__init__(engine, …)`: the initial `_steps` (`n` = the engine's name). -/\n"
               "def hoInit (n : Nat) : Option (List HTok) :=\n" + render(t, "  ") + "\n")
    for lean, meth in HO_BIN:
        alts = [(pat, run(meth, [mk()])) for pat, mk in HO_KINDS]
        out.append(f"/-- `_BaseHOFormulaBuilder.{meth}(other)` (through `_push`): the new builder's `_steps`; `none` = `RuntimeError`. -/\n"
                   f"def hoPush_{lean} (steps : List HTok) (other : Operand) : Option (List HTok) :=\n"
                   + render(MatchCtor("other", alts), "  ") + "\n")
    out.append("def hoPush (o : Formula.BinOp) (steps : List HTok) (other : Operand) : Option (List HTok) :=\n  match o with\n"
               + "\n".join(f"  | .{lean} => hoPush_{lean} steps other" for lean, _m in HO_BIN) + "\n")
    alts = [(f".{lean}", run(meth, [])) for lean, meth in HO_UN]
    out.append("/-- `_BaseHOFormulaBuilder.consumption()` / `.production()`. -/\n"
               "def hoUnary (u : Formula.UnOp) (steps : List HTok) : Option (List HTok) :=\n" + render(MatchCtor("u", alts), "  ") + "\n")
    return out


STREAM = ("list", "Char", "stream")
SEQ_CHAR = ("list", "Char", "seq")


def gen_tokenizer(mods, reprs) -> list:
    """(d) `Tokenizer.__next__` and its loop-containing helper (`_read_unsigned_int`); the `StringIter` is a character
    stream (`for c in it` / `next(it)` consume the head, `it.peek()` looks at it)."""
    out = []
    raises = {"ValueError": "TokErr.valueError", "StopIteration": "TokErr.stopIteration"}
    cls = mods["tokenizer"].classes.get("Tokenizer")
    if cls is None:
        raise Unsupported("class Tokenizer not found")
    helpers = [n for n in cls.body if isinstance(n, ast.FunctionDef) and n.name not in ("__next__", "__init__", "__iter__")
               and any(isinstance(x, (ast.While, ast.For)) for x in ast.walk(n))]
    if len(helpers) > 1:
        raise Unsupported(f"Tokenizer: several helper methods with loops: {[h.name for h in helpers]}")

    def mk(ret_ty):
        tr = Tr(mods, reprs, mode="except", raises=raises)
        tr.exc_ty = "TokErr"
        tr.ret_ty = ret_ty
        fref, env = tr.new_cell(Env(), Term("rest", STREAM))
        obj, env = tr.new_obj(env, "Tokenizer", {"_formula": fref})
        return tr, obj, env

    boundary = None
    if helpers:
        h = helpers[0]
        if len(h.args.args) != 1:
            raise Unsupported(f"Tokenizer.{h.name}: parameters")
        tr, obj, env = mk(SEQ_CHAR)

        def done(v, e, tr=tr, obj=obj):
            return Leaf(tr.ok(f"({tr.want(v, SEQ_CHAR, e)}, {tr.want(e.heap[obj.oid]['_formula'], STREAM, e)})"))
        t = call_method(tr, obj, h.name, [], {}, env, done)
        out.append(f"/-- `Tokenizer.{h.name}()` on the remaining characters: (the string read, the characters left). -/\n"
                   "def readUnsignedInt (rest : List Char) : Except TokErr (List Char × List Char) :=\n" + render(t, "  ") + "\n")

        def boundary(fv, args, kwargs, env, k, name=h.name):
            if args or kwargs or not isinstance(fv.self_val, Obj):
                raise Unsupported(f"call of {name}")
            o = fv.self_val
            ref = env.heap[o.oid]["_formula"]
            cur = env.cells[ref.cid]
            r = tr2.fresh("r")
            e2 = env.set_cell(ref.cid, Term(f"{r}.2", STREAM))
            return Bind(f"readUnsignedInt {atom(cur.term)}", r, k(Term(f"{r}.1", SEQ_CHAR), e2), "except")

    tr2, obj2, env2 = mk("RawTok")
    if boundary is not None:
        tr2.boundaries[("Tokenizer", helpers[0].name)] = boundary

    def done2(v, e):
        return Leaf(tr2.ok(f"({tr2.want(v, 'RawTok', e)}, {tr2.want(e.heap[obj2.oid]['_formula'], STREAM, e)})"))
    m = tr2.method("Tokenizer", "__next__")
    if m is None:
        raise Unsupported("Tokenizer.__next__ not found")

    class NextK(Kont):
        def ret(self_, v, e):
            return done2(v, e)
    inner = env2.copy()
    inner.locals = {m[1].args.args[0].arg: obj2}
    t = tr2.block(strip_doc(m[1].body), inner, mods["tokenizer"], NextK(), m[1])
    out.append("/-- `Tokenizer.__next__()` on the remaining characters: (the token, the characters left), or the exception. -/\n"
               "def nextToken (rest : List Char) : Except TokErr (Formula.RawTok × List Char) :=\n" + render(t, "  ") + "\n")
    return out


def generate(repo: pathlib.Path) -> str:
    mods, reprs = load(repo)
    out = [PRELUDE]
    out += gen_builder(mods, reprs)
    out += gen_fetcher(mods, reprs)
    out += gen_evaluator(mods, reprs)
    out += gen_ho(mods, reprs)
    out += gen_tokenizer(mods, reprs)
    out.append("end Extracted.FormulaLoops")
    return "\n".join(out) + "\n"
