"""`MetricFetcher.fetch_next` and everything it calls -> Lean (`Extracted/FallbackPull.lean`), statement by statement.

What is translated, from the *current* source text (pure `ast`, the repo is never imported): the method `fetch_next`
of `MetricFetcher` and, on demand, every `self.<method>(…)` it reaches (`_fetch_next`, `fetch_next_with_fallback`,
`_synchronize_and_fetch_fallback`, `_is_value_valid` on the pinned tree).  Each becomes a total Lean function

    <method> (<value parameters>) (s : PSt) : Out <ret>          -- see lean/Frequenz/Model/Pull.lean

Translation scheme (continuation passing, like `py2lean.Translator.block`, extended to expressions so that `await`s,
short-circuit `and`/`or` and raising attribute accesses keep Python's evaluation order):

  * the statements after an `if`/`try` are copied into every path that falls through;
  * `await <receiver>.receive()`  = `match Pull.recvP/recvF s with | .block => .block | .closed => <raise ReceiverError>
    | .got v s' => …`; `<fallback>.start()` = `Pull.start`; `<fallback>.is_running` = `s.running`;
  * `try … except ReceiverError [as e]: H  else: E`: a raise inside the body continues with `H` when it is a
    `ReceiverError`, everything else propagates; `E` and `H` run outside the handler; no `finally`;
  * `while t: B` followed by the rest `R` of the method becomes an auxiliary function `<method>_loop<n>` by recursion on
    fuel: `| 0 => .block | fuel+1 => if t then B; loop fuel else R`; the call passes
    `fuel = (sum of the lengths of the queues B receives from) + 1`, whose sufficiency is part of the tie proof;
  * Python is dynamically typed: sample-valued parameters/fields/results are `Option PSample`, `<e>.timestamp` /
    `<e>.value` on a possibly-`None` term is a `match` whose `none` arm raises `Exc.fault`; `x is None` on such a term
    is a `match` that narrows it; a method falling off its end returns `None`;
  * `_logger.<level>(…)` statements and docstrings are no-ops (their arguments are not evaluated).

Roles are resolved by dataflow, never by local or field names: the primary receiver is the field `__init__` assigns
from its `stream` argument, the fallback the field assigned from its `fallback` argument (constructor API names); a
receiver passed as an argument to another method is a *static* argument (the callee is specialised to it); the two
`None`-initialised fields touched by the translated methods are `next` (the one other methods such as `value`/`apply`
read back) and `latest` (private to the translated methods).

Anything outside this subset raises `py2lean.Unsupported` (the check then treats the proof as broken).
"""

import ast
import pathlib
import re
from dataclasses import dataclass, field, replace
from typing import Callable

import py2lean
from py2lean import Unsupported

NAME = "FallbackPull"
SOURCES = ["src/frequenz/sdk/timeseries/formula_engine/_formula_steps.py"]
CLASS = "MetricFetcher"
ENTRY = "fetch_next"
# methods the tie proof talks about: they must exist (and be reached) under these names
REQUIRED = ["fetch_next", "_fetch_next", "fetch_next_with_fallback", "_synchronize_and_fetch_fallback",
            "_is_value_valid"]
CTOR_PRIMARY, CTOR_FALLBACK = "stream", "fallback"

LEAN_TY = {"OptSample": "(Option PSample)", "Sample": "PSample", "OptQ": "(Option Q)", "Q": "Q", "Bool": "Bool",
           "Int": "Int"}
WIDEN = {"Sample": "OptSample", "Q": "OptQ"}
RESERVED = {"fun", "match", "with", "let", "if", "then", "else", "do", "at", "from", "have", "show", "end", "def",
            "open", "in", "fuel", "some", "none", "true", "false", "Type", "by", "where", "instance", "structure"}


# ------------------------------------------------------------------------------------------------ values
@dataclass(frozen=True)
class Val:
    term: str
    ty: str  # OptSample | Sample | OptQ | Q | Bool | Int | None | Exc | Lazy
    origin: tuple | None = None  # (local, attribute): this local is `<local>.<attribute>`, both assigned once


@dataclass(frozen=True)
class Role:
    role: str  # "P" | "F"


NONE = Val("none", "None")
TRUE = Val("true", "Bool")
FALSE = Val("false", "Bool")


def atom(s: str) -> str:
    return s if (re.fullmatch(r"[\w.']+", s) or (s.startswith("(") and s.endswith(")"))) else f"({s})"


# ------------------------------------------------------------------------------------------------ code trees
@dataclass
class Leaf:
    s: str


@dataclass
class Let:
    name: str
    val: str
    body: object


@dataclass
class If:
    p: str
    a: object
    b: object


@dataclass
class Match:
    scrut: str
    arms: list  # [(pattern, code)]


def render(t, ind: str) -> str:
    if isinstance(t, Leaf):
        return ind + t.s
    if isinstance(t, Let):
        return f"{ind}let {t.name} := {t.val}\n" + render(t.body, ind)
    if isinstance(t, If):
        return f"{ind}if {t.p} then\n{render(t.a, ind + '  ')}\n{ind}else\n{render(t.b, ind + '  ')}"
    if isinstance(t, Match):
        arms = "".join(f"\n{ind}| {p} =>\n{render(c, ind + '  ')}" for p, c in t.arms)
        return f"{ind}(match {t.scrut} with{arms})"
    raise AssertionError(t)


# ------------------------------------------------------------------------------------------------ environment
@dataclass(frozen=True)
class Env:
    vars: tuple  # ((python name, Val | Role), …) in binding order
    st: str  # Lean name of the current state
    narrowed: tuple = ()  # ((term, Val), …): Option-typed terms known to be `some <Val.term>`
    known: tuple = ()  # (((state, slot), Val), …): the field `slot` of the (immutable) state `state` was just written

    def get(self, name: str):
        for k, v in self.vars:
            if k == name:
                return v
        raise Unsupported(f"local {name!r} may be unbound here")

    def set(self, name: str, v) -> "Env":
        return replace(self, vars=tuple((k, x) for k, x in self.vars if k != name) + ((name, v),))

    def state(self, st: str) -> "Env":
        return replace(self, st=st)

    def narrow(self, term: str, v: Val) -> "Env":
        return replace(self, narrowed=self.narrowed + ((term, v),))

    def narrowing(self, term: str):
        for k, v in self.narrowed:
            if k == term:
                return v
        return None


@dataclass(frozen=True)
class Ctx:
    ret: Callable  # (Val, Env) -> code
    exc: Callable  # (kind: Lean term ".recv" | ".fault" | <variable>, Env) -> code
    brk: Callable | None = None  # (Env) -> code
    cont: Callable | None = None
    counts: dict | None = None  # how often each local of the function this code belongs to is assigned
    chain: tuple = ()  # helpers being inlined around this code (lexically)


@dataclass
class Method:
    fn: ast.FunctionDef | ast.AsyncFunctionDef
    lean: str
    roles: tuple  # ((param, "P"|"F"), …)
    params: list  # [(python name, lean name, ty)]
    retty: str


def lean_ident(py: str) -> str:
    if py in RESERVED or re.fullmatch(r"[svxe]\d+", py):
        return py + "_"
    if not re.fullmatch(r"[A-Za-z_][A-Za-z0-9_]*", py):
        raise Unsupported(f"identifier {py!r}")
    return py


def method_lean_name(py: str) -> str:
    return ("priv_" + py.lstrip("_")) if py.startswith("_") else py


def ann_type(node: ast.expr | None, what: str) -> str:
    if node is None:
        raise Unsupported(f"{what}: missing annotation")
    src = ast.unparse(node)
    if re.fullmatch(r"Sample\[\w+\]( \| None)?", src):
        return "OptSample"
    if re.fullmatch(r"QuantityT( \| None)?", src):
        return "OptQ"
    if src == "bool":
        return "Bool"
    raise Unsupported(f"{what}: type {src!r}")


def store_counts(fn) -> dict:
    """How often each local name is assigned in the function (parameters: 0)."""
    c: dict = {}
    for n in ast.walk(fn):
        if isinstance(n, ast.Name) and isinstance(n.ctx, (ast.Store, ast.Del)):
            c[n.id] = c.get(n.id, 0) + 1
        elif isinstance(n, ast.ExceptHandler) and n.name:
            c[n.name] = c.get(n.name, 0) + 1
    return c


def has_loop(fn) -> bool:
    return any(isinstance(n, (ast.While, ast.For, ast.AsyncFor)) for n in ast.walk(fn))


# ------------------------------------------------------------------------------------------------ the class
class ClassInfo:
    def __init__(self, tree: ast.Module):
        self.cls = next((n for n in tree.body if isinstance(n, ast.ClassDef) and n.name == CLASS), None)
        if self.cls is None:
            raise Unsupported(f"class {CLASS} not found")
        self.methods = {n.name: n for n in self.cls.body if isinstance(n, (ast.FunctionDef, ast.AsyncFunctionDef))}
        dup = [n.name for n in self.cls.body if isinstance(n, (ast.FunctionDef, ast.AsyncFunctionDef))]
        if len(dup) != len(set(dup)):
            raise Unsupported("a method is defined twice")
        for m in REQUIRED:
            if m not in self.methods:
                raise Unsupported(f"{CLASS}.{m} not found")
        # module facts
        self.loggers = {
            t.id for n in tree.body if isinstance(n, ast.Assign) and isinstance(n.value, ast.Call)
            and ast.unparse(n.value.func) == "logging.getLogger" for t in n.targets if isinstance(t, ast.Name)}
        imported = any(isinstance(n, ast.ImportFrom) and n.module == "frequenz.channels"
                       and any(a.name == "ReceiverError" and a.asname is None for a in n.names) for n in tree.body)
        if not imported:
            raise Unsupported("ReceiverError is not imported from frequenz.channels")
        # constructor: which fields hold the receivers, which are None-initialised
        init = self.methods.get("__init__")
        if init is None:
            raise Unsupported("no __init__")
        self.self_name = "self"
        self.role_fields: dict[str, str] = {}
        none_fields: list[str] = []
        for st in init.body:
            if isinstance(st, ast.Assign) and len(st.targets) == 1:
                tgt, val = st.targets[0], st.value
            elif isinstance(st, ast.AnnAssign) and st.value is not None:
                tgt, val = st.target, st.value
            else:
                continue
            if not (isinstance(tgt, ast.Attribute) and isinstance(tgt.value, ast.Name) and tgt.value.id == "self"):
                continue
            if isinstance(val, ast.Name) and val.id == CTOR_PRIMARY:
                self.role_fields[tgt.attr] = "P"
            elif isinstance(val, ast.Name) and val.id == CTOR_FALLBACK:
                self.role_fields[tgt.attr] = "F"
            elif isinstance(val, ast.Constant) and val.value is None:
                none_fields.append(tgt.attr)
        if sorted(self.role_fields.values()) != ["F", "P"]:
            raise Unsupported(f"__init__ must store `{CTOR_PRIMARY}` and `{CTOR_FALLBACK}` in one field each")
        # every other write of a role field would change the roles
        for name, fn in self.methods.items():
            if name == "__init__":
                continue
            for n in ast.walk(fn):
                if isinstance(n, ast.Attribute) and isinstance(n.ctx, (ast.Store, ast.Del)) and n.attr in self.role_fields:
                    raise Unsupported(f"{name} rebinds the receiver field {n.attr}")
        # reachable methods
        reach: list[str] = []
        todo = [ENTRY]
        while todo:
            m = todo.pop()
            if m in reach:
                continue
            reach.append(m)
            for n in ast.walk(self.methods[m]):
                if (isinstance(n, ast.Call) and isinstance(n.func, ast.Attribute) and isinstance(n.func.value, ast.Name)
                        and n.func.value.id == "self" and n.func.attr in self.methods):
                    todo.append(n.func.attr)
        self.reachable = reach
        for m in REQUIRED:
            if m not in reach:
                raise Unsupported(f"{CLASS}.{m} is no longer reached from {ENTRY}")

        def touched(fn) -> set[str]:
            return {n.attr for n in ast.walk(fn) if isinstance(n, ast.Attribute) and isinstance(n.value, ast.Name)
                    and n.value.id == "self"}

        used = set().union(*(touched(self.methods[m]) for m in reach)) & set(none_fields)
        external = {f for f in used
                    if any(f in touched(fn) for name, fn in self.methods.items() if name not in reach and name != "__init__")}
        internal = used - external
        if len(external) != 1 or len(internal) != 1:
            raise Unsupported(f"expected one read-back field and one private field, found {sorted(external)} / {sorted(internal)}")
        self.slots = {next(iter(external)): "next", next(iter(internal)): "latest"}


# ------------------------------------------------------------------------------------------------ translator
def _params(self, name: str) -> list:
    """The parameters of a method without `self` (instance methods and static methods only)."""
    fn = self.methods[name]
    a = fn.args
    decos = [ast.unparse(d) for d in fn.decorator_list]
    if a.vararg or a.kwarg or a.kwonlyargs or a.posonlyargs or a.defaults or decos not in ([], ["staticmethod"]):
        raise Unsupported(f"{name}: unsupported signature")
    if decos:
        return list(a.args)
    if not a.args or a.args[0].arg != "self":
        raise Unsupported(f"{name}: not an instance method")
    return list(a.args[1:])


ClassInfo.params = _params


class PullTranslator(py2lean.Translator):
    """CPS translator of the coroutine subset described in the module docstring."""

    def __init__(self, info: ClassInfo):
        super().__init__({})
        self.info = info
        self.defs: list[str] = []  # finished Lean definitions, callees first
        self.done: dict[tuple, Method] = {}
        self.in_progress: list[str] = []
        self.specialised: dict[str, tuple] = {}
        self.counter = 0
        self.loops = 0
        self.cur: Method | None = None
        self.in_loop = False
        self.loop_defs: dict[str, str] = {}

    # ------------------------------------------------------------ names
    def fresh(self, p: str) -> str:
        self.counter += 1
        return f"{p}{self.counter}"

    # ------------------------------------------------------------ coercions
    def coerce(self, v, ty: str, env: Env) -> str:
        if isinstance(v, Role):
            raise Unsupported("a receiver used as a value")
        if v.ty == ty:
            return v.term
        if v.ty == "None" and ty in ("OptSample", "OptQ"):
            return "none"
        if WIDEN.get(v.ty) == ty:
            return f"(some {v.term})"
        raise Unsupported(f"cannot use a {v.ty} as {ty}")

    def narrowed(self, v: Val, env: Env) -> Val:
        if v.ty in ("OptSample", "OptQ"):
            n = env.narrowing(v.term)
            if n is not None:
                return n
        return v

    # ------------------------------------------------------------ methods
    def method(self, name: str, role_args: tuple) -> Method:
        key = (name, role_args)
        if key in self.done:
            return self.done[key]
        if name in self.specialised and self.specialised[name] != role_args:
            raise Unsupported(f"{name} is called with different receivers")
        if name in self.in_progress:
            raise Unsupported(f"recursive method {name}")
        self.specialised[name] = role_args
        fn = self.info.methods[name]
        a = fn.args
        roles = dict(role_args)
        params = []
        for p in self.info.params(name):
            if p.arg in roles:
                continue
            # canonical Lean names: the text does not depend on how the Python parameters are called
            params.append((p.arg, f"p{len(params) + 1}", ann_type(p.annotation, f"{name}({p.arg})")))
        m = Method(fn, method_lean_name(name), role_args, params, ann_type(fn.returns, f"{name} result"))
        saved = (self.cur, self.counter, self.loops)
        self.in_progress.append(name)
        self.cur, self.counter, self.loops = m, 0, 0
        env = Env(vars=tuple([(p, Role(r)) for p, r in role_args] + [(py, Val(ln, ty)) for py, ln, ty in params]),
                  st="s0")
        ctx = Ctx(ret=lambda v, e: Leaf(f".ok {atom(self.coerce(v, m.retty, e))} {e.st}"),
                  exc=lambda k, e: Leaf(f".exc {k} {e.st}"), counts=store_counts(fn))
        body = self.stmts(fn.body, env, ctx, lambda e: ctx.ret(NONE, e))
        sig = " ".join(f"({ln} : {LEAN_TY[ty].strip('()')})" for _, ln, ty in params)
        doc = f"/-- `{CLASS}.{name}`" + (f" with {', '.join(f'parameter {[a.arg for a in self.info.params(name)].index(p) + 1} = the {self.role_name(r)} receiver' for p, r in role_args)}" if role_args else "") + ". -/"
        self.defs.append(f"{doc}\ndef {m.lean} {sig + ' ' if sig else ''}(s0 : PSt) : Out {LEAN_TY[m.retty]} :=\n{render(body, '  ')}\n")
        self.in_progress.pop()
        self.cur, self.counter, self.loops = saved
        self.done[key] = m
        return m

    def inline(self, name: str, bound: list, env: Env, ctx: Ctx, k: Callable):
        """A call of a loop-free helper method: its body in place of the call (arguments bound to the parameters,
        `return v` continues the caller with `v`, falling off the end with None, raises propagate to the caller)."""
        if name in ctx.chain or name in self.in_progress:
            raise Unsupported(f"recursive method {name}")
        fn = self.info.methods[name]
        back = lambda e: replace(env, st=e.st, narrowed=e.narrowed)  # noqa: E731  (the caller's locals, the new state)
        callee_ctx = Ctx(ret=lambda v, e: k(v, back(e)), exc=lambda kind, e: ctx.exc(kind, back(e)),
                         counts=store_counts(fn), chain=ctx.chain + (name,))
        callee_env = Env(vars=tuple(bound), st=env.st, narrowed=env.narrowed)
        return self.stmts(fn.body, callee_env, callee_ctx, lambda e: k(NONE, back(e)))

    @staticmethod
    def role_name(r: str) -> str:
        return "primary" if r == "P" else "fallback"

    # ------------------------------------------------------------ statements
    def stmts(self, stmts: list, env: Env, ctx: Ctx, k: Callable):
        if not stmts:
            return k(env)
        s, rest = stmts[0], stmts[1:]
        nxt = lambda e: self.stmts(rest, e, ctx, k)  # noqa: E731
        if isinstance(s, ast.Pass):
            return nxt(env)
        if isinstance(s, ast.Expr):
            v = s.value
            if isinstance(v, ast.Constant) and isinstance(v.value, str):
                return nxt(env)
            if (isinstance(v, ast.Call) and isinstance(v.func, ast.Attribute) and isinstance(v.func.value, ast.Name)
                    and v.func.value.id in self.info.loggers
                    and v.func.attr in ("debug", "info", "warning", "error", "exception", "critical")):
                return nxt(env)
            return self.ev(v, env, ctx, lambda _v, e: nxt(e))
        if isinstance(s, ast.Return):
            if s.value is None:
                return ctx.ret(NONE, env)
            return self.ev(s.value, env, ctx, lambda v, e: ctx.ret(v, e))
        if isinstance(s, ast.Assign) and len(s.targets) == 1:
            return self.assign(s.targets[0], s.value, env, ctx, nxt)
        if isinstance(s, ast.AnnAssign):
            if s.value is None:  # a bare declaration `x: T`
                if not isinstance(s.target, ast.Name):
                    raise Unsupported("declaration of a non-local")
                return nxt(env)
            return self.assign(s.target, s.value, env, ctx, nxt)
        if isinstance(s, ast.If):
            return self.cond(s.test, env, ctx,
                             lambda e: self.stmts(s.body, e, ctx, nxt),
                             lambda e: self.stmts(s.orelse, e, ctx, nxt))
        if isinstance(s, ast.Try):
            return self.try_(s, env, ctx, nxt)
        if isinstance(s, ast.While):
            return self.while_(s, env, ctx, nxt)
        if isinstance(s, ast.Break):
            if ctx.brk is None:
                raise Unsupported("break outside a loop")
            return ctx.brk(env)
        if isinstance(s, ast.Continue):
            if ctx.cont is None:
                raise Unsupported("continue outside a loop")
            return ctx.cont(env)
        raise Unsupported(f"statement {type(s).__name__} (line {getattr(s, 'lineno', '?')})")

    def assign(self, tgt, value, env: Env, ctx: Ctx, nxt: Callable):
        if isinstance(tgt, ast.Name):
            if tgt.id == "self":
                raise Unsupported("assignment to self")

            def bind(v, e: Env):
                if isinstance(v, Val) and v.ty == "Exc":
                    raise Unsupported("exception object used as a value")
                if (isinstance(v, Val) and isinstance(value, ast.Attribute) and isinstance(value.value, ast.Name)
                        and value.value.id != "self" and (ctx.counts or {}).get(tgt.id, 0) == 1
                        and (ctx.counts or {}).get(value.value.id, 0) <= 1 and value.value.id != tgt.id):
                    v = replace(v, origin=(value.value.id, value.attr))
                return nxt(e.set(tgt.id, v))
            return self.ev(value, env, ctx, bind)
        if (isinstance(tgt, ast.Attribute) and isinstance(tgt.value, ast.Name) and tgt.value.id == "self"
                and tgt.attr in self.info.slots):
            slot = self.info.slots[tgt.attr]

            def store(v, e: Env):
                s2 = self.fresh("s")
                written = v if isinstance(v, Val) and v.ty in ("Sample", "OptSample", "None") else None
                e2 = e.state(s2)
                if written is not None:
                    e2 = replace(e2, known=e2.known + (((s2, slot), replace(written, origin=None)),))
                return Let(s2, f"{{ {e.st} with {slot} := {self.coerce(v, 'OptSample', e)} }}", nxt(e2))
            return self.ev(value, env, ctx, store)
        raise Unsupported(f"assignment target {ast.unparse(tgt)}")

    def try_(self, s: ast.Try, env: Env, ctx: Ctx, nxt: Callable):
        if s.finalbody:
            raise Unsupported("try/finally")
        if len(s.handlers) != 1:
            raise Unsupported("try with several handlers")
        h = s.handlers[0]
        t = h.type
        if not ((isinstance(t, ast.Name) and t.id == "ReceiverError")):
            # a subscripted generic (`ReceiverError[Any]`) raises TypeError instead of catching; other classes are not modelled
            raise Unsupported(f"handler `except {ast.unparse(t) if t is not None else ''}`")

        def handler(e: Env):
            e2 = e.set(h.name, Val("<exception>", "Exc")) if h.name else e
            return self.stmts(h.body, e2, ctx, nxt)

        def on_exc(kind: str, e: Env):
            if kind == ".recv":
                return handler(e)
            if kind == ".fault":
                return ctx.exc(kind, e)
            return If(f"{kind} = .recv", handler(e), ctx.exc(kind, e))

        inner = replace(ctx, exc=on_exc)
        return self.stmts(s.body, env, inner, lambda e: self.stmts(s.orelse, e, ctx, nxt))

    def while_(self, s: ast.While, env: Env, ctx: Ctx, nxt: Callable):
        if s.orelse:
            raise Unsupported("while/else")
        assert self.cur is not None
        if self.in_loop:
            raise Unsupported("nested loops")
        self.loops += 1
        name = f"{self.cur.lean}_loop{self.loops}"
        # which queues does the body pop?  (decides the fuel; its sufficiency is proved in Lean)
        popped: list[str] = []
        for n in ast.walk(s):
            if (isinstance(n, ast.Await) and isinstance(n.value, ast.Call) and isinstance(n.value.func, ast.Attribute)
                    and n.value.func.attr == "receive"):
                r = self.static_role(n.value.func.value, env)
                if r is None:
                    raise Unsupported("receive() on something that is not one of the two receivers")
                if r not in popped:
                    popped.append(r)
        if not popped:
            raise Unsupported("a loop that receives nothing (no fuel bound)")
        fuel = " + ".join(f"{env.st}.{'pq' if r == 'P' else 'fq'}.length" for r in popped) + " + 1"
        # Locals visible in the loop.  `x = y.<attr>` (both assigned once, neither in the loop) is re-read from `y` where
        # the loop uses it; of the others only those the loop (or the rest of the method after it) reads are parameters,
        # under canonical names, widened to their Optional type.
        assigned = {n.id for st in s.body for n in ast.walk(st) if isinstance(n, ast.Name) and isinstance(n.ctx, ast.Store)}
        runtime = [(py, v) for py, v in env.vars if isinstance(v, Val) and v.ty not in ("Exc", "Lazy")]
        names_rt = {py for py, _ in runtime}
        lazies = [(py, v.origin) for py, v in runtime
                  if v.origin and v.origin[0] in names_rt and py not in assigned and v.origin[0] not in assigned]
        lazy_names = {py for py, _ in lazies}
        carried_lazy = [(py, v) for py, v in env.vars if isinstance(v, Val) and v.ty == "Lazy"]
        candidates = [(py, v) for py, v in runtime if py not in lazy_names and WIDEN.get(v.ty, v.ty) != "None"]
        assert self.cur is not None
        saved_counter = self.counter
        snapshot = (len(self.defs), self.loops, dict(self.loop_defs))

        def build(cands: list, rec_marker: bool):
            self.counter = 0
            params = [(py, f"q{i + 1}", WIDEN.get(v.ty, v.ty)) for i, (py, v) in enumerate(cands)]
            inner_env = Env(vars=tuple([(py, v) for py, v in env.vars if isinstance(v, Role)]
                                       + [(py, Val(ln, ty)) for py, ln, ty in params]
                                       + [(py, Val("", "Lazy", origin=o)) for py, o in lazies]
                                       + carried_lazy), st="s0")

            def again(e: Env):
                if rec_marker:
                    return Leaf(f"<rec> fuel {e.st}")
                args = " ".join(atom(self.coerce(self.narrowed(e.get(py), e), ty, e)) for py, _, ty in params)
                return Leaf(f"{name} {args + ' ' if args else ''}fuel {e.st}")

            loop_ctx = replace(ctx, brk=nxt, cont=again)
            self.in_loop = True
            body = self.cond(s.test, inner_env, ctx,
                             lambda e: self.stmts(s.body, e, loop_ctx, again),
                             lambda e: nxt(e))
            self.in_loop = False
            return params, render(body, '    ')

        params1, text1 = build(candidates, True)
        used = [(py, v) for (py, v), (_, ln, _) in zip(candidates, params1) if re.search(rf"\b{ln}\b", text1)]
        del self.defs[snapshot[0]:]
        self.loops, self.loop_defs = snapshot[1], snapshot[2]
        params, body_text = build(used, False)
        call_args = " ".join(atom(self.coerce(self.narrowed(v, env), ty, env)) for (py, v), (_, _, ty) in zip(used, params))
        sig = " ".join(f"({ln} : {LEAN_TY[ty].strip('()')})" for _, ln, ty in params)
        text = (
            f"/-- a `while` loop of `{self.cur.fn.name}` followed by the rest of that method;"
            f" `.block` when the fuel runs out. -/\n"
            f"def {name} {sig + ' ' if sig else ''}: Nat → PSt → Out {LEAN_TY[self.cur.retty]}\n"
            f"  | 0, _ => .block\n  | fuel + 1, s0 =>\n{body_text}\n")
        self.counter = saved_counter
        # the statements after an `if` are copied into both branches: the same loop (with the same continuation) is
        # then generated twice; keep one definition
        key = text.replace(name, "<loop>")
        if key in self.loop_defs:
            self.loops -= 1
            name = self.loop_defs[key]
        else:
            self.loop_defs[key] = name
            self.defs.append(text)
        return Leaf(f"{name} {call_args + ' ' if call_args else ''}({fuel}) {env.st}")

    def static_role(self, n: ast.expr, env: Env):
        if isinstance(n, ast.Name):
            try:
                v = env.get(n.id)
            except Unsupported:
                return None
            return v.role if isinstance(v, Role) else None
        if (isinstance(n, ast.Attribute) and isinstance(n.value, ast.Name) and n.value.id == "self"
                and n.attr in self.info.role_fields):
            return self.info.role_fields[n.attr]
        return None

    # ------------------------------------------------------------ expressions
    def ev(self, n: ast.expr, env: Env, ctx: Ctx, k: Callable):
        """Evaluate `n`, then continue with `k(value, env)`."""
        if isinstance(n, ast.Constant):
            if n.value is None:
                return k(NONE, env)
            if n.value is True:
                return k(TRUE, env)
            if n.value is False:
                return k(FALSE, env)
            raise Unsupported(f"constant {n.value!r}")
        if isinstance(n, ast.Name):
            if n.id == "self":
                raise Unsupported("bare self")
            v = env.get(n.id)
            if isinstance(v, Val) and v.ty == "Lazy":  # `<local>.<attribute>`, re-read from the local inside a loop
                base, attr = v.origin
                return self.getattr_(env.get(base), attr, env, ctx, k)
            return k(v, env)
        if isinstance(n, ast.Attribute):
            if isinstance(n.value, ast.Name) and n.value.id == "self":
                if n.attr in self.info.role_fields:
                    return k(Role(self.info.role_fields[n.attr]), env)
                if n.attr in self.info.slots:
                    for key, kv in env.known:  # reading back what was just stored
                        if key == (env.st, self.info.slots[n.attr]):
                            return k(kv, env)
                    return k(Val(f"{env.st}.{self.info.slots[n.attr]}", "OptSample"), env)
                raise Unsupported(f"field self.{n.attr}")
            return self.ev(n.value, env, ctx, lambda v, e: self.getattr_(v, n.attr, e, ctx, k))
        if isinstance(n, ast.Await):
            if not isinstance(n.value, ast.Call):
                raise Unsupported("await of a non-call")
            return self.call(n.value, True, env, ctx, k)
        if isinstance(n, ast.Call):
            return self.call(n, False, env, ctx, k)
        if isinstance(n, (ast.Compare, ast.BoolOp)) or (isinstance(n, ast.UnaryOp) and isinstance(n.op, ast.Not)):
            if isinstance(n, ast.BoolOp):
                # `a or b` yields an operand, not a bool: only accept it where every operand is boolean-shaped
                for v in n.values:
                    if not (isinstance(v, (ast.Compare, ast.BoolOp, ast.Call))
                            or (isinstance(v, ast.UnaryOp) and isinstance(v.op, ast.Not))):
                        raise Unsupported("and/or of non-boolean operands")
            return self.cond(n, env, ctx, lambda e: k(TRUE, e), lambda e: k(FALSE, e))
        raise Unsupported(f"expression {ast.unparse(n)}")

    def getattr_(self, v, attr: str, env: Env, ctx: Ctx, k: Callable):
        if isinstance(v, Role):
            if attr == "is_running" and v.role == "F":
                return k(Val(f"{env.st}.running", "Bool"), env)
            raise Unsupported(f"attribute {attr} of the {self.role_name(v.role)} receiver")
        field_ = {"timestamp": ("ts", "Int"), "value": ("val", "OptQ")}.get(attr)
        if field_ is None:
            raise Unsupported(f"attribute .{attr}")
        v = self.narrowed(v, env)
        if v.ty == "Sample":
            return k(Val(f"{v.term}.{field_[0]}", field_[1]), env)
        if v.ty == "None":
            return ctx.exc(".fault", env)  # AttributeError
        if v.ty == "OptSample":
            x = self.fresh("x")
            return Match(v.term, [("none", ctx.exc(".fault", env)),
                                  (f"some {x}", k(Val(f"{x}.{field_[0]}", field_[1]),
                                                  env.narrow(v.term, Val(x, "Sample"))))])
        raise Unsupported(f"attribute .{attr} of a {v.ty}")

    def call(self, n: ast.Call, awaited: bool, env: Env, ctx: Ctx, k: Callable):
        f = n.func
        if not isinstance(f, ast.Attribute):
            raise Unsupported(f"call {ast.unparse(f)}")
        if any(kw.arg is None for kw in n.keywords) or any(isinstance(a, ast.Starred) for a in n.args):
            raise Unsupported("star arguments")
        # self.<method>(…)
        if isinstance(f.value, ast.Name) and f.value.id == "self":
            if f.attr not in self.info.methods:
                raise Unsupported(f"call self.{f.attr}")
            fn = self.info.methods[f.attr]
            if isinstance(fn, ast.AsyncFunctionDef) != awaited:
                raise Unsupported(f"self.{f.attr}: await/async mismatch")
            names = [a.arg for a in self.info.params(f.attr)]
            if len(n.args) > len(names):
                raise Unsupported("too many arguments")
            exprs: list = list(zip(names, n.args)) + [(kw.arg, kw.value) for kw in n.keywords]
            if sorted(p for p, _ in exprs) != sorted(names):
                raise Unsupported(f"arguments of self.{f.attr}")
            # helpers without loops are inlined; the methods the tie talks about (and helpers with loops) are functions
            inline = f.attr not in REQUIRED and not has_loop(fn)

            def args_then(i: int, got: list, e: Env):
                if i < len(exprs):
                    return self.ev(exprs[i][1], e, ctx, lambda v, e2: args_then(i + 1, got + [(exprs[i][0], v)], e2))
                bound = dict(got)
                if inline:
                    return self.inline(f.attr, [(p, replace(bound[p], origin=None) if isinstance(bound[p], Val)
                                                 else bound[p]) for p in names], e, ctx, k)
                if any(isinstance(v, Val) and v.ty == "Exc" for v in bound.values()):
                    raise Unsupported("exception object passed to a method")
                role_args = tuple((p, bound[p].role) for p in names if isinstance(bound[p], Role))
                m = self.method(f.attr, role_args)
                vals = " ".join(atom(self.coerce(self.narrowed(bound[py], e), ty, e)) for py, _, ty in m.params)
                ek, s1, v1 = self.fresh("e"), self.fresh("s"), self.fresh("v")
                e1 = e.state(s1)
                return Match(f"{m.lean} {vals + ' ' if vals else ''}{e.st}", [
                    (".block", Leaf(".block")),
                    (f".exc {ek} {s1}", ctx.exc(ek, e1)),
                    (f".ok {v1} {s1}", k(Val(v1, m.retty), e1)),
                ])
            return args_then(0, [], env)
        if n.keywords or n.args:
            raise Unsupported(f"call {ast.unparse(n)}")
        # <receiver>.receive() / .start(),  <quantity>.isnan() / .isinf()
        def on(v, e: Env):
            if isinstance(v, Role):
                if f.attr == "receive":
                    if not awaited:
                        raise Unsupported("receive() without await")
                    s1, v1 = self.fresh("s"), self.fresh("v")
                    return Match(f"Pull.recv{v.role} {e.st}", [
                        (".block", Leaf(".block")),
                        (".closed", ctx.exc(".recv", e)),
                        (f".got {v1} {s1}", k(Val(v1, "Sample"), e.state(s1))),
                    ])
                if f.attr == "start" and v.role == "F":
                    if awaited:
                        raise Unsupported("await start()")
                    s1 = self.fresh("s")
                    return Let(s1, f"Pull.start {e.st}", k(NONE, e.state(s1)))
                raise Unsupported(f"{self.role_name(v.role)} receiver: .{f.attr}()")
            if awaited:
                raise Unsupported(f"await {ast.unparse(n)}")
            if f.attr in ("isnan", "isinf"):
                v = self.narrowed(v, e)
                if v.ty == "Q":
                    return k(Val(f"{v.term}.{f.attr}", "Bool"), e)
                if v.ty == "None":
                    return ctx.exc(".fault", e)
                if v.ty == "OptQ":
                    x = self.fresh("x")
                    return Match(v.term, [("none", ctx.exc(".fault", e)),
                                          (f"some {x}", k(Val(f"{x}.{f.attr}", "Bool"), e.narrow(v.term, Val(x, "Q"))))])
            raise Unsupported(f"call {ast.unparse(n)}")
        return self.ev(f.value, env, ctx, on)

    # ------------------------------------------------------------ conditions
    def cond(self, n: ast.expr, env: Env, ctx: Ctx, kt: Callable, kf: Callable):
        """Evaluate `n` as a truth value: continue with `kt(env)` or `kf(env)`."""
        if isinstance(n, ast.BoolOp):
            first, rest = n.values[0], n.values[1:]
            tail = rest[0] if len(rest) == 1 else ast.BoolOp(op=n.op, values=rest)
            if isinstance(n.op, ast.And):
                return self.cond(first, env, ctx, lambda e: self.cond(tail, e, ctx, kt, kf), kf)
            return self.cond(first, env, ctx, kt, lambda e: self.cond(tail, e, ctx, kt, kf))
        if isinstance(n, ast.UnaryOp) and isinstance(n.op, ast.Not):
            return self.cond(n.operand, env, ctx, kf, kt)
        if isinstance(n, ast.Compare):
            if len(n.ops) != 1:
                raise Unsupported("chained comparison")
            op, right = n.ops[0], n.comparators[0]
            if isinstance(op, (ast.Is, ast.IsNot)):
                if not (isinstance(right, ast.Constant) and right.value is None):
                    raise Unsupported("`is` with something else than None")
                yes, no = (kt, kf) if isinstance(op, ast.Is) else (kf, kt)

                def test(v, e: Env):
                    if isinstance(v, Role):
                        if v.role != "F":
                            raise Unsupported("None test of the primary receiver")
                        return If(f"{e.st}.hasFb = false", yes(e), no(e))
                    v = self.narrowed(v, e)
                    if v.ty == "None":
                        return yes(e)
                    if v.ty in ("Sample", "Q", "Bool", "Int"):
                        return no(e)
                    if v.ty in ("OptSample", "OptQ"):
                        x = self.fresh("x")
                        inner = "Sample" if v.ty == "OptSample" else "Q"
                        return Match(v.term, [("none", yes(e)), (f"some {x}", no(e.narrow(v.term, Val(x, inner))))])
                    raise Unsupported(f"None test of a {v.ty}")
                return self.ev(n.left, env, ctx, test)
            sym = {ast.Lt: "<", ast.LtE: "≤", ast.Gt: ">", ast.GtE: "≥", ast.Eq: "=", ast.NotEq: "≠"}.get(type(op))
            if sym is None:
                raise Unsupported(f"comparison {type(op).__name__}")

            def cmp(a, b, e: Env):
                if not (isinstance(a, Val) and isinstance(b, Val) and a.ty == "Int" and b.ty == "Int"):
                    raise Unsupported(f"comparison of {getattr(a, 'ty', 'receiver')} with {getattr(b, 'ty', 'receiver')}")
                return If(f"{a.term} {sym} {b.term}", kt(e), kf(e))
            return self.ev(n.left, env, ctx, lambda a, e: self.ev(right, e, ctx, lambda b, e2: cmp(a, b, e2)))

        def truth(v, e: Env):
            if not (isinstance(v, Val) and v.ty == "Bool"):
                raise Unsupported(f"truth value of {ast.unparse(n)}")
            if v.term == "true":
                return kt(e)
            if v.term == "false":
                return kf(e)
            return If(f"{v.term} = true", kt(e), kf(e))
        return self.ev(n, env, ctx, truth)


def generate(repo: pathlib.Path) -> str:
    src = (repo / SOURCES[0]).read_text()
    info = ClassInfo(ast.parse(src))
    tr = PullTranslator(info)
    tr.method(ENTRY, ())
    for m in REQUIRED:
        if m not in tr.specialised:
            raise Unsupported(f"{CLASS}.{m} was not translated")
    roles = {v: k for k, v in info.role_fields.items()}
    slots = {v: k for k, v in info.slots.items()}
    head = (
        "import Frequenz.Model.Pull\n\n"
        "/-!\n"
        f"`{CLASS}.{ENTRY}` and the methods it reaches, translated statement by statement (see the docstring of\n"
        "`tools/extractors/fallback_pull.py` for the scheme and `Frequenz/Model/Pull.lean` for the state and outcomes).\n\n"
        f"Resolved by dataflow:  primary receiver = `self.{roles['P']}`,  fallback receiver = `self.{roles['F']}`,\n"
        f"`PSt.latest` = `self.{slots['latest']}`,  `PSt.next` = `self.{slots['next']}`.\n"
        "-/\n\n"
        "set_option linter.unusedVariables false\n\n"
        "namespace Extracted.FallbackPull\nopen Pull\n\n"
    )
    return head + "\n".join(tr.defs) + "\nend Extracted.FallbackPull\n"
