"""Query side of `_ringbuffer/buffer.py` + `MovingWindow.at` -> Lean (C09); companion of `ringbuffer.py`.

Kept in a module of its own (`Extracted.RingBufferQuery`) because this is the part of the source that the
proposed C09 fixes change (`window` emptiness test and fill origin, `count_covered` quotient, `MovingWindow.at`
range/gap tests): the gap-list proofs import only `Extracted.RingBuffer` and are not rebuilt when it flips.
"""
from __future__ import annotations

import ast
import pathlib
import sys

sys.path.insert(0, str(pathlib.Path(__file__).resolve().parent))
import _rb_common  # noqa: E402
from _rb_common import COMMON, Bad, find_method, lean_prop, match, negate, prop, tr  # noqa: E402

NAME = "RingBufferQuery"
SOURCES = [
    "src/frequenz/sdk/timeseries/_ringbuffer/buffer.py",
    "src/frequenz/sdk/timeseries/_moving_window.py",
]

# Patterns: the normal form (`_rb_common.normalize`) of each modelled method, `HOLE_x` = translated on every run.
SK_TII = """
def to_internal_index(self, timestamp, allow_outside_range=False):
    timestamp = self.normalize_timestamp(timestamp)
    if not allow_outside_range and HOLE_outside:
        raise IndexError
    return self.wrap(round((timestamp - self._time_index_alignment).total_seconds() / self._sampling_period.total_seconds()))
"""

SK_WRAP = """
def wrap(self, index):
    return index % self.maxlen
"""

# `window`: the ORDER of the steps is part of the pattern — both bounds are clamped (`HOLE_clamp_s`, `HOLE_clamp_e`)
# BEFORE the emptiness test (`HOLE_nonempty`) reads them, and `to_internal_index` sees the clamped bounds: that is the
# dataflow of `Model.windowTs` / `windowTsRaises` (`winEmpty st en …` over the clamped `st`, `en`).  A tree that clamps
# `end` after the test (seeded C09-r2-3) does not unify and raises `Bad`.
SK_WINDOW = """
def window(self, start, end, *, force_copy=True, fill_value=np.nan):
    if not force_copy and fill_value is not None:
        raise ValueError
    if self.count_covered() == 0:
        if isinstance(self._buffer, np.ndarray):
            return np.array([])
        return []
    if not isinstance(start, datetime) and (not isinstance(end, datetime)):
        start, end = self._to_covered_indices(start, end)
        start = self.get_timestamp(start)
        end = self.get_timestamp(end)
    if not isinstance(start, datetime) or not isinstance(end, datetime):
        raise IndexError
    start = HOLE_clamp_s
    end = HOLE_clamp_e
    if HOLE_nonempty:
        window = self._wrapped_buffer_window(self._buffer, self.to_internal_index(start), self.to_internal_index(end), force_copy)
        if fill_value is not None:
            return self._fill_gaps(window, fill_value, HOLE_origin, self.gaps)
        return window
    if isinstance(self._buffer, np.ndarray):
        return np.array([])
    return []
"""

SK_COVERED_IDX = """
def _to_covered_indices(self, start, end=None):
    return slice(start, end).indices(self.count_covered())[:2]
"""

SK_GET_TS = """
def get_timestamp(self, index):
    if self.oldest_timestamp is not None:
        if index < 0:
            return self.newest_timestamp + self._sampling_period + index * self._sampling_period
        return self.oldest_timestamp + index * self._sampling_period
"""

SK_FILL = """
def _fill_gaps(self, data, fill_value, oldest_timestamp, gaps):
    for gap in gaps:
        end_index = min(HOLE_ei, len(data))
        if end_index > max(HOLE_si, 0):
            if isinstance(data, np.ndarray):
                data[max(HOLE_si, 0):end_index] = fill_value
            elif isinstance(data, list):
                data[max(HOLE_si, 0):end_index] = [fill_value] * (end_index - max(HOLE_si, 0))
    return data
"""

SK_WRAPPED = """
def _wrapped_buffer_window(buffer, start_pos, end_pos, force_copy=True):
    if force_copy:
        if start_pos < end_pos:
            return deepcopy(buffer[start_pos:end_pos])
        if isinstance(buffer, list):
            return buffer[start_pos:] + buffer[:end_pos]
        if end_pos <= 0:
            return deepcopy(buffer[start_pos:])
        return np.concatenate((buffer[start_pos:], buffer[:end_pos]))
    if start_pos < end_pos:
        return buffer[start_pos:end_pos]
    if isinstance(buffer, list):
        return buffer[start_pos:] + buffer[:end_pos]
    if end_pos <= 0:
        return buffer[start_pos:]
    return np.concatenate((buffer[start_pos:], buffer[:end_pos]))
"""

SK_OLDEST_TS = """
def oldest_timestamp(self):
    if self.count_valid() != 0:
        if self.is_missing(self.time_bound_oldest):
            return min((g.end for g in self.gaps))
        return self.time_bound_oldest
"""

SK_NEWEST_TS = """
def newest_timestamp(self):
    if self.count_valid() != 0:
        return self.time_bound_newest
"""

SK_COVERED_RANGE = """
def _covered_time_range(self):
    if self.oldest_timestamp:
        return self.newest_timestamp - self.oldest_timestamp + self._sampling_period
    return timedelta(0)
"""

SK_COUNT_COVERED = """
def count_covered(self):
    return HOLE_q
"""

SK_COUNT_VALID = """
def count_valid(self):
    if self._TIMESTAMP_MIN == self._timestamp_newest:
        return 0
    end_pos = self.to_internal_index(self._timestamp_newest)
    start_pos = self.to_internal_index(self._timestamp_oldest)
    sum_missing_entries = max(0, sum((HOLE_len for gap in self._gaps)))
    if end_pos < start_pos:
        return HOLE_wrapped
    return HOLE_straight
"""

SK_AT_PINNED = """
def at(self, key):
    if self._buffer.count_valid() == 0:
        raise IndexError
    if isinstance(key, datetime):
        if HOLE_ts_out:
            raise IndexError
        return self._buffer[self._buffer.to_internal_index(key)]
    if not isinstance(key, int):
        raise TypeError
    return self._buffer[self._buffer.to_internal_index(self._buffer.get_timestamp(key))]
"""

SK_AT_FIXED = """
def at(self, key):
    if self._buffer.count_valid() == 0:
        raise IndexError
    if isinstance(key, datetime):
        if HOLE_ts_out:
            raise IndexError
        if self._buffer.is_missing(self._buffer.normalize_timestamp(key)):
            return np.nan
        return self._buffer[self._buffer.to_internal_index(key)]
    if not isinstance(key, int):
        raise TypeError
    count_covered = self._buffer.count_covered()
    if HOLE_idx_out:
        raise IndexError
    timestamp = self._buffer.get_timestamp(key)
    if self._buffer.is_missing(self._buffer.normalize_timestamp(timestamp)):
        return np.nan
    return self._buffer[self._buffer.to_internal_index(timestamp)]
"""


def generate(repo: pathlib.Path) -> str:
    buf = ast.parse((repo / SOURCES[0]).read_text())
    mw = ast.parse((repo / SOURCES[1]).read_text())
    # (keyword arguments of `self._buffer.<method>(…)` in `MovingWindow` are bound through the ring buffer's signatures)
    _rb_common.PEERS["_buffer"] = next(c for c in buf.body if isinstance(c, ast.ClassDef) and c.name == "OrderedRingBuffer")
    out: list[str] = []

    def emit_prop(name: str, params: str, body: str, doc: str) -> None:
        out.append(lean_prop(name, params, body, doc))

    def emit_int(name: str, params: str, body: str, doc: str) -> None:
        out.append(f"/-- {doc} -/\ndef {name} {params} : Int := {body}\n")

    def holes(name: str, pattern: str) -> dict[str, ast.expr]:
        return match(find_method(buf, "OrderedRingBuffer", name), [pattern], name)[1]

    # ---- to_internal_index / wrap
    h = holes("to_internal_index", SK_TII)
    emit_prop("tiiOutside", "(timestamp selfNewest oldest period : Int)", prop(h["outside"], COMMON),
              "`to_internal_index`: the (normalised) timestamp is outside the range")
    holes("wrap", SK_WRAP)

    # ---- window
    h = holes("window", SK_WINDOW)
    wn = {**COMMON, "start": "start", "end": "end_", "self.oldest_timestamp": "oldestTs", "self.newest_timestamp": "newestTs",
          "self.normalize_timestamp(start)": "nstart", "self.normalize_timestamp(end)": "nend"}
    emit_int("winClampStart", "(start oldestTs : Int)", tr(h["clamp_s"], wn), "`window`: start clamped to the covered range")
    emit_int("winClampEnd", "(end_ newestTs period : Int)", tr(h["clamp_e"], wn), "`window`: end clamped to the covered range")
    # (in the normal form the non-empty case is the `if` branch: the recorded test is the negation)
    emit_prop("winEmpty", "(start end_ nstart nend : Int)", prop(negate(h["nonempty"]), wn),
              "`window`: nothing to return (`nstart`/`nend` = the clamped bounds normalised onto the slot grid)")
    emit_int("winFillOrigin", "(start nstart : Int)", tr(h["origin"], wn), "`window`: timestamp of element 0 handed to `_fill_gaps`")
    holes("_to_covered_indices", SK_COVERED_IDX)
    holes("get_timestamp", SK_GET_TS)
    holes("_wrapped_buffer_window", SK_WRAPPED)

    # ---- _fill_gaps
    h = holes("_fill_gaps", SK_FILL)
    fg = {**COMMON, "gap.start": "gapStart", "gap.end": "gapEnd", "oldest_timestamp": "origin"}
    emit_int("fgStartIndex", "(gapStart origin period : Int)", tr(h["si"], fg), "`_fill_gaps`: first filled index (before clamping to 0)")
    emit_int("fgEndIndex", "(gapEnd origin period : Int)", tr(h["ei"], fg), "`_fill_gaps`: end of the filled range (before clamping to len)")

    # ---- oldest/newest_timestamp, covered range, counts
    holes("oldest_timestamp", SK_OLDEST_TS)
    holes("newest_timestamp", SK_NEWEST_TS)
    holes("_covered_time_range", SK_COVERED_RANGE)
    q = ast.unparse(holes("count_covered", SK_COUNT_COVERED)["q"])
    if q == "self._covered_time_range() // self._sampling_period":
        exact = "true"
    elif q == "int(self._covered_time_range().total_seconds() // self._sampling_period.total_seconds())":
        exact = "false"
    else:
        raise Bad(f"count_covered: unknown quotient `{q}`")
    out.append("/-- `count_covered`: `true` when the quotient is the exact `timedelta // timedelta`; `false` when it is the\n"
               "floor division of two `total_seconds()` floats (which is one too small e.g. for 0.6 s / 0.2 s). -/\n"
               f"def countCoveredExact : Bool := {exact}\n")
    emit_int("countCoveredQuot", "(covered period : Int)", "(covered / period)", "`count_covered` in exact arithmetic")

    h = holes("count_valid", SK_COUNT_VALID)
    cv = {**COMMON, "gap.start": "gapStart", "gap.end": "gapEnd", "len(self._buffer)": "cap", "start_pos": "startPos",
          "end_pos": "endPos", "sum_missing_entries": "missing"}
    emit_int("cvGapLen", "(gapStart gapEnd oldest period : Int)", tr(h["len"], cv), "`count_valid`: slots of one gap inside the window")
    emit_int("cvWrapped", "(cap startPos endPos missing : Int)", tr(h["wrapped"], cv), "`count_valid` when `end_pos < start_pos`")
    emit_int("cvStraight", "(cap startPos endPos missing : Int)", tr(h["straight"], cv), "`count_valid` otherwise")

    # ---- MovingWindow.at
    variant, h = match(find_method(mw, "MovingWindow", "at"), [SK_AT_PINNED, SK_AT_FIXED], "MovingWindow.at")
    at = {"key": "key", "self._buffer.oldest_timestamp": "oldestTs", "self._buffer.newest_timestamp": "newestTs",
          "count_covered": "countCovered"}
    emit_prop("atTsOutOfRange", "(key oldestTs newestTs : Int)", prop(h["ts_out"], at), "`MovingWindow.at(datetime)`: IndexError")
    if variant == 1:
        emit_prop("atIndexOutOfRange", "(key countCovered : Int)", prop(h["idx_out"], at), "`MovingWindow.at(int)`: IndexError")
        out.append("/-- `MovingWindow.at` returns NaN for a slot inside a gap. -/\ndef atNanOnGap : Bool := true\n")
    else:
        emit_prop("atIndexOutOfRange", "(key countCovered : Int)", "False",
                  "`MovingWindow.at(int)` has no range test of its own (only the one of `to_internal_index`)")
        out.append("/-- `MovingWindow.at` reads the raw slot, also inside a gap. -/\ndef atNanOnGap : Bool := false\n")

    return ("import Frequenz.Model.Prelude\n\nset_option linter.unusedVariables false\n\nnamespace Extracted.RingBufferQuery\n\n" + "\n".join(out)
            + "\nend Extracted.RingBufferQuery\n")
