"""Query side of `_ringbuffer/buffer.py` + `MovingWindow.at` -> Lean (C09); companion of `ringbuffer.py`.

Kept in a module of its own (`Extracted.RingBufferQuery`) because this is the part of the source that the
proposed C09 fixes change (`window` emptiness test and fill origin, `count_covered` quotient, `MovingWindow.at`
range/gap tests): the gap-list proofs import only `Extracted.RingBuffer` and are not rebuilt when it flips.
"""
from __future__ import annotations

import ast
import pathlib
import sys

sys.path.insert(0, str(pathlib.Path(__file__).resolve().parent))
from _rb_common import COMMON, Bad, _if_tests, expect, find_method, prop, strip_doc, tr  # noqa: E402

NAME = "RingBufferQuery"
SOURCES = [
    "src/frequenz/sdk/timeseries/_ringbuffer/buffer.py",
    "src/frequenz/sdk/timeseries/_moving_window.py",
]

SK_TII = """
def to_internal_index(self, timestamp, allow_outside_range=False):
    timestamp = self.normalize_timestamp(timestamp)
    if not allow_outside_range and HOLE_outside:
        raise IndexError(f'Requested timestamp {timestamp} is outside the range [{self._timestamp_oldest} - {self._timestamp_newest}]')
    return self.wrap(round((timestamp - self._time_index_alignment).total_seconds() / self._sampling_period.total_seconds()))
"""

SK_WRAP = """
def wrap(self, index):
    return index % self.maxlen
"""

SK_WINDOW = """
def window(self, start, end, *, force_copy=True, fill_value=np.nan):
    if fill_value is not None and (not force_copy):
        raise ValueError('fill_value only supported for force_copy=True')
    if self.count_covered() == 0:
        return np.array([]) if isinstance(self._buffer, np.ndarray) else []
    if not isinstance(start, datetime) and (not isinstance(end, datetime)):
        start, end = self._to_covered_indices(start, end)
        start = self.get_timestamp(start)
        end = self.get_timestamp(end)
    if not isinstance(start, datetime) or not isinstance(end, datetime):
        raise IndexError(f'start ({start}) and end ({end}) must both be either datetime or index.')
    start = HOLE_clamp_s
    end = HOLE_clamp_e
    if HOLE_empty:
        return np.array([]) if isinstance(self._buffer, np.ndarray) else []
    start_pos = self.to_internal_index(start)
    end_pos = self.to_internal_index(end)
    window = self._wrapped_buffer_window(self._buffer, start_pos, end_pos, force_copy)
    if fill_value is not None:
        window = self._fill_gaps(window, fill_value, HOLE_origin, self.gaps)
    return window
"""

SK_COVERED_IDX = """
def _to_covered_indices(self, start, end=None):
    return slice(start, end).indices(self.count_covered())[:2]
"""

SK_GET_TS = """
def get_timestamp(self, index):
    if self.oldest_timestamp is None:
        return None
    if index < 0:
        ref_ts = self.newest_timestamp + self._sampling_period
    else:
        ref_ts = self.oldest_timestamp
    return ref_ts + index * self._sampling_period
"""

SK_FILL = """
def _fill_gaps(self, data, fill_value, oldest_timestamp, gaps):
    for gap in gaps:
        end_index = HOLE_ei
        start_index = HOLE_si
        start_index = max(start_index, 0)
        end_index = min(end_index, len(data))
        if start_index < end_index:
            if isinstance(data, np.ndarray):
                data[start_index:end_index] = fill_value
            elif isinstance(data, list):
                data[start_index:end_index] = [fill_value] * (end_index - start_index)
    return data
"""

SK_WRAPPED = """
def _wrapped_buffer_window(buffer, start_pos, end_pos, force_copy=True):
    if start_pos < end_pos:
        arr = buffer[start_pos:end_pos]
    else:
        if isinstance(buffer, list):
            return buffer[start_pos:] + buffer[0:end_pos]
        if end_pos > 0:
            return np.concatenate((buffer[start_pos:], buffer[0:end_pos]))
        arr = buffer[start_pos:]
    if force_copy:
        return deepcopy(arr)
    return arr
"""

SK_OLDEST_TS = """
def oldest_timestamp(self):
    if self.count_valid() == 0:
        return None
    if self.is_missing(self.time_bound_oldest):
        return min((g.end for g in self.gaps))
    return self.time_bound_oldest
"""

SK_NEWEST_TS = """
def newest_timestamp(self):
    if self.count_valid() == 0:
        return None
    return self.time_bound_newest
"""

SK_COVERED_RANGE = """
def _covered_time_range(self):
    if self.oldest_timestamp:
        return self.newest_timestamp - self.oldest_timestamp + self._sampling_period
    return timedelta(0)
"""

SK_COUNT_COVERED = """
def count_covered(self):
    return HOLE_q
"""

SK_COUNT_VALID = """
def count_valid(self):
    if self._timestamp_newest == self._TIMESTAMP_MIN:
        return 0
    sum_missing_entries = max(0, sum((HOLE_len for gap in self._gaps)))
    end_pos = self.to_internal_index(self._timestamp_newest)
    start_pos = self.to_internal_index(self._timestamp_oldest)
    if end_pos < start_pos:
        return HOLE_wrapped
    return HOLE_straight
"""

SK_AT_PINNED = """
def at(self, key):
    if self._buffer.count_valid() == 0:
        raise IndexError('The buffer is empty.')
    if isinstance(key, datetime):
        if HOLE_ts_out:
            raise IndexError(f'Timestamp {key} is out of range [{self._buffer.oldest_timestamp}, {self._buffer.newest_timestamp}]')
        return self._buffer[self._buffer.to_internal_index(key)]
    if isinstance(key, int):
        timestamp = self._buffer.get_timestamp(key)
        return self._buffer[self._buffer.to_internal_index(timestamp)]
    raise TypeError('Key has to be either a timestamp or an integer.')
"""

SK_AT_FIXED = """
def at(self, key):
    if self._buffer.count_valid() == 0:
        raise IndexError('The buffer is empty.')
    if isinstance(key, datetime):
        if HOLE_ts_out:
            raise IndexError(f'Timestamp {key} is out of range [{self._buffer.oldest_timestamp}, {self._buffer.newest_timestamp}]')
        timestamp = key
    elif isinstance(key, int):
        count_covered = self._buffer.count_covered()
        if HOLE_idx_out:
            raise IndexError(f'Index {key} is out of range [-{count_covered}, {count_covered})')
        index_timestamp = self._buffer.get_timestamp(key)
        timestamp = index_timestamp
    else:
        raise TypeError('Key has to be either a timestamp or an integer.')
    if self._buffer.is_missing(self._buffer.normalize_timestamp(timestamp)):
        return np.nan
    return self._buffer[self._buffer.to_internal_index(timestamp)]
"""


def generate(repo: pathlib.Path) -> str:  # noqa: C901  (one linear recipe)
    buf = ast.parse((repo / SOURCES[0]).read_text())
    mw = ast.parse((repo / SOURCES[1]).read_text())
    out: list[str] = []

    def emit_prop(name: str, params: str, body: str, doc: str) -> None:
        out.append(f"/-- {doc} -/\nabbrev {name} {params} : Prop := {body}\n")

    def emit_int(name: str, params: str, body: str, doc: str) -> None:
        out.append(f"/-- {doc} -/\ndef {name} {params} : Int := {body}\n")

    # ---- to_internal_index / wrap
    fn = find_method(buf, "OrderedRingBuffer", "to_internal_index", like=[SK_TII])
    t = _if_tests(strip_doc(fn))[0].test
    if not (isinstance(t, ast.BoolOp) and isinstance(t.op, ast.And) and len(t.values) == 2):
        raise Bad("to_internal_index: range test")
    expect(fn, {id(t.values[1]): "outside"}, [SK_TII], "to_internal_index")
    emit_prop("tiiOutside", "(timestamp selfNewest oldest period : Int)", prop(t.values[1], COMMON),
              "`to_internal_index`: the (normalised) timestamp is outside the range")
    expect(find_method(buf, "OrderedRingBuffer", "wrap", like=[SK_WRAP]), {}, [SK_WRAP], "wrap")

    # ---- window
    fn = find_method(buf, "OrderedRingBuffer", "window", like=[SK_WINDOW])
    body = strip_doc(fn)
    try:
        assigns = [s for s in body if isinstance(s, ast.Assign)]
        cs = next(s for s in assigns if ast.unparse(s.targets[0]) == "start")
        ce = next(s for s in assigns if ast.unparse(s.targets[0]) == "end")
        empty = _if_tests(body)[4]
        fill_call = _if_tests(body)[5].body[0].value
        origin = fill_call.args[2]
        holes = {id(cs.value): "clamp_s", id(ce.value): "clamp_e", id(empty.test): "empty", id(origin): "origin"}
    except (AttributeError, IndexError, StopIteration) as e:
        raise Bad(f"window: unexpected shape ({e})") from e
    expect(fn, holes, [SK_WINDOW], "window")
    wn = {**COMMON, "start": "start", "end": "end_", "self.oldest_timestamp": "oldestTs", "self.newest_timestamp": "newestTs",
          "self.normalize_timestamp(start)": "nstart", "self.normalize_timestamp(end)": "nend"}
    emit_int("winClampStart", "(start oldestTs : Int)", tr(cs.value, wn), "`window`: start clamped to the covered range")
    emit_int("winClampEnd", "(end_ newestTs period : Int)", tr(ce.value, wn), "`window`: end clamped to the covered range")
    emit_prop("winEmpty", "(start end_ nstart nend : Int)", prop(empty.test, wn),
              "`window`: nothing to return (`nstart`/`nend` = the clamped bounds normalised onto the slot grid)")
    emit_int("winFillOrigin", "(start nstart : Int)", tr(origin, wn), "`window`: timestamp of element 0 handed to `_fill_gaps`")
    expect(find_method(buf, "OrderedRingBuffer", "_to_covered_indices", like=[SK_COVERED_IDX]), {}, [SK_COVERED_IDX], "_to_covered_indices")
    expect(find_method(buf, "OrderedRingBuffer", "get_timestamp", like=[SK_GET_TS]), {}, [SK_GET_TS], "get_timestamp")
    expect(find_method(buf, "OrderedRingBuffer", "_wrapped_buffer_window", like=[SK_WRAPPED]), {}, [SK_WRAPPED], "_wrapped_buffer_window")

    # ---- _fill_gaps
    fn = find_method(buf, "OrderedRingBuffer", "_fill_gaps", like=[SK_FILL])
    try:
        loop = next(s for s in strip_doc(fn) if isinstance(s, ast.For))
        first = lambda name: next(x.value for x in loop.body  # noqa: E731
                                  if isinstance(x, ast.Assign) and ast.unparse(x.targets[0]) == name)
        si, ei = first("start_index"), first("end_index")
    except (AttributeError, IndexError, StopIteration) as e:
        raise Bad(f"_fill_gaps: unexpected shape ({e})") from e
    expect(fn, {id(si): "si", id(ei): "ei"}, [SK_FILL], "_fill_gaps")
    fg = {**COMMON, "gap.start": "gapStart", "gap.end": "gapEnd", "oldest_timestamp": "origin"}
    emit_int("fgStartIndex", "(gapStart origin period : Int)", tr(si, fg), "`_fill_gaps`: first filled index (before clamping to 0)")
    emit_int("fgEndIndex", "(gapEnd origin period : Int)", tr(ei, fg), "`_fill_gaps`: end of the filled range (before clamping to len)")

    # ---- oldest/newest_timestamp, covered range, counts
    expect(find_method(buf, "OrderedRingBuffer", "oldest_timestamp", like=[SK_OLDEST_TS]), {}, [SK_OLDEST_TS], "oldest_timestamp")
    expect(find_method(buf, "OrderedRingBuffer", "newest_timestamp", like=[SK_NEWEST_TS]), {}, [SK_NEWEST_TS], "newest_timestamp")
    expect(find_method(buf, "OrderedRingBuffer", "_covered_time_range", like=[SK_COVERED_RANGE]), {}, [SK_COVERED_RANGE], "_covered_time_range")
    fn = find_method(buf, "OrderedRingBuffer", "count_covered", like=[SK_COUNT_COVERED])
    ret = strip_doc(fn)[-1]
    if not isinstance(ret, ast.Return) or ret.value is None:
        raise Bad("count_covered: return")
    expect(fn, {id(ret.value): "q"}, [SK_COUNT_COVERED], "count_covered")
    q = ast.unparse(ret.value)
    if q == "self._covered_time_range() // self._sampling_period":
        exact = "true"
    elif q == "int(self._covered_time_range().total_seconds() // self._sampling_period.total_seconds())":
        exact = "false"
    else:
        raise Bad(f"count_covered: unknown quotient `{q}`")
    out.append("/-- `count_covered`: `true` when the quotient is the exact `timedelta // timedelta`; `false` when it is the\n"
               "floor division of two `total_seconds()` floats (which is one too small e.g. for 0.6 s / 0.2 s). -/\n"
               f"def countCoveredExact : Bool := {exact}\n")
    emit_int("countCoveredQuot", "(covered period : Int)", "(covered / period)", "`count_covered` in exact arithmetic")

    fn = find_method(buf, "OrderedRingBuffer", "count_valid", like=[SK_COUNT_VALID])
    body = strip_doc(fn)
    try:
        gen = next(s for s in body if isinstance(s, ast.Assign)
                   and ast.unparse(s.targets[0]) == "sum_missing_entries").value.args[1].args[0]  # max(0, sum(<gen>))
        length = gen.elt
        ret_wrapped = _if_tests(body)[1].body[0].value
        ret_straight = body[-1].value  # type: ignore[attr-defined]
    except (AttributeError, IndexError, StopIteration) as e:
        raise Bad(f"count_valid: unexpected shape ({e})") from e
    expect(fn, {id(length): "len", id(ret_wrapped): "wrapped", id(ret_straight): "straight"}, [SK_COUNT_VALID], "count_valid")
    cv = {**COMMON, "gap.start": "gapStart", "gap.end": "gapEnd", "len(self._buffer)": "cap", "start_pos": "startPos",
          "end_pos": "endPos", "sum_missing_entries": "missing"}
    emit_int("cvGapLen", "(gapStart gapEnd oldest period : Int)", tr(length, cv), "`count_valid`: slots of one gap inside the window")
    emit_int("cvWrapped", "(cap startPos endPos missing : Int)", tr(ret_wrapped, cv), "`count_valid` when `end_pos < start_pos`")
    emit_int("cvStraight", "(cap startPos endPos missing : Int)", tr(ret_straight, cv), "`count_valid` otherwise")

    # ---- MovingWindow.at
    fn = find_method(mw, "MovingWindow", "at", like=[SK_AT_PINNED, SK_AT_FIXED])
    body = strip_doc(fn)
    try:
        if_dt = _if_tests(body)[1]
        ts_out = _if_tests(if_dt.body)[0].test
        holes = {id(ts_out): "ts_out"}
        idx_out = None
        if if_dt.orelse and isinstance(if_dt.orelse[0], ast.If):
            inner_ifs = _if_tests(if_dt.orelse[0].body)
            if inner_ifs:
                idx_out = inner_ifs[0].test
                holes[id(idx_out)] = "idx_out"
    except (AttributeError, IndexError) as e:
        raise Bad(f"MovingWindow.at: unexpected shape ({e})") from e
    variant = expect(fn, holes, [SK_AT_PINNED, SK_AT_FIXED], "MovingWindow.at")
    at = {"key": "key", "self._buffer.oldest_timestamp": "oldestTs", "self._buffer.newest_timestamp": "newestTs",
          "count_covered": "countCovered"}
    emit_prop("atTsOutOfRange", "(key oldestTs newestTs : Int)", prop(ts_out, at), "`MovingWindow.at(datetime)`: IndexError")
    if variant == 1:
        assert idx_out is not None
        emit_prop("atIndexOutOfRange", "(key countCovered : Int)", prop(idx_out, at), "`MovingWindow.at(int)`: IndexError")
        out.append("/-- `MovingWindow.at` returns NaN for a slot inside a gap. -/\ndef atNanOnGap : Bool := true\n")
    else:
        emit_prop("atIndexOutOfRange", "(key countCovered : Int)", "False",
                  "`MovingWindow.at(int)` has no range test of its own (only the one of `to_internal_index`)")
        out.append("/-- `MovingWindow.at` reads the raw slot, also inside a gap. -/\ndef atNanOnGap : Bool := false\n")

    return ("import Frequenz.Model.Prelude\n\nset_option linter.unusedVariables false\n\nnamespace Extracted.RingBufferQuery\n\n" + "\n".join(out)
            + "\nend Extracted.RingBufferQuery\n")
