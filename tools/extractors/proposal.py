"""`Proposal.__lt__` / `__eq__`, the expiry test of `drop_old_proposals`, `_calculate_shifted_bounds` arithmetic and the
proposal max age -> Lean definitions over raw fields (`Extracted/Proposal.lean`).  The hand-written model is proved
equal to these (Lemmas/ProposalOrder.lean, Props/C03, Props/C11), so an edit of these expressions breaks a proof."""
import ast
import pathlib

import py2lean

NAME = "Proposal"
BASE = "src/frequenz/sdk/microgrid/_power_managing/"
SOURCES = [BASE + "_base_classes.py", BASE + "_matryoshka.py", BASE + "_power_managing_actor.py"]


class Flatten(ast.NodeTransformer):
    """self.priority -> self_priority, proposal.creation_time -> proposal_creation_time, …"""

    def visit_Attribute(self, node: ast.Attribute):
        self.generic_visit(node)
        if isinstance(node.value, ast.Name):
            return ast.copy_location(ast.Name(id=f"{node.value.id}_{node.attr}", ctx=ast.Load()), node)
        return node


def find_method(tree: ast.Module, cls: str, name: str) -> ast.FunctionDef:
    for c in tree.body:
        if isinstance(c, ast.ClassDef) and c.name == cls:
            for f in c.body:
                if isinstance(f, ast.FunctionDef) and f.name == name:
                    return f
    raise py2lean.Unsupported(f"{cls}.{name} not found")


def last_return(fn: ast.FunctionDef) -> ast.expr:
    rets = [s for s in fn.body if isinstance(s, ast.Return) and s.value is not None]
    if not rets:
        raise py2lean.Unsupported(f"{fn.name}: no top-level return")
    return rets[-1].value


def returned_bool(fn: ast.FunctionDef) -> ast.expr:
    """The boolean a comparison method returns for two `Proposal`s, whatever mix of guard clauses / if-else / single
    expression it is written in: the paths are folded into one expression (`if c: return a` + `return b` is
    `c and a or not c and b`, simplified for literal True / False).  `isinstance(<other>, Proposal)` holds."""
    def truth_const(e):
        if isinstance(e, ast.Constant) and isinstance(e.value, bool):
            return e.value
        return None

    def test_of(e: ast.expr):
        if isinstance(e, ast.Call) and ast.unparse(e.func) == "isinstance" and len(e.args) == 2 \
                and ast.unparse(e.args[1]) == "Proposal":
            return ast.Constant(value=True)
        if isinstance(e, ast.UnaryOp) and isinstance(e.op, ast.Not):
            inner = test_of(e.operand)
            c = truth_const(inner)
            return ast.Constant(value=not c) if c is not None else ast.UnaryOp(op=ast.Not(), operand=inner)
        return e

    def neg(e):
        return ast.UnaryOp(op=ast.Not(), operand=e)

    def both(a, b, op):
        vals = []
        for x in (a, b):
            vals += x.values if isinstance(x, ast.BoolOp) and isinstance(x.op, type(op)) else [x]
        return ast.BoolOp(op=op, values=vals)

    def fold(stmts: list) -> ast.expr:
        stmts = [st for st in stmts if not (isinstance(st, ast.Expr) and isinstance(st.value, ast.Constant))]
        if not stmts:
            raise py2lean.Unsupported(f"{fn.name}: a path without return")
        st, rest = stmts[0], stmts[1:]
        if isinstance(st, ast.Return) and st.value is not None:
            return st.value
        if isinstance(st, ast.If):
            t = test_of(st.test)
            c = truth_const(t)
            if c is not None:
                return fold((st.body if c else st.orelse) + rest)
            a, b = fold(st.body + rest), fold(st.orelse + rest)
            ca, cb = truth_const(a), truth_const(b)
            if ca is True:
                return both(t, b, ast.Or())
            if ca is False:
                return both(neg(t), b, ast.And())
            if cb is True:
                return both(neg(t), a, ast.Or())
            if cb is False:
                return both(t, a, ast.And())
            return ast.BoolOp(op=ast.Or(), values=[both(t, a, ast.And()), both(neg(t), b, ast.And())])
        raise py2lean.Unsupported(f"{fn.name}: statement {ast.unparse(st)[:50]}")
    return fold(fn.body)


def generate(repo: pathlib.Path) -> str:
    tr = py2lean.Translator({})
    env = py2lean.Env()
    base = ast.parse((repo / SOURCES[0]).read_text())
    lt = Flatten().visit(returned_bool(find_method(base, "Proposal", "__lt__")))
    eq = Flatten().visit(returned_bool(find_method(base, "Proposal", "__eq__")))
    # a conjunction of plain field comparisons cannot raise and has no effects: canonical (textual) order of the conjuncts
    if isinstance(eq, ast.BoolOp) and isinstance(eq.op, ast.And) and all(
            isinstance(v, ast.Compare) and all(isinstance(x, ast.Name) for x in [v.left] + v.comparators) for v in eq.values):
        eq = ast.BoolOp(op=ast.And(), values=sorted(eq.values, key=ast.unparse))
    keys = "(self_priority : Int) (self_source_id : String) (other_priority : Int) (other_source_id : String)"
    out = ["import Frequenz.Model.Prelude", "", "namespace Extracted.Proposal", ""]
    dec = ("instance (self_priority : Int) (self_source_id : String) (other_priority : Int) (other_source_id : String) :\n"
           "    Decidable ({n} self_priority self_source_id other_priority other_source_id) := by\n  unfold {n}; exact inferInstance\n")
    out += [f"/-- `Proposal.__lt__`. -/\ndef lt {keys} : Prop :=\n  {tr.prop(lt, env)}\n", dec.format(n="lt")]
    out += [f"/-- `Proposal.__eq__` (for two `Proposal`s). -/\ndef eq {keys} : Prop :=\n  {tr.prop(eq, env)}\n", dec.format(n="eq")]
    # expiry test of drop_old_proposals
    mat = ast.parse((repo / SOURCES[1]).read_text())
    drop = find_method(mat, "Matryoshka", "drop_old_proposals")
    # the expiry test: the one condition of the method (an `if` statement or the filter of a comprehension)
    tests = [n.test for n in ast.walk(drop) if isinstance(n, ast.If)]
    tests += [c for n in ast.walk(drop) if isinstance(n, ast.comprehension) for c in n.ifs]
    if len(tests) != 1:
        raise py2lean.Unsupported("drop_old_proposals: expected exactly one condition (`if` / comprehension filter)")
    params = [a.arg for a in drop.args.args]
    if len(params) != 2:
        raise py2lean.Unsupported("drop_old_proposals: expected (self, <loop time>)")

    class Roles(ast.NodeTransformer):
        """names by role, not by spelling: the time parameter, the proposal whose `creation_time` is read"""

        def visit_Attribute(self, node: ast.Attribute):
            if node.attr == "creation_time" and isinstance(node.value, ast.Name) and node.value.id not in params:
                return ast.copy_location(ast.Name(id="proposal_creation_time", ctx=ast.Load()), node)
            self.generic_visit(node)
            return node

        def visit_Name(self, node: ast.Name):
            if node.id == params[1]:
                return ast.copy_location(ast.Name(id="loop_time", ctx=ast.Load()), node)
            return node
    import copy
    # locals that merely name an attribute / another name (assigned exactly once) are read through
    alias: dict = {}
    counts: dict = {}
    for n in ast.walk(drop):
        if isinstance(n, ast.Assign) and len(n.targets) == 1 and isinstance(n.targets[0], ast.Name):
            counts[n.targets[0].id] = counts.get(n.targets[0].id, 0) + 1
            if isinstance(n.value, (ast.Attribute, ast.Name)):
                alias[n.targets[0].id] = n.value

    class Unalias(ast.NodeTransformer):
        def visit_Name(self, node: ast.Name):
            if isinstance(node.ctx, ast.Load) and node.id in alias and counts.get(node.id) == 1:
                return self.visit(copy.deepcopy(alias[node.id]))
            return node
    test = Flatten().visit(Roles().visit(Unalias().visit(copy.deepcopy(tests[0]))))
    out += ["/-- the `if` of `drop_old_proposals`: this proposal is dropped. -/\n"
            "def expired (loop_time : Rat) (proposal_creation_time : Rat) (self__max_proposal_age_sec : Rat) : Prop :=\n"
            f"  {tr.prop(test, env)}\n",
            "instance (a b c : Rat) : Decidable (expired a b c) := by unfold expired; exact inferInstance\n"]
    # the max age the actor configures (both groups must agree)
    act = ast.parse((repo / SOURCES[2]).read_text())
    ages = []
    for n in ast.walk(act):
        if isinstance(n, ast.Call) and ast.unparse(n.func) == "Matryoshka":
            for kw in n.keywords:
                if kw.arg == "max_proposal_age" and isinstance(kw.value, ast.Call) and ast.unparse(kw.value.func) == "timedelta":
                    for k2 in kw.value.keywords:
                        if k2.arg == "seconds" and isinstance(k2.value, ast.Constant):
                            ages.append(k2.value.value)
    if len(ages) != 2 or ages[0] != ages[1]:
        raise py2lean.Unsupported(f"expected two Matryoshka(max_proposal_age=timedelta(seconds=c)) with equal c, got {ages}")
    from fractions import Fraction

    fr = Fraction(repr(ages[0]))
    out += [f"/-- `max_proposal_age` of both Matryoshka instances of the actor, in seconds. -/\n"
            f"def maxProposalAgeSec : Rat := ({fr.numerator} : Rat) / {fr.denominator}\n"]
    # _calculate_shifted_bounds: the two Bounds(...) arguments
    sh = find_method(act, "PowerManagingActor", "_calculate_shifted_bounds")
    args = None
    for n in ast.walk(sh):
        if isinstance(n, ast.Call) and ast.unparse(n.func) == "Bounds" and len(n.args) == 2:
            args = n.args
    if args is None:
        raise py2lean.Unsupported("_calculate_shifted_bounds: Bounds(lower, upper) not found")
    lo = ast.parse(ast.unparse(args[0]).replace("bounds.inclusion_bounds.", "incl_"), mode="eval").body
    hi = ast.parse(ast.unparse(args[1]).replace("bounds.inclusion_bounds.", "incl_"), mode="eval").body
    out += ["/-- `_calculate_shifted_bounds`: the shifted inclusion bounds. -/\n"
            "def shiftedLower (incl_lower incl_upper op_power : Rat) : Rat :=\n"
            f"  {tr.expr(lo, env)}\n"
            "def shiftedUpper (incl_lower incl_upper op_power : Rat) : Rat :=\n"
            f"  {tr.expr(hi, env)}\n"]
    out += ["end Extracted.Proposal"]
    return "\n".join(out) + "\n"
