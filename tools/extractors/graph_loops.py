"""Traversal / selection logic of `component_graph.py` and of the power-formula generators -> Lean (C12, "model is source").

WHAT.  Unlike `graph.py` (which RUNS the anchored functions on scenario graphs and fits model parameters), this
extractor TRANSLATES them: a small symbolic interpreter executes the Python text of

  component_graph.py      is_grid_meter, is_pv_inverter / is_battery_inverter / is_ev_charger / is_chp,
                          is_*_meter, is_*_chain, dfs
  _formula_generator.py   _get_meter_fallback_components, _is_primary_fallback_pair, the per-component step of
                          _get_metric_fallback_components, _get_grid_component(_successors)
  generators              the conditions handed to dfs (consumer / non-consumer / producer / pv), _are_grid_meters,
                          and `generate` of Grid / Producer / Consumer (both branches) / Battery power formulas

on SYMBOLIC components and emits one Lean definition per function over the model's `Comp` (a node of the tree with its
place: `Frequenz/Model/Graph.lean`, section "The graph as the Python code sees it"):

  graph.successors(c.component_id) = c.succs      graph.predecessors(c.component_id) = c.preds
  graph.predecessors(<battery id>) = G.predsOfBat b      graph.components(...) = G.comps.filter …
  sets of components = lists, equal up to order; membership / dict keys by component id.

HOW.  Path-wise symbolic execution (every `if` on a symbolic condition forks; statements after it are executed on both
paths), private helpers / nested functions / lambdas / module-level helpers are inlined with parameter binding (keyword
arguments, defaults), bound methods and `getattr(graph, "<constant>")` are first-class values, class-level constant tables
are evaluated, loops over Python constants are unrolled.  A loop over a symbolic collection is SUMMARISED by what it
computes, not by how it is written:
  * boolean search loops (early `return`, flags, `break`/`else`, `r = r and p(x)`) — the body is a finite automaton over
    the truth values of the element tests; its outcome is computed for every set of letters that can occur and emitted as
    a combination of `l.all p`, `l.any p`, `l.isEmpty` (order-dependent loops raise);
  * `all(...)`, `any(...)`, comprehensions, `filter`/`map`, `sum(1 for …)`, `len` — the same normal forms;
  * accumulating loops (set union / add, builder pushes, dict entries) — `acc ++ l.flatMap contribution` provided the
    contribution does not depend on the accumulator (an overwritten accumulator depends on the iteration order: raise);
  * state-threading loops (the recursive call of `dfs` with its `visited` set) — a `foldl` over the successors.
`dfs` is recursive in Python and becomes a fuel-recursive Lean function (`Lemmas/GraphTie.lean` proves the fuel the
translation passes sufficient); an iterative `dfs` (`while pending:` with an explicit stack) becomes a fuel-recursive
worklist function `dfsLoop` (`GraphTie.work_spec` proves it finds the same set).  Results are put into canonical form
(negation normal form, Blake canonical form of Boolean functions, canonical order / polarity of tests, nested `if`s
with equal branches merged, bound variables numbered) so that behaviour-preserving rewrites give the same text.
`BatteryPowerFormula.generate` is translated for `allow_fallback=False` (which inverters are selected, the two error
conditions); it is not yet tied by proof.  Decorators other than staticmethod / classmethod / property / abstractmethod on any
translated function, attributes of `self` other than methods / `_config` / `_namespace` …, unknown calls, `while`
loops, … raise `py2lean.Unsupported`: what cannot be established is never ignored.
"""
from __future__ import annotations

import ast
import itertools
import pathlib
import sys

sys.path.insert(0, str(pathlib.Path(__file__).resolve().parent.parent))
from py2lean import Unsupported  # noqa: E402  pylint: disable=wrong-import-position

NAME = "GraphLoops"
GEN = "src/frequenz/sdk/timeseries/formula_engine/_formula_generators/"
CG = "src/frequenz/sdk/microgrid/component_graph.py"
SOURCES = [
    CG,
    GEN + "_formula_generator.py",
    GEN + "_simple_formula.py",
    GEN + "_grid_power_formula_base.py",
    GEN + "_grid_power_formula.py",
    GEN + "_consumer_power_formula.py",
    GEN + "_producer_power_formula.py",
    GEN + "_battery_power_formula.py",
    GEN + "_pv_power_formula.py",
    GEN + "_ev_charger_power_formula.py",
    GEN + "_chp_power_formula.py",
]

CATS = {"NONE": "none", "GRID": "grid", "METER": "meter", "INVERTER": "inverter", "BATTERY": "battery",
        "EV_CHARGER": "evCharger", "CHP": "chp"}
INVTYPES = {"NONE": "none", "BATTERY": "battery", "SOLAR": "solar", "HYBRID": "hybrid"}
NEUTRAL_DECORATORS = {"staticmethod", "classmethod", "property", "abstractmethod", "abc.abstractmethod", "override",
                      "typing.override", "final", "typing.final"}


def need(c: bool, what: str) -> None:
    if not c:
        raise Unsupported(what)


# ============================================================================================== IR
# expressions are tuples (hashable, structural equality); `ty(e)` gives the Lean type tag:
#   Bool Nat Cat InvType Comp LComp LNat CDict Pair(..) Fun Str
def K(t: str, text: str):
    return ("k", t, text)


TRUE, FALSE = K("Bool", "true"), K("Bool", "false")


def V(name: str, t: str):
    return ("v", name, t)


FIELD_TY = {"id": "Nat", "cat": "Cat", "typ": "InvType"}


def ty(e) -> str:  # noqa: C901
    tag = e[0]
    if tag in ("k", "v"):
        return e[1] if tag == "k" else e[2]
    if tag == "fld":
        return FIELD_TY[e[2]]
    if tag in ("eq", "not", "and", "or", "isempty", "leneq", "all", "any", "mem", "subset", "natcmp", "dhas"):
        return "Bool"
    if tag == "ite":
        return ty(e[2])
    if tag in ("fok", "ferr"):
        return "Formula"
    if tag in ("tnil", "tsingle", "tapp", "tmap", "tflat"):
        return "LTerm"
    if tag == "term":
        return "Term"
    if tag in ("pnil", "psingle", "papp", "pmap"):
        return "LPairNB"
    if tag in ("dictitems",):
        return "LPair"
    if tag in ("dictkeys",):
        return "LComp"
    if tag in ("fdmap",):
        return "FDict"
    if tag in ("fb", "fbnil", "fbof"):
        return "Fb"
    if tag in ("succs", "preds", "predsbat", "allcomps", "filter", "union", "single", "addset", "dget"):
        return "LComp" if tag != "filter" else ty(e[1])
    if tag == "nil":
        return e[1]
    if tag == "map":
        return e[3]
    if tag == "flatmap":
        return e[3]
    if tag in ("first", "optfirst", "last"):
        return "Nat" if ty(e[1]) == "LNat" else "Comp"
    if tag == "tail":
        return ty(e[1])
    if tag in ("droplast", "lapp", "dedup"):
        return ty(e[1])
    if tag in ("call", "app"):
        return e[3]
    if tag == "len":
        return "Nat"
    if tag == "proj":
        return e[3]
    if tag in ("dset", "daddto", "dadd"):
        return "CDict"
    if tag == "foldl":
        return ty(e[2])
    if tag == "tuple":
        return "Tuple"
    if tag == "lam":
        return "Fun"
    raise Unsupported(f"ty of {tag}")


def is_const(e) -> bool:
    return e[0] == "k"


def Not(a):
    if a == TRUE:
        return FALSE
    if a == FALSE:
        return TRUE
    if a[0] == "not":
        return a[1]
    if a[0] == "or":                # negation normal form: one canonical shape for De Morgan variants
        return And(*[Not(x) for x in a[1]])
    if a[0] == "and":
        return Or(*[Not(x) for x in a[1]])
    return ("not", a)


def _flat(tag: str, xs):
    out = []
    for x in xs:
        if x[0] == tag:
            out.extend(x[1])
        else:
            out.append(x)
    return out


def okey(e) -> str:
    """Canonical order of the operands of a commutative operator: cheap tests (fields) first, then by text with the
    bound-variable numbers blanked (so that the order does not depend on how many lambdas were created before)."""
    import re
    txt = re.sub(r"\b([xefhst]|st)\d+\b", "_", repr(e))
    rank = 0 if e[0] == "eq" or (e[0] == "not" and e[1][0] == "eq") else 1 if e[0] in ("isempty", "leneq") or (
        e[0] == "not" and e[1][0] in ("isempty", "leneq")) else 2
    return f"{rank}{txt}"


def And(*xs):
    ys = []
    for x in _flat("and", xs):
        if x == FALSE:
            return FALSE
        if x == TRUE or x in ys:
            continue
        if Not(x) in ys:
            return FALSE
        ys.append(x)
    if not ys:
        return TRUE
    return ys[0] if len(ys) == 1 else ("and", tuple(sorted(ys, key=okey)))


def Or(*xs):
    ys = []
    for x in _flat("or", xs):
        if x == TRUE:
            return TRUE
        if x == FALSE or x in ys:
            continue
        if Not(x) in ys:
            return TRUE
        ys.append(x)
    if not ys:
        return FALSE
    return ys[0] if len(ys) == 1 else ("or", tuple(sorted(ys, key=okey)))


def Eq(a, b):
    if a == b:
        return TRUE
    if is_const(a) and is_const(b):
        return FALSE          # distinct constants of an enum / distinct literals
    if is_const(a):
        a, b = b, a
    if ty(a) == "Bool":
        return a if b == TRUE else Not(a) if b == FALSE else ("eq", a, b)
    return ("eq", a, b)


def neg_count(e) -> int:
    if e[0] == "not":
        return 1
    if e[0] in ("and", "or"):
        return sum(neg_count(x) for x in e[1])
    return 0


def Ite(c, a, b):
    if c == TRUE:
        return a
    if c == FALSE:
        return b
    if a == b:
        return a
    if ty(a) == "Bool":
        if a == TRUE:
            return Or(c, b)
        if a == FALSE:
            return And(Not(c), b)
        if b == TRUE:
            return Or(Not(c), a)
        if b == FALSE:
            return And(c, a)
    if c[0] == "not":
        return Ite(c[1], b, a)
    nc = Not(c)
    if (neg_count(nc), okey(nc)) < (neg_count(c), okey(c)):      # canonical polarity of the test
        return Ite(nc, b, a)
    if b[0] == "ite" and b[2] == a:          # if c then A else (if c' then A else B)
        return Ite(Or(c, b[1]), a, b[3])
    if a[0] == "ite" and a[3] == b:          # if c then (if c' then A else B) else B
        return Ite(And(c, a[1]), a[2], b)
    if b[0] == "ite" and b[3] == a:          # if c then A else (if c' then B else A)  ->  if ¬c ∧ c' then B else A
        return Ite(And(Not(c), b[1]), b[2], a)
    if a[0] == "dset" and b[0] == "dset" and a[1] == b[1] and a[2] == b[2]:
        return ("dset", a[1], a[2], Ite(c, a[3], b[3]))         # same key on both paths
    if c[0] == "dhas" and a[0] == "dadd" and b[0] == "dset" and c[1:] == a[1:3] == b[1:3] and b[3] == ("single", a[3]):
        return ("daddto", a[1], a[2], a[3])                     # `if k in d: d[k].add(x) else: d[k] = {x}`
    return ("ite", c, a, b)


def Fld(e, f: str):
    need(ty(e) == "Comp", f".{f} of a {ty(e)}")
    return ("fld", e, f)


def Nil(t: str):
    return ("nil", t)


def IsEmpty(lst):
    if lst[0] == "nil":
        return TRUE
    if lst[0] in ("single", "addset"):
        return FALSE
    if lst[0] == "filter":          # no element passes  <=>  all fail
        return All(lst[1], ("lam", lst[2][1], Not(lst[2][2])))
    if lst[0] in ("map", "dedup"):
        return IsEmpty(lst[1])
    if lst[0] == "union":
        return And(IsEmpty(lst[1]), IsEmpty(lst[2]))
    return ("isempty", lst)


def LenEq(lst, k: int):
    if k == 0:
        return IsEmpty(lst)
    if lst[0] == "map":
        return LenEq(lst[1], k)
    return ("leneq", lst, k)


_fresh = itertools.count(1)


def fresh(prefix: str = "x") -> str:
    return f"{prefix}{next(_fresh)}"


def subst(e, name: str, val):  # noqa: C901
    """e[name := val] (binders are fresh names, so no capture)."""
    if not isinstance(e, tuple) or not e:
        return e
    if not isinstance(e[0], str):           # a tuple of expressions (call arguments, and/or operands)
        return tuple(subst(x, name, val) for x in e)
    if e[0] == "v":
        return val if e[1] == name else e
    if e[0] == "k":
        return e
    return rebuild(e[0], tuple(subst(x, name, val) for x in e[1:]))


def rebuild(tag: str, args: tuple):  # noqa: C901
    """Re-apply the smart constructors after a substitution."""
    if tag == "not":
        return Not(args[0])
    if tag == "and":
        return And(*args[0])
    if tag == "or":
        return Or(*args[0])
    if tag == "eq":
        return Eq(args[0], args[1])
    if tag == "ite":
        return Ite(*args)
    if tag == "isempty":
        return IsEmpty(args[0])
    if tag == "leneq":
        return LenEq(args[0], args[1])
    if tag == "all":
        return All(args[0], args[1])
    if tag == "any":
        return Any(args[0], args[1])
    if tag == "filter":
        return Filter(args[0], args[1])
    if tag == "union":
        return Union(args[0], args[1])
    return (tag,) + args


def free_in(e, name: str) -> bool:
    if not isinstance(e, tuple) or not e:
        return False
    if isinstance(e[0], str) and e[0] == "v":
        return e[1] == name
    if isinstance(e[0], str) and e[0] == "k":
        return False
    return any(free_in(x, name) for x in e)


def lam_apply(lam, arg):
    return subst(lam[2], lam[1], arg)


def All(lst, lam):
    body = blake(lam[2]) if "blake" in globals() else lam[2]
    lam = ("lam", lam[1], body)
    if body == TRUE or lst[0] == "nil":
        return TRUE
    if body[0] == "and":            # all (p ∧ q) = all p ∧ all q   (canonical: one atom per conjunct)
        return And(*[All(lst, ("lam", lam[1], b)) for b in body[1]])
    if not free_in(body, lam[1]):
        return Or(IsEmpty(lst), body)
    if lst[0] == "map" and ty(lst) in ("LComp", "LNat"):
        inner = lst[2]
        return All(lst[1], ("lam", inner[1], lam_apply(lam, inner[2])))
    if lst[0] == "filter":
        f = lst[2]
        return All(lst[1], ("lam", f[1], Or(Not(f[2]), lam_apply(lam, V(f[1], "Comp")))))
    if body[0] == "not" or body[0] == "or":
        # canonical polarity: quantify over the positive atom where there is exactly one literal
        pass
    return ("all", lst, lam)


def Any(lst, lam):
    body = lam[2]
    if body == FALSE or lst[0] == "nil":
        return FALSE
    # any p = ¬ all ¬p : ONE quantifier form in the output
    return Not(All(lst, ("lam", lam[1], Not(body))))


def Filter(lst, lam):
    if lam[2] == TRUE:
        return lst
    if lam[2] == FALSE or lst[0] == "nil":
        return Nil(ty(lst))
    if lst[0] == "filter":
        inner = lst[2]
        return ("filter", lst[1], ("lam", inner[1], And(inner[2], lam_apply(lam, V(inner[1], "Comp")))))
    return ("filter", lst, lam)


def Union(a, b):
    if a[0] == "nil":
        return b
    if b[0] == "nil":
        return a
    return ("union", a, b)


def Mem(x, lst):
    if lst[0] == "nil":
        return FALSE
    return ("mem", x, lst)


def Subset(a, b):
    if ty(a) == "LNat":
        x = V(fresh(), "Nat")
        return All(a, ("lam", x[1], ("mem", x, b)))
    x = V(fresh(), "Comp")
    return All(a, ("lam", x[1], Mem(x, b)))


def Map(lst, lam, t: str):
    if lst[0] == "nil":
        return Nil(t)
    return ("map", lst, lam, t)


# ============================================================================================== printing
def paren(s: str) -> str:
    return s if s.isidentifier() or (s.startswith("(") and _balanced(s)) or s.replace(".", "").isidentifier() else f"({s})"


def _balanced(s: str) -> bool:
    d = 0
    for i, ch in enumerate(s):
        d += ch == "("
        d -= ch == ")"
        if d == 0 and i < len(s) - 1:
            return False
    return True


def pr(e) -> str:  # noqa: C901
    tag = e[0]
    if tag == "k":
        return e[2]
    if tag == "v":
        return e[1]
    if tag == "fld":
        return f"{paren(pr(e[1]))}.{e[2]}"
    if tag == "not":
        return f"!{paren(pr(e[1]))}"
    if tag == "and":
        return " && ".join(paren(pr(x)) for x in e[1])
    if tag == "or":
        return " || ".join(paren(pr(x)) for x in e[1])
    if tag == "eq":
        return f"{paren(pr(e[1]))} == {paren(pr(e[2]))}"
    if tag == "ite":
        return f"if {pr(e[1])} then {pr(e[2])} else {pr(e[3])}"
    if tag == "succs":
        return f"{paren(pr(e[1]))}.succs"
    if tag == "preds":
        return f"{paren(pr(e[1]))}.preds"
    if tag == "predsbat":
        return f"G.predsOfBat {paren(pr(e[1]))}"
    if tag == "allcomps":
        return "G.comps"
    if tag in ("first", "optfirst") and ty(e[1]) == "LNat":
        return f"{paren(pr(e[1]))}.headD 0"
    if tag == "tail":
        return f"{paren(pr(e[1]))}.tail"
    if tag in ("first", "optfirst"):
        return f"firstComp {paren(pr(e[1]))}"
    if tag == "last":
        return f"lastComp {paren(pr(e[1]))}"
    if tag == "droplast":
        return f"{paren(pr(e[1]))}.dropLast"
    if tag == "lapp":
        return f"{paren(pr(e[1]))} ++ {paren(pr(e[2]))}"
    if tag == "dedup":
        return f"{paren(pr(e[1]))}.eraseDups"
    if tag == "isempty":
        return f"{paren(pr(e[1]))}.isEmpty"
    if tag == "leneq":
        return f"{paren(pr(e[1]))}.length == {e[2]}"
    if tag == "len":
        return f"{paren(pr(e[1]))}.length"
    if tag == "natcmp":
        return f"decide ({pr(e[2])} {e[1]} {pr(e[3])})"
    if tag in ("all", "any", "filter"):
        return f"{paren(pr(e[1]))}.{tag} {pr_lam(e[2])}"
    if tag == "map":
        return f"{paren(pr(e[1]))}.map {pr_lam(e[2])}"
    if tag == "flatmap":
        return f"{paren(pr(e[1]))}.flatMap {pr_lam(e[2])}"
    if tag == "union":
        return f"unionIds {paren(pr(e[1]))} {paren(pr(e[2]))}"
    if tag == "addset":
        return f"unionIds {paren(pr(e[1]))} [{pr(e[2])}]"
    if tag == "single":
        return f"[{pr(e[1])}]"
    if tag == "nil":
        return "[]"
    if tag == "mem":
        if ty(e[1]) == "Nat":
            return f"{paren(pr(e[2]))}.contains {paren(pr(e[1]))}"
        return f"memIds {paren(pr(e[1]))} {paren(pr(e[2]))}"
    if tag == "subset":
        return f"subsetIds {paren(pr(e[1]))} {paren(pr(e[2]))}"
    if tag == "call":
        return " ".join([e[1]] + [paren(pr(a)) for a in e[2]])
    if tag == "app":
        return " ".join([paren(pr(e[1]))] + [paren(pr(a)) for a in e[2]])
    if tag == "proj":
        return f"{paren(pr(e[1]))}.{e[2]}" if e[2] != "" else pr(e[1])
    if tag == "tuple":
        return "(" + ", ".join(pr(x) for x in e[1]) + ")"
    if tag == "lam":
        return pr_lam(e)
    if tag == "dset":
        return f"CDict.set {paren(pr(e[1]))} {paren(pr(e[2]))} {paren(pr(e[3]))}"
    if tag == "daddto":
        return f"CDict.addTo {paren(pr(e[1]))} {paren(pr(e[2]))} {paren(pr(e[3]))}"
    if tag == "dhas":
        return f"CDict.has {paren(pr(e[1]))} {paren(pr(e[2]))}"
    if tag == "foldl":
        return f"{paren(pr(e[1]))}.foldl {pr_lam(e[3])} {paren(pr(e[2]))}"
    if tag == "fok":
        return f"Except.ok {paren(pr(e[1]))}"
    if tag == "ferr":
        return f"Except.error Graph.GenErr.{e[1]}"
    if tag in ("tnil", "pnil", "fbnil"):
        return "[]"
    if tag == "tsingle":
        return f"[{pr(e[1])}]"
    if tag in ("tapp", "papp"):
        return f"{paren(pr(e[1]))} ++ {paren(pr(e[2]))}"
    if tag in ("tmap", "pmap"):
        return f"{paren(pr(e[1]))}.map {pr_lam(e[2])}"
    if tag == "tflat":
        return f"{paren(pr(e[1]))}.flatMap {pr_lam(e[2])}"
    if tag == "term":
        return f"(⟨{pr(e[1])}, {pr(e[2])}, {pr(e[3])}, {pr(e[4])}⟩ : Graph.Term)"
    if tag == "fb":
        return pr(e[1])
    if tag == "psingle":
        return f"[({pr(e[1])}, {pr(e[2])})]"
    if tag == "ppair":
        return f"({pr(e[1])}, {pr(e[2])})"
    if tag == "dget":
        return f"CDict.get {paren(pr(e[1]))} {paren(pr(e[2]))}"
    if tag == "fbof":
        return f"Graph.fbPairs {paren(pr(e[1]))}"
    if tag == "dictitems":
        return pr(e[1])
    if tag == "dictkeys":
        return f"{paren(pr(e[1]))}.map (·.1)"
    raise Unsupported(f"print {tag}")


def pr_lam(lam) -> str:
    if lam[0] != "lam":
        return paren(pr(lam))
    names = lam[1] if isinstance(lam[1], tuple) else (lam[1],)
    return "(fun " + " ".join(names) + " => " + pr(lam[2]) + ")"


# ============================================================================================== interpreter values
class Py:
    """A Python constant known at translation time (int, str, bool, None, tuple/list of values)."""

    def __init__(self, v):
        self.v = v

    def __repr__(self):
        return f"Py({self.v!r})"

    def __eq__(self, o):
        return isinstance(o, Py) and type(self.v) is type(o.v) and self.v == o.v

    def __hash__(self):
        return hash(("Py", repr(self.v)))


NONE = Py(None)


class Closure:
    def __init__(self, fn, env, self_val=None, name: str = ""):
        self.fn, self.env, self.self_val, self.name = fn, env, self_val, name


class Anchored:
    """Reference to a function that is emitted as its own Lean definition (called, not inlined)."""

    def __init__(self, key: str):
        self.key = key

    def __eq__(self, o):
        return isinstance(o, Anchored) and o.key == self.key

    def __hash__(self):
        return hash(self.key)


class GraphObj:
    """`self` of `_MicrogridComponentGraph` / `connection_manager.get().component_graph`."""


class ConnMgr:
    pass


class EnumNS:
    def __init__(self, kind: str):
        self.kind = kind


class ClassRef:
    def __init__(self, name: str):
        self.name = name


class GenSelf:
    """`self` of a formula generator: class name + symbolic config."""

    def __init__(self, cls: str, allow_fallback, component_ids, ids_given: bool):
        self.cls, self.allow_fallback, self.component_ids, self.ids_given = cls, allow_fallback, component_ids, ids_given


class ConfigObj:
    def __init__(self, gen: GenSelf):
        self.gen = gen


class Ref:
    """A mutable container on the symbolic heap."""

    def __init__(self, kind: str):
        self.kind = kind            # "set" | "dict" | "list" | "builder" | "pylist"


class Opaque:
    """Something only passed around (logger, channel registry, Power.from_watts …)."""

    def __init__(self, what: str = ""):
        self.what = what

    def __repr__(self):
        return f"Opaque({self.what})"


class State:
    def __init__(self, env: dict, heap: dict, facts: frozenset = frozenset()):
        self.env, self.heap, self.facts = env, heap, facts      # facts: Bool expressions known to hold on this path

    def copy(self) -> "State":
        return State(dict(self.env), dict(self.heap), self.facts)

    def assume(self, cond, pol: bool) -> "State":
        s = self.copy()
        s.facts = self.facts | frozenset(literals(cond, pol))
        return s

    def known(self, cond):
        """True / False if the path decides `cond`, else None."""
        if cond == TRUE:
            return True
        if cond == FALSE:
            return False
        if cond in self.facts:
            return True
        if Not(cond) in self.facts:
            return False
        if cond[0] == "and":
            ks = [self.known(c) for c in cond[1]]
            return False if False in ks else True if all(k is True for k in ks) else None
        if cond[0] == "or":
            ks = [self.known(c) for c in cond[1]]
            return True if True in ks else False if all(k is False for k in ks) else None
        if cond[0] == "not":
            k = self.known(cond[1])
            return None if k is None else not k
        return None


def literals(cond, pol: bool):
    """The literals that hold when `cond` has the truth value `pol`."""
    if cond[0] == "not":
        yield from literals(cond[1], not pol)
    elif cond[0] == "and" and pol:
        for c in cond[1]:
            yield from literals(c, True)
    elif cond[0] == "or" and not pol:
        for c in cond[1]:
            yield from literals(c, False)
    else:
        yield cond if pol else Not(cond)


# a tree: ("br", cond, then_tree, else_tree) | ("leaf", kind, payload, state)   kind: val|fall|ret|raise|break|continue
def leaf(kind: str, payload, st: State):
    return ("leaf", kind, payload, st)


def bind(tree, f, kinds=("val",)):
    if tree[0] == "br":
        return ("br", tree[1], bind(tree[2], f, kinds), bind(tree[3], f, kinds))
    if tree[1] in kinds:
        return f(tree[2], tree[3])
    return tree


def leaves(tree):
    if tree[0] == "br":
        yield from leaves(tree[2])
        yield from leaves(tree[3])
    else:
        yield tree


def branch(cond, t, f):
    if cond == TRUE:
        return t
    if cond == FALSE:
        return f
    return ("br", cond, t, f)


def as_bool(v):
    """Python truthiness of a value as an IR Bool (or a Py bool)."""
    if isinstance(v, Py):
        return TRUE if v.v else FALSE
    if isinstance(v, tuple):
        t = ty(v)
        if t == "Bool":
            return v
        if t in ("LComp", "LNat", "CDict", "LPair"):
            return Not(IsEmpty(v))
        if t == "Comp":
            return TRUE
    raise Unsupported(f"truth value of {v!r}")


# ============================================================================================== the interpreter
GRAPH_CLASS = "_MicrogridComponentGraph"
LEAVES = {"is_pv_inverter": "isPvInverter", "is_battery_inverter": "isBatteryInverter", "is_ev_charger": "isEvCharger",
          "is_chp": "isChp"}
METERS = {"is_pv_meter": "isPvMeter", "is_battery_meter": "isBatteryMeter", "is_ev_charger_meter": "isEvChargerMeter",
          "is_chp_meter": "isChpMeter"}
CHAINS = {"is_pv_chain": "isPvChain", "is_battery_chain": "isBatteryChain", "is_ev_charger_chain": "isEvChargerChain",
          "is_chp_chain": "isChpChain"}
GRAPH_ANCHORED = {"is_grid_meter": "isGridMeter", **LEAVES, **METERS, **CHAINS}
GEN_ANCHORED = {"_get_meter_fallback_components": "meterFallbackComponents",
                "_is_primary_fallback_pair": "isPrimaryFallbackPair",
                "_get_metric_fallback_components": "metricFallbackComponents"}
GEN_BASE = "FormulaGenerator"
EXC_KINDS = {"ComponentNotFound": "componentNotFound", "FormulaGenerationError": "formulaGenerationError"}
OPAQUE_NAMES = {"_logger", "logging", "Power", "ReactivePower", "Current", "ComponentMetricId", "Quantity", "QuantityT",
                "Component", "Connection", "abc", "Callable", "Iterable"}
BUILTINS = {"len", "all", "any", "set", "frozenset", "list", "tuple", "next", "iter", "filter", "map", "sum", "enumerate",
            "reversed", "sorted", "getattr", "isinstance", "bool", "dict", "zip", "print", "str", "int", "range", "id"}
MODULES = {"functools", "operator", "itertools", "sys"}


class Frame:
    _n = itertools.count()

    def __init__(self):
        self.id = next(Frame._n)


class Interp:  # pylint: disable=too-many-public-methods
    def __init__(self, repo: pathlib.Path):
        self.classes: dict[str, ast.ClassDef] = {}
        self.modfuncs: dict[str, ast.FunctionDef] = {}
        self.modconsts: dict[str, ast.expr] = {}
        for s in SOURCES:
            tree = ast.parse((repo / s).read_text())
            for st in tree.body:
                if isinstance(st, ast.ClassDef):
                    self.classes[st.name] = st
                elif isinstance(st, ast.FunctionDef):
                    self.modfuncs[st.name] = st
                elif isinstance(st, (ast.Assign, ast.AnnAssign)) and getattr(st, "value", None) is not None:
                    t = st.targets[0] if isinstance(st, ast.Assign) else st.target
                    if isinstance(t, ast.Name):
                        self.modconsts[t.id] = st.value
        need(GRAPH_CLASS in self.classes, f"class {GRAPH_CLASS} not found")
        self.depth = 0
        self.defs: dict[str, str] = {}          # lean name -> definition text (in emission order)
        self.in_progress: set[str] = set()

    # ------------------------------------------------------------------ class / method lookup
    def mro(self, cls: str) -> list[str]:
        out, todo = [], [cls]
        while todo:
            c = todo.pop(0)
            if c in out or c not in self.classes:
                continue
            out.append(c)
            for b in self.classes[c].bases:
                b = b.value if isinstance(b, ast.Subscript) else b
                if isinstance(b, ast.Name):
                    todo.append(b.id)
        return out

    def find_method(self, cls: str, name: str):
        for c in self.mro(cls):
            for s in self.classes[c].body:
                if isinstance(s, ast.FunctionDef) and s.name == name:
                    self.check_decorators(s, f"{c}.{name}")
                    return s
        return None

    def class_const(self, cls: str, name: str):
        for c in self.mro(cls):
            for s in self.classes[c].body:
                if isinstance(s, (ast.Assign, ast.AnnAssign)) and getattr(s, "value", None) is not None:
                    t = s.targets[0] if isinstance(s, ast.Assign) else s.target
                    if isinstance(t, ast.Name) and t.id == name:
                        return s.value
        return None

    @staticmethod
    def check_decorators(fn: ast.FunctionDef, what: str) -> None:
        for d in fn.decorator_list:
            n = ast.unparse(d.func if isinstance(d, ast.Call) else d)
            need(n in NEUTRAL_DECORATORS, f"{what}: decorator `{ast.unparse(d)}` changes what a call computes (not translated)")

    @staticmethod
    def is_static(fn: ast.FunctionDef) -> bool:
        return any(ast.unparse(d) == "staticmethod" for d in fn.decorator_list)

    # ------------------------------------------------------------------ expressions (CPS: k(value, state) -> tree)
    def ev(self, n: ast.expr, st: State, k):  # noqa: C901  pylint: disable=too-many-return-statements,too-many-branches
        if isinstance(n, ast.Constant):
            return k(Py(n.value), st)
        if isinstance(n, ast.Name):
            return k(self.lookup(n.id, st), st)
        if isinstance(n, ast.Attribute):
            return self.ev(n.value, st, lambda o, s: k(self.attr(o, n.attr, s), s))
        if isinstance(n, ast.Call):
            return self.ev_call(n, st, k)
        if isinstance(n, ast.Compare):
            return self.ev_compare(n, st, k)
        if isinstance(n, ast.BoolOp):
            return self.ev_boolop(n, st, k)
        if isinstance(n, ast.UnaryOp):
            if isinstance(n.op, ast.Not):
                return self.ev(n.operand, st, lambda v, s: k(self.neg(self.deref_truth(v, s)), s))
            if isinstance(n.op, ast.USub):
                return self.ev(n.operand, st, lambda v, s: k(Py(-self.py(v)), s))
            raise Unsupported(f"unary {ast.dump(n.op)}")
        if isinstance(n, ast.IfExp):
            def after_test(c, s):
                cb = as_bool(c)
                if cb == TRUE:
                    return self.ev(n.body, s, k)
                if cb == FALSE:
                    return self.ev(n.orelse, s, k)
                def both(a, s1):
                    def second(b, s2):
                        try:
                            return k(self.merge_val(cb, a, b), s2)
                        except Unsupported:
                            return self.fork(cb, s2, lambda t: k(a, t), lambda t: k(b, t))
                    return self.ev(n.orelse, s1, second)
                kn = s.known(cb)
                if kn is not None:
                    return self.ev(n.body if kn else n.orelse, s, k)
                if not self.is_boolish(n.body) or not self.is_boolish(n.orelse):
                    # a conditional expression that selects a collection / component is the `if` statement it abbreviates
                    return self.fork(cb, s, lambda t: self.ev(n.body, t, k), lambda t: self.ev(n.orelse, t, k))
                return self.ev(n.body, s, both)
            return self.ev(n.test, st, after_test)
        if isinstance(n, ast.NamedExpr):
            def bindit(v, s):
                s = s.copy()
                s.env[n.target.id] = v
                return k(v, s)
            return self.ev(n.value, st, bindit)
        if isinstance(n, ast.Tuple):
            return self.ev_seq(list(n.elts), st, lambda vs, s: k(Py(tuple(vs)), s))
        if isinstance(n, ast.List):
            return self.ev_seq(list(n.elts), st, lambda vs, s: self._mk_list(vs, s, k))
        if isinstance(n, ast.Set):
            return self.ev_seq(list(n.elts), st, lambda vs, s: self.mk_set(vs, s, k))
        if isinstance(n, ast.Dict):
            need(not n.keys, "non-empty dict literal")
            return self.new_ref("dict", Nil("CDict"), st, k)
        if isinstance(n, (ast.GeneratorExp, ast.ListComp, ast.SetComp)):
            return self.ev_comp(n, st, k)
        if isinstance(n, ast.Lambda):
            return k(self.mk_closure(n, st), st)
        if isinstance(n, ast.Subscript):
            return self.ev(n.value, st, lambda o, s: self.ev_subscript(o, n.slice, s, k))
        if isinstance(n, ast.JoinedStr):
            return k(Opaque("str"), st)
        if isinstance(n, ast.BinOp):
            return self.ev(n.left, st, lambda a, s: self.ev(n.right, s, lambda b, s2: self.binop(n.op, a, b, s2, k)))
        if isinstance(n, ast.Starred):
            raise Unsupported("starred expression outside a call")
        raise Unsupported(f"expression {type(n).__name__}")

    @staticmethod
    def is_boolish(n: ast.expr) -> bool:
        """syntactically a truth value (comparison, not, and/or of such, True/False, a call of a predicate `is_*`)"""
        if isinstance(n, ast.Constant):
            return isinstance(n.value, bool)
        if isinstance(n, ast.Compare):
            return True
        if isinstance(n, ast.UnaryOp) and isinstance(n.op, ast.Not):
            return True
        if isinstance(n, ast.BoolOp):
            return all(Interp.is_boolish(v) for v in n.values)
        if isinstance(n, ast.IfExp):
            return Interp.is_boolish(n.body) and Interp.is_boolish(n.orelse)
        if isinstance(n, ast.Call):
            f = n.func
            name = f.attr if isinstance(f, ast.Attribute) else f.id if isinstance(f, ast.Name) else ""
            return name.startswith(("is_", "_is_", "all", "any")) or name in ("bool",)
        return False

    def ev_seq(self, nodes: list, st: State, k, acc=None):
        acc = acc or []
        if not nodes:
            return k(acc, st)
        return self.ev(nodes[0], st, lambda v, s: self.ev_seq(nodes[1:], s, k, acc + [v]))

    @staticmethod
    def fork(cond, st: State, kt, kf):
        """Branch on a symbolic condition unless the path already decides it."""
        kn = st.known(cond)
        if kn is True:
            return kt(st)
        if kn is False:
            return kf(st)
        return ("br", cond, kt(st.assume(cond, True)), kf(st.assume(cond, False)))

    def _mk_list(self, vs, st, k):
        return self.new_ref("pylist", list(vs), st, k)

    def new_ref(self, kind: str, val, st: State, k):
        r = Ref(kind)
        st = st.copy()
        st.heap[r] = val
        return k(r, st)

    def mk_set(self, vs, st, k):
        """{a, b, …}: constants stay a Python tuple-set; components become a symbolic set."""
        if all(isinstance(v, tuple) and is_const(v) for v in vs) or all(isinstance(v, Py) for v in vs):
            return k(Py(frozenset(vs)), st)
        acc = Nil("LComp")
        for v in vs:
            need(isinstance(v, tuple) and ty(v) in ("Comp", "Nat"), f"set element {v!r}")
            acc = ("addset", acc, v) if acc[0] != "nil" else ("single", v)
        return self.new_ref("set", acc, st, k)

    def mk_closure(self, fn, st: State):
        return Closure(fn, None, st.env.get("self"), getattr(fn, "name", "<lambda>"))

    @staticmethod
    def py(v):
        need(isinstance(v, Py), f"a Python constant is needed, got {v!r}")
        return v.v

    def neg(self, v):
        if isinstance(v, Py):
            return Py(not v.v)
        if isinstance(v, Ref):
            raise Unsupported("not <container> (needs the heap)")
        return Not(as_bool(v))

    def merge_val(self, c, a, b):
        if isinstance(a, tuple) and isinstance(b, tuple):
            return Ite(c, a, b)
        if isinstance(a, Py) and isinstance(b, Py) and isinstance(a.v, bool) and isinstance(b.v, bool):
            return Ite(c, TRUE if a.v else FALSE, TRUE if b.v else FALSE)
        if isinstance(a, Py) and isinstance(a.v, bool) and isinstance(b, tuple):
            return Ite(c, TRUE if a.v else FALSE, b)
        if isinstance(b, Py) and isinstance(b.v, bool) and isinstance(a, tuple):
            return Ite(c, a, TRUE if b.v else FALSE)
        if a == b:
            return a
        raise Unsupported(f"cannot merge {a!r} / {b!r}")

    # ------------------------------------------------------------------ names and attributes
    def lookup(self, name: str, st: State):  # noqa: C901
        if name in st.env:
            return st.env[name]
        if name == "ComponentCategory":
            return EnumNS("Cat")
        if name == "InverterType":
            return EnumNS("InvType")
        if name == "connection_manager":
            return ConnMgr()
        if name in self.modfuncs:
            self.check_decorators(self.modfuncs[name], name)
            return Closure(self.modfuncs[name], {}, None, name)
        if name in self.classes or name in EXC_KINDS or name in ("FallbackFormulaMetricFetcher", "FormulaGeneratorConfig",
                                                                 "ResampledFormulaBuilder", "ValueError", "RuntimeError",
                                                                 "KeyError", "StopIteration", "Exception"):
            return ClassRef(name)
        if name == "NON_EXISTING_COMPONENT_ID":
            need(name in self.modconsts and ast.unparse(self.modconsts[name]) == "sys.maxsize",
                 "NON_EXISTING_COMPONENT_ID is no longer sys.maxsize")
            return K("Nat", "nonExistingComponentId")
        if name in self.modconsts:
            v = self.modconsts[name]
            if isinstance(v, ast.Call) and ast.unparse(v).startswith("logging.getLogger"):
                return Opaque(name)
            return self.const_eval(v)
        if name in OPAQUE_NAMES:
            return Opaque(name)
        if name in BUILTINS:
            return ("builtin", name)
        if name in MODULES:
            return ("module", name)
        if name in ("True", "False", "None"):
            return Py({"True": True, "False": False, "None": None}[name])
        raise Unsupported(f"unknown name `{name}`")

    def const_eval(self, n: ast.expr):
        """A class-level / module-level constant: literals, tuples of literals, enum members."""
        out = []
        tree = self.ev(n, State({}, {}), lambda v, s: leaf("val", (v, s), s))
        need(tree[0] == "leaf", "constant is not constant")
        v, s = tree[2]
        if isinstance(v, Ref):
            need(v.kind == "pylist", "constant container")
            return Py(tuple(s.heap[v]))
        del out
        return v

    def attr(self, o, name: str, st: State):  # noqa: C901  pylint: disable=too-many-return-statements,too-many-branches
        if isinstance(o, tuple) and o and o[0] in ("dslot", "built", "cfg", "threaded", "enumerate", "exc"):
            return ("meth", o, name)
        if isinstance(o, tuple) and o and o[0] == "modattr":
            return ("modattr", o[1] + "." + o[2], name)
        if isinstance(o, tuple) and o[0] not in ("builtin", "module", "prim", "meth", "pmeth") and ty(o) == "Comp":
            if name == "component_id":
                return Fld(o, "id")
            if name == "category":
                return Fld(o, "cat")
            if name == "type":
                return Fld(o, "typ")
            raise Unsupported(f"component attribute .{name}")
        if isinstance(o, EnumNS):
            table = CATS if o.kind == "Cat" else INVTYPES
            need(name in table, f"unknown {o.kind} member {name}")
            return K(o.kind, f"{o.kind}.{table[name]}")
        if isinstance(o, GraphObj):
            if name in GRAPH_ANCHORED:
                need(self.find_method(GRAPH_CLASS, name) is not None, f"{name} missing")
                return Anchored(name)
            if name in ("successors", "predecessors", "components", "dfs"):
                return ("prim", name)
            fn = self.find_method(GRAPH_CLASS, name)
            need(fn is not None, f"graph attribute .{name} is not a method (state carried by the graph object is not modelled)")
            return Closure(fn, {}, None if self.is_static(fn) else o, name)
        if isinstance(o, GenSelf):
            if name == "_config":
                return ConfigObj(o)
            if name in ("_namespace", "_channel_registry", "_resampler_subscription_sender"):
                return Opaque(name)
            c = self.class_const(o.cls, name)
            if c is not None:
                return self.const_eval(c)
            fn = self.find_method(o.cls, name)
            need(fn is not None, f"generator attribute .{name}")
            if name in GEN_ANCHORED:
                return Anchored(name)
            return Closure(fn, {}, None if self.is_static(fn) else o, name)
        if isinstance(o, ConfigObj):
            if name == "allow_fallback":
                return o.gen.allow_fallback
            if name == "component_ids":
                return o.gen.component_ids
            raise Unsupported(f"config attribute .{name}")
        if isinstance(o, ConnMgr):
            if name == "get":
                return ("pmeth", "connmgr.get")
            if name == "component_graph":
                return GraphObj()
            raise Unsupported(f"connection_manager.{name}")
        if isinstance(o, Opaque):
            return Opaque(f"{o.what}.{name}")
        if isinstance(o, Ref):
            return ("meth", o, name)
        if isinstance(o, tuple) and o[0] == "module":
            return ("modattr", o[1], name)
        if isinstance(o, tuple) and o[0] == "modattr":
            return ("modattr", o[1] + "." + o[2], name)
        if isinstance(o, tuple) and o[0] not in ("builtin", "prim", "meth", "pmeth", "modattr"):
            return ("meth", o, name)          # method of an immutable symbolic collection
        if isinstance(o, Py):
            return ("meth", o, name)
        if isinstance(o, ClassRef):
            return ("clsattr", o.name, name)
        raise Unsupported(f"attribute .{name} of {o!r}")

    # ------------------------------------------------------------------ calls
    def ev_call(self, n: ast.Call, st: State, k):
        def with_callee(f, s):
            pos_nodes = list(n.args)
            kw_nodes = [(kw.arg, kw.value) for kw in n.keywords]
            need(all(a is not None for a, _ in kw_nodes), "**kwargs")

            def with_pos(vals, s2):
                # expand *args given as Python lists / tuples
                flat = []
                for node, v in zip(pos_nodes, vals):
                    if isinstance(node, ast.Starred):
                        flat.append(("star", v))
                    else:
                        flat.append(v)
                return self.ev_seq([v for _, v in kw_nodes], s2,
                                   lambda kvs, s3: self.call(f, flat, dict(zip([a for a, _ in kw_nodes], kvs)), s3, k))
            return self.ev_seq([a.value if isinstance(a, ast.Starred) else a for a in pos_nodes], s, with_pos)
        return self.ev(n.func, st, with_callee)

    def freeze(self, v, st: State):
        """A closure handed to someone else keeps the variables of its defining frame as they are now."""
        if isinstance(v, Closure) and v.env is None:
            return Closure(v.fn, dict(st.env), v.self_val, v.name)
        return v

    def call(self, f, args: list, kwargs: dict, st: State, k):  # noqa: C901  pylint: disable=too-many-return-statements,too-many-branches
        if isinstance(f, Closure):
            return self.inline(f, args, kwargs, st, k)
        if isinstance(f, Anchored):
            return self.call_anchored(f, args, kwargs, st, k)
        if isinstance(f, ClassRef):
            return self.construct(f.name, args, kwargs, st, k)
        if isinstance(f, Opaque):
            return k(Opaque(f.what + "()"), st)
        if isinstance(f, tuple):
            if f[0] == "builtin":
                return self.builtin(f[1], args, kwargs, st, k)
            if f[0] == "prim":
                return self.prim(f[1], args, kwargs, st, k)
            if f[0] == "pmeth" and f[1] == "connmgr.get":
                return k(ConnMgr(), st)
            if f[0] == "meth":
                return self.method(f[1], f[2], args, kwargs, st, k)
            if f[0] == "modattr":
                return self.modcall(f[1], f[2], args, kwargs, st, k)
            if f[0] == "lam":          # an IR function (parameter `condition` of dfs)
                need(len(args) == 1 and not kwargs, "call of a function parameter")
                return k(lam_apply(f, args[0]), st)
            if f[0] == "v" and f[2] == "Fun":
                need(len(args) == 1 and not kwargs, "call of a function parameter")
                return k(("app", f, (args[0],), "Bool"), st)
            if f[0] == "clsattr":
                raise Unsupported(f"call of {f[1]}.{f[2]}")
        raise Unsupported(f"call of {f!r}")

    def inline(self, c: Closure, args: list, kwargs: dict, st: State, k):
        need(self.depth < 12, f"inlining too deep at {c.name} (recursion is only translated for dfs)")
        fn = c.fn
        a = fn.args
        need(not a.vararg and not a.kwarg and not a.posonlyargs, f"{c.name}: *args/**kwargs")
        params = [p.arg for p in a.args]
        env = dict(c.env) if c.env is not None else dict(st.env)
        if c.self_val is not None and not isinstance(fn, ast.Lambda) and params and params[0] == "self":
            env["self"] = c.self_val
            params = params[1:]
        need(not any(isinstance(x, tuple) and x and x[0] == "star" for x in args), f"{c.name}: *args at an inlined call")
        need(len(args) <= len(params), f"{c.name}: too many arguments")
        bound = {}
        for p, v in zip(params, args):
            bound[p] = self.freeze(v, st)
        defaults = dict(zip(params[len(params) - len(a.defaults):], a.defaults))
        for kw in a.kwonlyargs:
            params.append(kw.arg)
        defaults.update({kw.arg: d for kw, d in zip(a.kwonlyargs, a.kw_defaults) if d is not None})
        for name, v in kwargs.items():
            need(name in params and name not in bound, f"{c.name}: unexpected keyword {name}")
            bound[name] = self.freeze(v, st)
        for p in params:
            if p not in bound:
                need(p in defaults, f"{c.name}: missing argument {p}")
                bound[p] = self.const_eval(defaults[p])
        env.update(bound)
        caller_env = st.env
        cs = State(env, st.heap, st.facts)
        self.depth += 1
        try:
            if isinstance(fn, ast.Lambda):
                tree = self.ev(fn.body, cs, lambda v, s: leaf("ret", v, s))
            else:
                tree = self.ex(self.body(fn), 0, cs, lambda s: leaf("ret", NONE, s))
        finally:
            self.depth -= 1

        def back(v, s):
            return k(v, State(caller_env, s.heap, s.facts))
        return bind(tree, back, kinds=("ret",))

    @staticmethod
    def body(fn: ast.FunctionDef) -> list:
        b = list(fn.body)
        if b and isinstance(b[0], ast.Expr) and isinstance(b[0].value, ast.Constant) and isinstance(b[0].value.value, str):
            b = b[1:]
        return b

    def lam_of(self, f, st: State, arg_ty: str = "Comp"):
        """A callable value as an IR lambda Comp -> Bool (by executing it on a fresh variable)."""
        if isinstance(f, tuple) and f[0] == "lam":
            return f
        if isinstance(f, tuple) and f[0] == "v" and f[2] == "Fun":
            return f
        x = V(fresh(), arg_ty)
        tree = self.call(f, [x], {}, st, lambda v, s: leaf("val", v, s))
        return ("lam", x[1], blake(self.tree_value(tree, "Bool")))

    def tree_value(self, tree, want: str):
        """A pure result tree as one expression."""
        if tree[0] == "br":
            return Ite(tree[1], self.tree_value(tree[2], want), self.tree_value(tree[3], want))
        need(tree[1] in ("val", "ret"), f"a value was expected, the code {tree[1]}s")
        v = tree[2]
        if want == "Bool":
            return as_bool(v)
        need(isinstance(v, tuple), f"symbolic value expected, got {v!r}")
        return v

    # ------------------------------------------------------------------ graph primitives
    def prim(self, name: str, args: list, kwargs: dict, st: State, k):  # noqa: C901
        if name in ("successors", "predecessors"):
            need(len(args) == 1 and not kwargs, f"{name}: arguments")
            a = args[0]
            need(isinstance(a, tuple), f"{name}({a!r})")
            if a[0] == "fld" and a[2] == "id":
                return k(("succs", a[1]) if name == "successors" else ("preds", a[1]), st)
            need(name == "predecessors" and ty(a) == "Nat", f"{name} of a raw id")
            return k(("predsbat", a), st)
        if name == "components":
            ids = kwargs.get("component_ids", args[0] if args else None)
            cats = kwargs.get("component_categories", args[1] if len(args) > 1 else None)
            x = V(fresh(), "Comp")
            conds = []
            if ids is not None and ids != NONE:
                idl = self.as_list(ids, st)
                need(ty(idl) == "LNat", "components(ids): ids")
                if idl[0] == "map" and ty(idl[1]) == "LComp" and idl[2][2] == Fld(V(idl[2][1], "Comp"), "id") and cats in (None, NONE):
                    # looking up the ids of components of this graph returns those components (ids are the node keys)
                    return k(idl[1], st)
                conds.append(("mem", Fld(x, "id"), idl))
            if cats is not None and cats != NONE:
                cs = self.py(cats) if isinstance(cats, Py) else None
                need(cs is not None, "components(component_categories=…): not a constant set")
                conds.append(Or(*[Eq(Fld(x, "cat"), c) for c in sorted(cs, key=repr)]))
            return k(Filter(("allcomps",), ("lam", x[1], And(*conds))), st)
        if name == "dfs":
            need(len(args) == 3 and not kwargs, "dfs: arguments")
            start, vis, cond = args
            need(isinstance(vis, Ref) and vis.kind == "set", "dfs: visited is not a set")
            lam = self.lam_of(self.freeze(cond, st), st)
            self.ensure_dfs()
            fuel = V("fuel", "Nat") if getattr(self, "in_dfs", False) else K("Nat", "G.fuel")
            call = ("call", "dfs", (fuel, start, self.fix_nil(st.heap[vis], "LComp"), lam), "Pair")
            st = st.copy()
            st.heap[vis] = ("proj", call, 1, "LComp")
            return k(("proj", call, 2, "LComp"), st)
        raise Unsupported(f"graph.{name}")

    @staticmethod
    def is_collection(v) -> bool:
        if isinstance(v, Ref):
            return v.kind in ("set", "list")
        if not (isinstance(v, tuple) and v and isinstance(v[0], str)):
            return False
        if v[0] in ("dslot", "dictkeys"):
            return True
        if v[0] in ("builtin", "prim", "meth", "module", "modattr", "pmeth", "clsattr"):
            return False
        try:
            return ty(v).startswith("L")
        except Unsupported:
            return False

    def as_list(self, v, st: State):
        """The symbolic collection behind a value (reference, symbolic list, constant)."""
        if isinstance(v, tuple) and v and v[0] == "dslot" and len(v) == 3:
            return ("dget", st.heap[v[1]], v[2])
        if isinstance(v, Ref):
            need(v.kind in ("set", "list"), f"collection expected, got {v.kind}")
            return st.heap[v]
        if isinstance(v, tuple) and v[0] == "dictkeys":
            e = V(fresh("e"), "PairCL")
            return ("map", ("dictitems", v[1]), ("lam", e[1], ("proj", e, 1, "Comp")), "LComp")
        if isinstance(v, tuple) and v[0] not in ("builtin", "prim", "meth", "module", "modattr", "pmeth", "clsattr") \
                and ty(v).startswith("L"):
            return v
        raise Unsupported(f"collection expected, got {v!r}")

    # ------------------------------------------------------------------ builtins
    def builtin(self, name: str, args: list, kwargs: dict, st: State, k):  # noqa: C901  pylint: disable=too-many-return-statements,too-many-branches,too-many-statements
        if name == "len":
            (a,) = args
            if isinstance(a, Py):
                return k(Py(len(a.v)), st)
            if isinstance(a, Ref) and a.kind == "pylist":
                return k(Py(len(st.heap[a])), st)
            return k(("len", self.as_list(a, st)), st)
        if name in ("all", "any"):
            (a,) = args
            q = All if name == "all" else Any
            if isinstance(a, Py) or (isinstance(a, Ref) and a.kind == "pylist"):
                items = list(a.v) if isinstance(a, Py) else st.heap[a]
                bs = [as_bool(x) for x in items]
                return k(And(*bs) if name == "all" else Or(*bs), st)
            lst = self.as_list(a, st)
            if lst[0] == "map" and ty(lst) == "LBool":
                return k(q(lst[1], lst[2]), st)
            raise Unsupported(f"{name}() of {lst!r}")
        if name in ("set", "frozenset", "list", "tuple", "iter"):
            if not args:
                return self.new_ref("set" if name in ("set", "frozenset") else "list", Nil("LComp?"), st, k)
            (a,) = args
            if isinstance(a, Py):
                return k(a, st)
            if isinstance(a, Ref) and a.kind == "pylist":
                return k(a, st) if name != "tuple" else k(Py(tuple(st.heap[a])), st)
            if isinstance(a, tuple) and a[0] == "enumerate":
                return k(a, st)
            lst = self.as_list(a, st)
            if name == "iter":
                return k(lst, st)
            return self.new_ref("set" if name in ("set", "frozenset") else "list", lst, st, k)
        if name == "next":
            a = args[0]
            default = args[1] if len(args) > 1 else None
            if isinstance(a, tuple) and a[0] == "pyiter":
                raise Unsupported("next() of a constant iterator")
            lst = self.as_list(a, st)
            if default is None:
                return k(("first", lst), st)
            need(default == NONE, "next(it, default) with a default other than None")
            return k(("optfirst", lst), st)
        if name == "filter":
            f, a = args
            lst = self.as_list(a, st)
            if f == NONE:
                raise Unsupported("filter(None, …)")
            return k(Filter(lst, self.lam_of(self.freeze(f, st), st)), st)
        if name == "map":
            f, a = args
            lst = self.as_list(a, st)
            x = V(fresh(), "Comp" if ty(lst) == "LComp" else "Nat")
            tree = self.call(self.freeze(f, st), [x], {}, st, lambda v, s: leaf("val", v, s))
            body = self.tree_any(tree)
            return k(Map(lst, ("lam", x[1], body), self.list_ty(body)), st)
        if name == "sum":
            a = args[0]
            lst = self.as_list(a, st)
            need(lst[0] == "map" and lst[2][2] == K("Nat", "1"), "sum() of something other than ones")
            return k(("len", lst[1]), st)
        if name == "enumerate":
            (a,) = args
            if isinstance(a, Ref) and a.kind == "dict":
                return k(("enumerate", ("dictkeys", st.heap[a])), st)
            if isinstance(a, tuple) and a[0] in ("dictitems", "dictkeys"):
                return k(("enumerate", a), st)
            return k(("enumerate", self.as_list(a, st)), st)
        if name == "reversed":
            (a,) = args
            return k(Py(tuple(reversed(self.py(a)))), st)
        if name == "sorted":
            a = args[0]
            if isinstance(a, Py):
                need(not kwargs, "sorted(constant, key=…)")
                return k(Py(tuple(sorted(a.v, key=repr))), st)
            # the order of a set of components is immaterial to everything that is translated
            return self.new_ref("list", self.as_list(a, st), st, k)
        if name == "getattr":
            need(len(args) == 2, "getattr with a default")
            return k(self.attr(args[0], self.py(args[1]), st), st)
        if name == "bool":
            return k(as_bool(self.deref_truth(args[0], st)), st)
        if name == "isinstance":
            raise Unsupported("isinstance")
        if name == "dict":
            need(not args and not kwargs, "dict(...)")
            return self.new_ref("dict", Nil("CDict"), st, k)
        if name == "zip":
            need(all(isinstance(a, Py) for a in args), "zip of symbolic collections")
            return k(Py(tuple(Py(t) for t in zip(*[a.v for a in args]))), st)
        raise Unsupported(f"builtin {name}")

    def deref_truth(self, v, st: State):
        if isinstance(v, Ref):
            if v.kind == "pylist":
                return Py(bool(st.heap[v]))
            return st.heap[v]
        return v

    @staticmethod
    def list_ty(body) -> str:
        t = ty(body)
        return {"Comp": "LComp", "Nat": "LNat", "Bool": "LBool", "LComp": "LLComp", "Tuple": "LTuple"}.get(t, "L" + t)

    def tree_any(self, tree):
        if tree[0] == "br":
            return Ite(tree[1], self.tree_any(tree[2]), self.tree_any(tree[3]))
        need(tree[1] in ("val", "ret"), f"a value was expected, the code {tree[1]}s")
        v = tree[2]
        if isinstance(v, Py) and isinstance(v.v, bool):
            return TRUE if v.v else FALSE
        if isinstance(v, Py) and isinstance(v.v, int):
            return K("Nat", str(v.v))
        if isinstance(v, Ref):
            return tree[3].heap[v]
        need(isinstance(v, tuple), f"symbolic value expected, got {v!r}")
        return v

    def modcall(self, mod: str, name: str, args: list, kwargs: dict, st: State, k):
        if (mod, name) == ("functools", "reduce"):
            f, it = args[0], args[1]
            init = args[2] if len(args) > 2 else None
            lst = self.as_list(it, st)
            need(init is not None, "reduce without an initial value")
            need(f == ("modattr", "operator", "or_") or self.is_union_fn(f, st), "functools.reduce with a function other than set union")
            need(ty(lst) == "LLComp" and lst[0] == "map", "functools.reduce over something other than sets")
            acc = self.as_list(init, st)
            need(acc[0] == "nil", "reduce: initial value is not the empty set")
            return self.new_ref("set", ("flatmap", lst[1], lst[2], "LComp"), st, k)
        if (mod, name) == ("itertools.chain", "from_iterable"):
            (a,) = args
            lst = self.as_list(a, st)
            need(lst[0] == "map" and ty(lst) == "LLComp", "chain.from_iterable over something other than sets of components")
            return k(("flatmap", lst[1], lst[2], "LComp"), st)
        raise Unsupported(f"{mod}.{name}")

    def is_union_fn(self, f, st: State) -> bool:
        if f == ("clsattr", "set", "union"):
            return True
        if isinstance(f, Closure):
            a, b = V(fresh(), "LComp"), V(fresh(), "LComp")
            try:
                tree = self.call(f, [a, b], {}, st, lambda v, s: leaf("val", (v, s), s))
                if tree[0] == "leaf":
                    v, s = tree[2]
                    v = s.heap[v] if isinstance(v, Ref) else v
                    return v == ("union", a, b)
            except Unsupported:
                return False
        return False

    # ------------------------------------------------------------------ methods of collections
    def method(self, o, name: str, args: list, kwargs: dict, st: State, k):  # noqa: C901  pylint: disable=too-many-return-statements,too-many-branches,too-many-statements
        if isinstance(o, Ref) and o.kind == "builder":
            return self.builder_method(o, name, args, kwargs, st, k)
        need(not kwargs, f".{name}(**kwargs)")
        if isinstance(o, Py):
            if isinstance(o.v, (tuple, frozenset)) and name in ("__contains__",):
                return k(Py(args[0] in o.v), st)
            raise Unsupported(f"method .{name} of a constant")
        if isinstance(o, Ref):
            cur = st.heap[o]
            if o.kind == "pylist":
                if name == "append":
                    st = st.copy()
                    st.heap[o] = cur + [args[0]]
                    return k(NONE, st)
                raise Unsupported(f"list.{name}")
            if o.kind == "list" and name in ("pop", "extend", "append") and getattr(self, "in_while", 0):
                need(not (name == "pop" and args), "list.pop(i)")
                st = st.copy()
                if name == "pop":
                    st.heap[o] = ("droplast", cur)
                    return k(("last", cur), st)
                add = ("single", args[0]) if name == "append" else self.as_list(args[0], st)
                st.heap[o] = ("lapp", cur, add)
                return k(NONE, st)
            if o.kind in ("set", "list"):
                if name in ("add", "append"):
                    (x,) = args
                    need(isinstance(x, tuple), f".{name}({x!r})")
                    st = st.copy()
                    st.heap[o] = self.add_elem(cur, x, dedup=o.kind == "set")
                    return k(NONE, st)
                if name in ("update", "extend"):
                    st = st.copy()
                    for a in args:
                        st.heap[o] = self.union(st.heap[o], self.as_list(a, st))
                    return k(NONE, st)
                if name == "union":
                    acc = cur
                    for a in args:
                        if isinstance(a, tuple) and a[0] == "star" and isinstance(a[1], tuple) and a[1][0] == "threaded":
                            acc = self.union(acc, a[1][1])
                        elif isinstance(a, tuple) and a[0] == "star":
                            inner = self.as_list(a[1], st)
                            need(ty(inner) == "LLComp" and inner[0] == "map", "set().union(*x): x is not a list of sets")
                            acc = self.union(acc, ("flatmap", inner[1], inner[2], "LComp"))
                        else:
                            acc = self.union(acc, self.as_list(a, st))
                    return self.new_ref("set", acc, st, k)
                if name == "clear":
                    st = st.copy()
                    st.heap[o] = Nil(ty(cur))
                    return k(NONE, st)
                return self.method(cur, name, args, kwargs, st, k)
            if o.kind == "dict":
                return self.dict_method(o, name, args, st, k)
            if o.kind == "builder":
                return self.builder_method(o, name, args, kwargs, st, k)
            raise Unsupported(f"method .{name} of a {o.kind}")
        # immutable symbolic collection
        lst = o
        if name == "issubset":
            return k(Subset(lst, self.as_list(args[0], st)), st)
        if name == "issuperset":
            return k(Subset(self.as_list(args[0], st), lst), st)
        if name == "union":
            acc = lst
            for a in args:
                acc = self.union(acc, self.as_list(a, st))
            return self.new_ref("set", acc, st, k)
        if name == "pop":
            return k(("first", lst), st)
        if name == "copy":
            return self.new_ref("set", lst, st, k)
        if name == "isdisjoint":
            x = V(fresh(), "Comp")
            return k(All(lst, ("lam", x[1], Not(Mem(x, self.as_list(args[0], st))))), st)
        raise Unsupported(f"method .{name} of a symbolic collection")

    @staticmethod
    def fix_nil(cur, t: str):
        return Nil(t) if cur == ("nil", "LComp?") else cur

    def add_elem(self, cur, x, dedup: bool = True):
        t = "LComp" if ty(x) == "Comp" else "LNat" if ty(x) == "Nat" else None
        need(t is not None, f"element of type {ty(x)}")
        cur = self.fix_nil(cur, t)
        if cur[0] == "nil":
            return ("single", x)
        return ("addset", cur, x)

    def union(self, a, b):
        if a == ("nil", "LComp?"):
            a = Nil(ty(b))
        if b == ("nil", "LComp?"):
            return a
        return Union(a, b)

    # ------------------------------------------------------------------ comparisons / boolean operators
    def ev_compare(self, n: ast.Compare, st: State, k):
        operands = [n.left] + list(n.comparators)

        def done(vals, s):
            parts = []
            for op, a, b in zip(n.ops, vals, vals[1:]):
                parts.append(self.compare(op, a, b, s))
            if all(isinstance(p, Py) for p in parts):
                return k(Py(all(p.v for p in parts)), s)
            return k(And(*[as_bool(p) for p in parts]), s)
        return self.ev_seq(operands, st, done)

    def compare(self, op, a, b, st: State):  # noqa: C901  pylint: disable=too-many-return-statements,too-many-branches
        if isinstance(op, (ast.Is, ast.IsNot)):
            neg = isinstance(op, ast.IsNot)
            if a == NONE or b == NONE:
                other = b if a == NONE else a
                if isinstance(other, tuple) and other[0] == "optfirst":
                    r = IsEmpty(other[1])
                    return Not(r) if neg else r
                isnone = other == NONE
                return Py(isnone != neg)
            r = self.equal(a, b, st)
            return self.neg(r) if neg else r
        if isinstance(op, (ast.Eq, ast.NotEq)):
            r = self.equal(a, b, st)
            return self.neg(r) if isinstance(op, ast.NotEq) else r
        if isinstance(op, (ast.In, ast.NotIn)):
            r = self.contains(b, a, st)
            return self.neg(r) if isinstance(op, ast.NotIn) else r
        if isinstance(op, (ast.Lt, ast.LtE, ast.Gt, ast.GtE)):
            if isinstance(a, Py) and isinstance(b, Py):
                return Py({ast.Lt: a.v < b.v, ast.LtE: a.v <= b.v, ast.Gt: a.v > b.v, ast.GtE: a.v >= b.v}[type(op)])
            sym = {ast.Lt: "<", ast.LtE: "<=", ast.Gt: ">", ast.GtE: ">="}[type(op)]
            if self.is_collection(a) and self.is_collection(b):
                # set comparison: `a <= b` is `a.issubset(b)`, `a < b` the proper subset
                la, lb = self.as_list(a, st), self.as_list(b, st)
                if sym in (">", ">="):
                    la, lb = lb, la
                if sym in ("<=", ">="):
                    return Subset(la, lb)
                return And(Subset(la, lb), Not(Subset(lb, la)))
            return self.natcmp(sym, a, b)
        raise Unsupported(f"comparison {type(op).__name__}")

    def equal(self, a, b, st: State):
        if isinstance(a, Ref) and a.kind in ("set", "list"):
            a = self.fix_nil(st.heap[a], "LComp")
        if isinstance(b, Ref) and b.kind in ("set", "list"):
            b = self.fix_nil(st.heap[b], "LComp")
        if isinstance(a, tuple) and isinstance(b, tuple) and a and b and isinstance(a[0], str) and isinstance(b[0], str):
            if b[0] == "nil" and ty(a).startswith("L"):
                return IsEmpty(a)
            if a[0] == "nil" and ty(b).startswith("L"):
                return IsEmpty(b)
        if isinstance(a, Py) and isinstance(b, Py) and isinstance(a.v, tuple) and isinstance(b.v, tuple):
            if len(a.v) != len(b.v):
                return Py(False)
            parts = [self.equal(x, y, st) for x, y in zip(a.v, b.v)]
            if all(isinstance(q, Py) for q in parts):
                return Py(all(q.v for q in parts))
            return And(*[as_bool(q) for q in parts])
        if isinstance(a, Py) and isinstance(b, Py):
            return Py(a == b)
        if isinstance(a, Py) and isinstance(a.v, tuple) and isinstance(b, Py) is False:
            a, b = b, a
        if isinstance(b, Py) and isinstance(b.v, tuple) and isinstance(a, Py) and isinstance(a.v, tuple):
            if len(a.v) != len(b.v):
                return Py(False)
            parts = [self.equal(x, y, st) for x, y in zip(a.v, b.v)]
            if all(isinstance(q, Py) for q in parts):
                return Py(all(q.v for q in parts))
            return And(*[as_bool(q) for q in parts])
        if isinstance(a, Py) and isinstance(a.v, tuple):
            raise Unsupported("tuple comparison")
        if isinstance(a, Py) and isinstance(b, tuple):
            a, b = b, a
        if isinstance(a, tuple) and isinstance(b, Py):
            if isinstance(b.v, bool) and ty(a) == "Bool":
                return a if b.v else Not(a)
            if isinstance(b.v, int) and ty(a) == "Nat":
                return self.natcmp("==", a, b)
            if isinstance(b.v, tuple):
                raise Unsupported("tuple comparison")
            raise Unsupported(f"{a!r} == {b!r}")
        if isinstance(a, tuple) and isinstance(b, tuple):
            if ty(a) == "Nat" and ty(b) == "Nat":
                return self.natcmp("==", a, b)
            if ty(a) == "Comp":
                return Eq(Fld(a, "id"), Fld(b, "id"))
            need(ty(a) == ty(b), f"comparison of {ty(a)} with {ty(b)}")
            return Eq(a, b)
        raise Unsupported(f"{a!r} == {b!r}")

    def natcmp(self, sym: str, a, b):  # noqa: C901
        """Comparisons of lengths with constants / other lengths, in normal form."""
        flip = {"<": ">", ">": "<", "<=": ">=", ">=": "<=", "==": "=="}
        if isinstance(a, Py):
            a, b, sym = b, a, flip[sym]
        if isinstance(b, Py) and isinstance(a, tuple) and a[0] == "len":
            kk, lst = b.v, a[1]
            if sym == "==":
                return LenEq(lst, kk)
            if (sym, kk) in ((">", 0), (">=", 1)):
                return Not(IsEmpty(lst))
            if (sym, kk) in (("<", 1), ("<=", 0)):
                return IsEmpty(lst)
            raise Unsupported(f"len(...) {sym} {kk}")
        if isinstance(a, tuple) and isinstance(b, tuple) and a[0] == "len" and b[0] == "len" and sym == "==":
            # len(l) == len(filter p l)  <=>  all p l
            for x, y in ((a, b), (b, a)):
                if y[1][0] == "filter" and y[1][1] == x[1]:
                    return All(x[1], y[1][2])
            return ("natcmp", "=", a, b)
        if isinstance(a, tuple) and a[0] == "idx" and isinstance(b, Py):
            nf = getattr(self, "notfirst_val", None) or V("notFirst", "Bool")
            if (sym, b.v) in ((">", 0), (">=", 1)):
                return nf
            if (sym, b.v) in (("==", 0), ("<", 1), ("<=", 0)):
                return Not(nf)
        if isinstance(a, tuple) and isinstance(b, tuple) and sym == "==":
            return Eq(a, b)
        raise Unsupported(f"comparison {a!r} {sym} {b!r}")

    def contains(self, coll, x, st: State):
        if isinstance(coll, Py):
            items = list(coll.v)
            if isinstance(x, Py):
                return Py(x in items)
            need(all(isinstance(i, tuple) and is_const(i) for i in items), "membership in a constant collection of non-constants")
            return Or(*[Eq(x, i) for i in sorted(items, key=repr)])
        if isinstance(coll, Ref) and coll.kind == "dict":
            return ("dhas", st.heap[coll], x)
        if isinstance(coll, Ref) and coll.kind == "pylist":
            items = st.heap[coll]
            return Or(*[as_bool(self.equal(x, i, st)) for i in items])
        lst = self.as_list(coll, st)
        if ty(x) == "Nat":
            return ("mem", x, lst) if lst[0] != "nil" else FALSE
        return Mem(x, self.fix_nil(lst, "LComp"))

    def ev_boolop(self, n: ast.BoolOp, st: State, k):
        is_and = isinstance(n.op, ast.And)

        def go(i, acc, s):
            if i == len(n.values):
                return k(acc, s)

            def got(v, s2):
                v = self.deref_truth(v, s2)
                if isinstance(v, Py) and not (isinstance(acc, tuple)):
                    # Python short-circuit on constants (the value itself is returned)
                    if acc is None or bool(acc.v) == is_and:
                        if bool(v.v) != is_and:
                            return k(v, s2)
                        return go(i + 1, v, s2)
                    return k(acc, s2)
                a = TRUE if acc is None and is_and else FALSE if acc is None else as_bool(acc)
                b = as_bool(v)
                return go(i + 1, And(a, b) if is_and else Or(a, b), s2)
            if isinstance(acc, Py) and acc is not None and bool(acc.v) != is_and:
                return k(acc, s)
            return self.ev(n.values[i], s, got)
        return go(0, None, st)

    def ev_subscript(self, o, sl, st: State, k):
        def idx(i, s):
            if isinstance(o, Py):
                return k(o.v[self.py(i)], s) if not isinstance(o.v[self.py(i)], (int, str, bool)) else k(Py(o.v[self.py(i)]), s)
            if isinstance(o, Ref) and o.kind == "pylist":
                return k(s.heap[o][self.py(i)], s)
            if isinstance(o, Ref) and o.kind == "dict":
                return k(("dslot", o, i), s)
            if isinstance(o, Ref) and o.kind in ("list", "set") and i == Py(0):
                return k(("first", s.heap[o]), s)
            if isinstance(o, Opaque):
                return k(Opaque(o.what + "[]"), s)
            raise Unsupported(f"subscript of {o!r}")
        if isinstance(sl, ast.Slice):
            need(sl.upper is None and sl.step is None and isinstance(sl.lower, ast.Constant) and sl.lower.value == 1
                 and isinstance(o, Ref) and o.kind in ("list", "set"), "slice other than <list>[1:]")
            return k(("tail", st.heap[o]), st)
        return self.ev(sl, st, idx)

    def binop(self, op, a, b, st: State, k):
        if isinstance(a, Py) and isinstance(b, Py) and not isinstance(a.v, frozenset):
            import operator as o
            fn = {ast.Add: o.add, ast.Sub: o.sub, ast.Mult: o.mul}.get(type(op))
            need(fn is not None, f"operator {type(op).__name__}")
            return k(Py(fn(a.v, b.v)), st)
        if isinstance(a, Opaque) or isinstance(b, Opaque):
            return k(Opaque("binop"), st)
        if isinstance(op, ast.BitOr) or isinstance(op, ast.Sub) or isinstance(op, ast.BitAnd):
            la, lb = self.as_list(a, st), self.as_list(b, st)
            if isinstance(op, ast.BitOr):
                return self.new_ref("set", self.union(la, lb), st, k)
            x = V(fresh(), "Comp" if ty(la) == "LComp" else "Nat")
            m = Mem(x, lb) if ty(la) == "LComp" else ("mem", x, lb)
            return self.new_ref("set", Filter(la, ("lam", x[1], m if isinstance(op, ast.BitAnd) else Not(m))), st, k)
        raise Unsupported(f"operator {type(op).__name__} on {a!r}, {b!r}")

    # ------------------------------------------------------------------ comprehensions
    def elem_var(self, lst):
        t = ty(lst)
        if t == "LComp":
            return V(fresh(), "Comp")
        if t == "LNat":
            return V(fresh(), "Nat")
        if t == "LPair":
            return V(fresh("e"), "PairCL")
        if t == "LPairF":
            return V(fresh("e"), "PairCL")
        raise Unsupported(f"iteration over {t}")

    def bind_target(self, tgt, v, st: State) -> State:
        st = st.copy()
        if isinstance(tgt, ast.Name):
            st.env[tgt.id] = v
            return st
        if isinstance(tgt, (ast.Tuple, ast.List)):
            if isinstance(v, Py) and isinstance(v.v, tuple):
                need(len(v.v) == len(tgt.elts), "unpacking: arity")
                for t, x in zip(tgt.elts, v.v):
                    st = self.bind_target(t, x, st)
                return st
            if isinstance(v, tuple) and v[0] == "pairval":
                need(len(tgt.elts) == 2, "unpacking of a dict item")
                st = self.bind_target(tgt.elts[0], v[1], st)
                return self.bind_target(tgt.elts[1], v[2], st)
            if isinstance(v, tuple) and v[0] == "v" and ty(v) == "PairCL":
                need(len(tgt.elts) == 2, "unpacking of a dict item")
                st = self.bind_target(tgt.elts[0], ("proj", v, 1, "Comp"), st)
                return self.bind_target(tgt.elts[1], ("proj", v, 2, "LComp"), st)
            if isinstance(v, tuple) and v[0] == "enumitem":
                need(len(tgt.elts) == 2, "unpacking of an enumerate item")
                st = self.bind_target(tgt.elts[0], ("idx",), st)
                return self.bind_target(tgt.elts[1], v[1], st)
        raise Unsupported(f"assignment target {ast.unparse(tgt)} := {v!r}")

    def ev_comp(self, n, st: State, k):
        need(len(n.generators) <= 2, "comprehension with more than two `for`")
        g = n.generators[0]

        def with_iter(it, s):
            it = self.deref_iter(it, s)
            if isinstance(it, Py):                     # unrolled
                items = []
                for item in it.v:
                    s1 = self.bind_target(g.target, item, s)
                    ok = And(*[as_bool(self.pure(c, s1)) for c in g.ifs])
                    need(ok in (TRUE, FALSE), "comprehension over constants with a symbolic filter")
                    if ok == TRUE:
                        need(len(n.generators) == 1, "nested comprehension over constants")
                        items.append(self.pure(n.elt, s1))
                return self._mk_list(items, s, k)
            x = self.elem_var(it)
            s1 = self.bind_target(g.target, x, s)
            cond = And(*[as_bool(self.pure(c, s1)) for c in g.ifs])
            base = Filter(it, ("lam", x[1], cond))
            if len(n.generators) == 2:
                g2 = n.generators[1]
                inner_it = self.deref_iter(self.pure(g2.iter, s1), s1)
                y = self.elem_var(inner_it)
                s2 = self.bind_target(g2.target, y, s1)
                c2 = And(*[as_bool(self.pure(c, s2)) for c in g2.ifs])
                elt = self.to_ir(self.pure(n.elt, s2))
                inner = Filter(inner_it, ("lam", y[1], c2))
                if elt != y and not free_in(elt, x[1]):
                    # canonical: map after the union   (⋃ₓ f(M x) = f(⋃ₓ M x))
                    res = Map(("flatmap", base, ("lam", x[1], inner), ty(inner)), ("lam", y[1], elt), self.list_ty(elt))
                else:
                    if elt != y:
                        inner = Map(inner, ("lam", y[1], elt), self.list_ty(elt))
                    res = ("flatmap", base, ("lam", x[1], inner), ty(inner))
            else:
                threaded = self.threaded_comp(n, g, it, x, s)
                if threaded is not None:
                    val, s = threaded
                    return k(val, s)
                raising = self.comp_with_raise(n, base, x, s1, s, k)
                if raising is not None:
                    return raising
                elt = self.pure(n.elt, s1)
                if isinstance(elt, tuple) and elt and elt[0] == "dslot" and len(elt) == 3:
                    elt = ("dget", s1.heap[elt[1]], elt[2])
                elt = self.to_ir(elt)
                res = base if elt == x else Map(base, ("lam", x[1], elt), self.list_ty(elt))
            if isinstance(n, ast.SetComp):
                return self.new_ref("set", res, s, k)
            if isinstance(n, ast.ListComp):
                return self.new_ref("list", res, s, k)
            return k(res, s)
        return self.ev(g.iter, st, with_iter)

    def comp_with_raise(self, n, base, x, s1: State, st: State, k):
        """`{f(x) for x in l}` where f may raise: raises iff it raises for some element."""
        tree = self.ev(n.elt, s1, lambda v, s2: leaf("val", v, s2))
        kinds = {lf[2] for lf in leaves(tree) if lf[1] == "raise"}
        if not kinds:
            return None
        need(len(kinds) == 1, "a comprehension raises two kinds of errors")
        (kind,) = kinds
        for lf in leaves(tree):
            need(lf[1] in ("val", "raise"), "comprehension element")
            for r, val in st.heap.items():
                need(lf[3].heap.get(r) == val, "side effect inside a comprehension")

        def hits(tr):
            if tr[0] == "br":
                return Ite(tr[1], hits(tr[2]), hits(tr[3]))
            return TRUE if tr[1] == "raise" else FALSE

        def val(tr):
            if tr[0] == "br":
                a, b = val(tr[2]), val(tr[3])
                return b if a is None else a if b is None else Ite(tr[1], a, b)
            return None if tr[1] == "raise" else self.to_ir(tr[2])
        elt = val(tree)
        need(elt is not None, "a comprehension whose element always raises")
        res = base if elt == x else Map(base, ("lam", x[1], elt), self.list_ty(elt))
        if isinstance(n, ast.SetComp) and ty(res) == "LNat":
            res = ("dedup", res)

        def ok(t):
            if isinstance(n, ast.SetComp):
                return self.new_ref("set", res, t, k)
            if isinstance(n, ast.ListComp):
                return self.new_ref("list", res, t, k)
            return k(res, t)
        return self.fork(canon_nonempty(Any(base, ("lam", x[1], hits(tree)))), st, lambda t: leaf("raise", kind, t), ok)

    def deref_iter(self, it, st: State):
        if isinstance(it, tuple) and it and it[0] == "dslot" and len(it) == 3:
            return ("dget", st.heap[it[1]], it[2])
        if isinstance(it, Ref):
            if it.kind == "pylist":
                return Py(tuple(st.heap[it]))
            if it.kind == "dict":
                return ("dictkeys", st.heap[it])
            return st.heap[it]
        if isinstance(it, Py):
            need(isinstance(it.v, (tuple, frozenset)), f"iteration over {it!r}")
            return Py(tuple(it.v) if isinstance(it.v, tuple) else tuple(sorted(it.v, key=repr)))
        return it

    @staticmethod
    def to_ir(v):
        if isinstance(v, Py) and isinstance(v.v, bool):
            return TRUE if v.v else FALSE
        if isinstance(v, Py) and isinstance(v.v, int):
            return K("Nat", str(v.v))
        need(isinstance(v, tuple), f"symbolic value expected, got {v!r}")
        return v

    def pure(self, n: ast.expr, st: State):
        """Evaluate an expression that must neither fork into different outcomes nor change the heap."""
        tree = self.ev(n, st, lambda v, s: leaf("val", (v, s), s))
        return self.pure_tree(tree, st)

    def pure_tree(self, tree, st: State):
        if tree[0] == "br":
            a, b = self.pure_tree(tree[2], st), self.pure_tree(tree[3], st)
            return self.merge_val(tree[1], a, b)
        need(tree[1] == "val", f"an expression {tree[1]}s inside a comprehension / condition")
        v, s = tree[2]
        for r, val in st.heap.items():
            need(s.heap.get(r) == val, "side effect inside a comprehension / condition")
        if isinstance(v, Ref):
            return s.heap[v] if v.kind != "pylist" else Py(tuple(s.heap[v]))
        return v

    def threaded_comp(self, n, g, it, x, st: State):
        """`[f(x, state) for x in l]` where evaluating the element changes a container of the enclosing scope
        (the `visited` set handed to the recursive `dfs`): a fold that threads that container."""
        s1 = self.bind_target(g.target, x, st)
        tree = self.ev(n.elt, s1, lambda v, s: leaf("val", (v, s), s))
        if tree[0] != "leaf" or tree[1] != "val":
            return None
        v, s2 = tree[2]
        changed = [r for r, val in st.heap.items() if s2.heap.get(r) != val]
        if not changed:
            return None
        need(not g.ifs and len(changed) == 1, "comprehension with side effects on more than one container")
        (r,) = changed
        return self.thread_fold(it, x, r, st, s2, self.to_ir(v if not isinstance(v, Ref) else s2.heap[v]))

    def thread_fold(self, it, x, r, st: State, s_after: State, contrib):
        """state cell r: before = st.heap[r], after one element = s_after.heap[r] (mentions the before-value);
        result: the per-element contributions, concatenated."""
        before = st.heap[r]
        tvar = V(fresh("t"), ty(before))
        avar = V(fresh("a"), "LComp")
        # re-express `after` and `contrib` in terms of the threaded variable
        after = replace_expr(s_after.heap[r], before, tvar)
        contrib = replace_expr(contrib, before, tvar)
        stv = V(fresh("st"), "Pair")
        body = ("tuple", (subst(after, tvar[1], ("proj", stv, 1, ty(before))),
                          Union(("proj", stv, 2, "LComp"), subst(contrib, tvar[1], ("proj", stv, 1, ty(before))))))
        del avar
        fold = ("foldl", it, ("tuple", (before, Nil("LComp"))), ("lam", (stv[1], x[1]), body))
        s = st.copy()
        s.heap[r] = ("proj", fold, 1, ty(before))
        return ("threaded", ("proj", fold, 2, "LComp")), s


LEAN_TY = {"Fun": "Comp → Bool", "Comp": "Comp", "LComp": "List Comp", "Nat": "Nat", "Bool": "Bool"}


def _is_bound(name: str) -> bool:
    import re
    return re.fullmatch(r"(st|[xefhta])\d+", name) is not None


def _proj_path(j: int, n: int) -> str:
    """projection of component j of a right-nested n-tuple"""
    if n == 1:
        return ""
    return ("2." * j + "1") if j < n - 1 else ("2." * (n - 1))[:-1]


def replace_expr(e, old, new):
    if e == old:
        return new
    if not isinstance(e, tuple) or not e or (isinstance(e[0], str) and e[0] in ("k", "v")):
        return e
    return tuple(replace_expr(x, old, new) if isinstance(x, tuple) else x for x in e)


class InterpStmts(Interp):  # pylint: disable=too-many-public-methods
    # ------------------------------------------------------------------ statements (k(state) -> tree on fall-through)
    def ex(self, stmts: list, i: int, st: State, k):  # noqa: C901  pylint: disable=too-many-return-statements,too-many-branches,too-many-statements
        if i == len(stmts):
            return k(st)
        s = stmts[i]

        def rest(st2: State):
            return self.ex(stmts, i + 1, st2, k)

        if isinstance(s, ast.Expr):
            if isinstance(s.value, ast.Constant):
                return rest(st)
            return self.ev(s.value, st, lambda v, s2: rest(s2))
        if isinstance(s, ast.Pass):
            return rest(st)
        if isinstance(s, (ast.Assign, ast.AnnAssign)):
            if getattr(s, "value", None) is None:
                return rest(st)
            targets = s.targets if isinstance(s, ast.Assign) else [s.target]

            def assign(v, s2):
                return self.assign_all(targets, v, s2, rest)
            return self.ev(s.value, st, assign)
        if isinstance(s, ast.AugAssign):
            return self.ex_augassign(s, st, rest)
        if isinstance(s, ast.Return):
            if s.value is None:
                return leaf("ret", NONE, st)
            return self.ev(s.value, st, lambda v, s2: leaf("ret", v, s2))
        if isinstance(s, ast.If):
            def after(c, s2):
                cb = as_bool(self.deref_truth(c, s2))
                return self.fork(cb, s2, lambda t: self.ex(s.body, 0, t, rest), lambda t: self.ex(s.orelse, 0, t, rest))
            return self.ev(s.test, st, after)
        if isinstance(s, ast.For):
            return self.ex_for(s, st, rest)
        if isinstance(s, ast.While):
            return self.ex_while(s, st, rest)
        if isinstance(s, ast.FunctionDef):
            self.check_decorators(s, s.name)
            st = st.copy()
            st.env[s.name] = self.mk_closure(s, st)
            return rest(st)
        if isinstance(s, ast.Assert):
            return rest(st)            # an `assert` documents a precondition of the (private) function
        if isinstance(s, ast.Raise):
            need(s.exc is not None, "bare raise")
            return self.ev(s.exc, st, lambda v, s2: leaf("raise", self.exc_kind(v), s2))
        if isinstance(s, ast.Break):
            return leaf("break", None, st)
        if isinstance(s, ast.Continue):
            return leaf("continue", None, st)
        if isinstance(s, ast.Match):
            return self.ex_match(s, st, rest)
        if isinstance(s, ast.Try):
            return self.ex_try(s, st, rest)
        if isinstance(s, (ast.Import, ast.ImportFrom)):
            raise Unsupported("import inside a function")
        raise Unsupported(f"statement {type(s).__name__}")

    @staticmethod
    def exc_kind(v) -> str:
        if isinstance(v, tuple) and v[0] == "exc":
            return v[1]
        if isinstance(v, ClassRef):
            return v.name
        raise Unsupported(f"raise of {v!r}")

    def assign_all(self, targets: list, v, st: State, k):
        if not targets:
            return k(st)
        t = targets[0]

        def nxt(s2):
            return self.assign_all(targets[1:], v, s2, k)
        if isinstance(t, ast.Name):
            st = st.copy()
            st.env[t.id] = v
            return nxt(st)
        if isinstance(t, (ast.Tuple, ast.List)):
            if isinstance(v, Py) and isinstance(v.v, tuple):
                return nxt(self.bind_target(t, v, st))
            # (x,) = <symbolic collection>: ValueError unless it has exactly len(targets) elements
            lst = self.as_list(v, st)
            need(len(t.elts) == 1, "unpacking a symbolic collection into several names")
            return self.fork(LenEq(lst, 1), st, lambda t2: nxt(self.bind_target(t.elts[0], ("first", lst), t2)),
                             lambda t2: leaf("raise", "ValueError", t2))
        if isinstance(t, ast.Subscript):
            def with_obj(o, s2):
                need(isinstance(o, Ref) and o.kind == "dict", "item assignment to something other than a dict")
                return self.ev(t.slice, s2, lambda key, s3: self.dict_set(o, key, v, s3, nxt))
            return self.ev(t.value, st, with_obj)
        raise Unsupported(f"assignment to {ast.unparse(t)}")

    def ex_augassign(self, s: ast.AugAssign, st: State, k):
        need(isinstance(s.target, ast.Name), "augmented assignment to a non-name")

        def go(v, s2):
            cur = s2.env.get(s.target.id)
            if isinstance(s.op, ast.BitOr):
                add = self.as_list(v, s2)
                if isinstance(cur, Ref):
                    s2 = s2.copy()
                    s2.heap[cur] = self.union(s2.heap[cur], add)
                    return k(s2)
                return self.new_ref("set", self.union(self.as_list(cur, s2), add), s2,
                                    lambda r, s3: k(self._set_env(s3, s.target.id, r)))
            if isinstance(cur, Py) and isinstance(v, Py):
                return self.binop(s.op, cur, v, s2, lambda r, s3: k(self._set_env(s3, s.target.id, r)))
            raise Unsupported(f"augmented assignment {ast.unparse(s)}")
        return self.ev(s.value, st, go)

    @staticmethod
    def _set_env(st: State, name: str, v) -> State:
        st = st.copy()
        st.env[name] = v
        return st

    # ------------------------------------------------------------------ match / try
    def ex_match(self, s: ast.Match, st: State, k):
        def with_subject(subj, s2):
            def try_case(j, s3):
                if j == len(s.cases):
                    return k(s3)
                case = s.cases[j]
                cond, s4 = self.pattern(case.pattern, subj, s3)
                if case.guard is not None:
                    cond = And(cond, as_bool(self.pure(case.guard, s4)))
                return self.fork(cond, s4, lambda t: self.ex(case.body, 0, t, k),
                                 lambda t: try_case(j + 1, State(s3.env, s3.heap, t.facts)))
            return try_case(0, s2)
        return self.ev(s.subject, st, with_subject)

    def pattern(self, p, subj, st: State):  # noqa: C901
        """-> (condition under which the pattern matches, state with the captures bound)"""
        if isinstance(p, ast.MatchAs):
            if p.pattern is None:
                if p.name is None:
                    return TRUE, st
                return TRUE, self._set_env(st, p.name, subj)
            c, s = self.pattern(p.pattern, subj, st)
            return c, (self._set_env(s, p.name, subj) if p.name else s)
        if isinstance(p, ast.MatchValue):
            v = self.pure(p.value, st)
            return as_bool(self.equal(subj, v, st)), st
        if isinstance(p, ast.MatchSingleton):
            return as_bool(self.equal(subj, Py(p.value), st)), st
        if isinstance(p, ast.MatchOr):
            cs = []
            for q in p.patterns:
                c, _ = self.pattern(q, subj, st)
                cs.append(c)
            return Or(*cs), st
        if isinstance(p, ast.MatchSequence):
            need(isinstance(subj, Py) and isinstance(subj.v, tuple) and len(subj.v) == len(p.patterns), "sequence pattern")
            cs = []
            for q, x in zip(p.patterns, subj.v):
                c, st = self.pattern(q, x, st)
                cs.append(c)
            return And(*cs), st
        raise Unsupported(f"pattern {type(p).__name__}")

    def ex_try(self, s: ast.Try, st: State, k):
        need(not s.finalbody, "try/finally")
        handlers = []
        for h in s.handlers:
            need(h.type is not None and h.name is None, "except without a type / with `as`")
            names = [ast.unparse(t) for t in (h.type.elts if isinstance(h.type, ast.Tuple) else [h.type])]
            handlers.append((names, h.body))
        body_tree = self.ex(s.body, 0, st, lambda s2: leaf("tryfall", None, s2))

        def handle(kind, s2):
            for names, body in handlers:
                if kind in names:
                    return self.ex(body, 0, s2, k)
            return leaf("raise", kind, s2)
        t = bind(body_tree, handle, kinds=("raise",))
        return bind(t, lambda _p, s2: self.ex(s.orelse, 0, s2, k), kinds=("tryfall",))

    def ex_while(self, s: ast.While, st: State, k):  # noqa: C901  pylint: disable=too-many-locals
        """`while <test>: body` — a fuel-recursive Lean function over the containers the loop changes (a worklist).
        The fuel is the one of the enclosing `dfs` (sufficiency is proved in `Lemmas/GraphTie.lean`)."""
        need(not s.orelse, "while/else")
        need(getattr(self, "in_dfs", False), "a while loop outside dfs")
        # literal Python lists of components become symbolic lists
        st = st.copy()
        for r, v in list(st.heap.items()):
            if r.kind == "pylist" and v and all(isinstance(x, tuple) and ty(x) == "Comp" for x in v):
                r.kind = "list"
                acc = ("single", v[0])
                for x in v[1:]:
                    acc = ("lapp", acc, ("single", x))
                st.heap[r] = acc
        cells = [r for r in st.heap if r.kind in ("set", "list")]
        ivs = {r: V(fresh("h"), "LComp") for r in cells}
        s_in = st.copy()
        for r in cells:
            s_in.heap[r] = ivs[r]
        self.in_while = getattr(self, "in_while", 0) + 1
        try:
            test = as_bool(self.deref_truth(self.pure(s.test, s_in), s_in))
            tree = self.ex(s.body, 0, s_in.assume(test, True), lambda s2: leaf("fall", None, s2))
        finally:
            self.in_while -= 1
        changed = [r for r in cells if any(lf[3].heap.get(r) != ivs[r] for lf in leaves(tree) if lf[1] in ("fall", "continue", "break"))]
        need(changed, "a while loop that changes nothing")
        for lf in leaves(tree):
            need(lf[1] in ("fall", "continue"), f"{lf[1]} inside a while loop")
            for r in cells:
                need(r in changed or lf[3].heap.get(r) == ivs[r], "while loop: container bookkeeping")
        name = "dfsLoop"
        need(name not in self.defs, "two while loops")
        free = []

        def scan(e):
            """free variables of the loop (parameters of the enclosing function): not bound by a lambda, not a container"""
            if isinstance(e, tuple) and e:
                if isinstance(e[0], str) and e[0] == "v":
                    if e not in ivs.values() and e not in free and not _is_bound(e[1]) and e[1] != "fuel":
                        need(e[2] in LEAN_TY, f"while loop: free variable {e[1]} : {e[2]}")
                        free.append(e)
                    return
                if isinstance(e[0], str) and e[0] == "k":
                    return
                for y in e:
                    scan(y)

        def body_expr(tr):
            if tr[0] == "br":
                return ("ite", tr[1], body_expr(tr[2]), body_expr(tr[3]))
            return ("call", name, tuple(free_holder + [V("fuel", "Nat")] + [tr[3].heap[r] for r in changed]), "Tuple")
        free_holder: list = []
        scan(test)
        for lf in leaves(tree):
            for r in changed:
                scan(lf[3].heap[r])
        for c, _ in [cp for pth, _ in paths(tree) for cp in pth]:
            scan(c)
        free_holder.extend(free)
        body = body_expr(tree)
        names = [ivs[r][1] for r in changed]
        tup = "(" + ", ".join(names) + ")"
        params = " ".join(f"({f[1]} : {LEAN_TY[f[2]]})" for f in free)
        sig = " → ".join(["Nat"] + ["List Comp"] * len(changed)) + " → " + " × ".join(["List Comp"] * len(changed))
        self.defs[name] = (
            f"/-- the `while` loop of `dfs` (a worklist): one iteration per unit of fuel -/\n"
            f"def {name} {params} : {sig}\n"
            f"  | 0, {', '.join(names)} => {tup}\n"
            f"  | fuel + 1, {', '.join(names)} =>\n    if {pr(test)} then {pr(body)} else {tup}")
        st_out = st.copy()
        call = ("call", name, tuple(free + [V("fuel", "Nat")] + [st.heap[r] for r in changed]), "Tuple")
        for j, r in enumerate(changed):
            st_out.heap[r] = ("proj", call, _proj_path(j, len(changed)), "LComp")
        return k(st_out)


# ============================================================================================== loop summaries
def bool_atoms(e, out: list) -> None:
    """The atoms of a Bool expression (maximal sub-expressions that are not and/or/not/ite/eq-on-Bool)."""
    if e in (TRUE, FALSE):
        return
    tag = e[0]
    if tag == "not":
        bool_atoms(e[1], out)
    elif tag in ("and", "or"):
        for x in e[1]:
            bool_atoms(x, out)
    elif tag == "ite" and ty(e) == "Bool":
        for x in e[1:]:
            bool_atoms(x, out)
    elif tag == "eq" and ty(e[1]) == "Bool":
        bool_atoms(e[1], out)
        bool_atoms(e[2], out)
    elif e not in out:
        out.append(e)


def eval_bool(e, env: dict) -> bool:
    if e == TRUE:
        return True
    if e == FALSE:
        return False
    tag = e[0]
    if tag == "not":
        return not eval_bool(e[1], env)
    if tag == "and":
        return all(eval_bool(x, env) for x in e[1])
    if tag == "or":
        return any(eval_bool(x, env) for x in e[1])
    if tag == "ite" and ty(e) == "Bool":
        return eval_bool(e[2], env) if eval_bool(e[1], env) else eval_bool(e[3], env)
    if tag == "eq" and ty(e[1]) == "Bool":
        return eval_bool(e[1], env) == eval_bool(e[2], env)
    return env[e]


def shannon(vars_: list, table) -> tuple:
    """Expression of the Boolean function `table(assignment dict) -> bool` over the Bool expressions `vars_`."""
    def go(i: int, asg: dict):
        if i == len(vars_):
            return TRUE if table(asg) else FALSE
        hi = go(i + 1, {**asg, vars_[i]: True})
        lo = go(i + 1, {**asg, vars_[i]: False})
        return Ite(vars_[i], hi, lo)
    return go(0, {})


def blake(e):
    """Blake canonical form (the disjunction of ALL prime implicants) of a Bool expression over its atoms: the same
    text for every way of writing the same Boolean function of the same atoms."""
    if e in (TRUE, FALSE) or ty(e) != "Bool":
        return e
    atoms: list = []
    bool_atoms(e, atoms)
    if not atoms or len(atoms) > 10:
        return e
    atoms.sort(key=okey)
    n = len(atoms)
    ones = set()
    for bits in itertools.product((0, 1), repeat=n):
        if eval_bool(e, dict(zip(atoms, map(bool, bits)))):
            ones.add(bits)
    if not ones:
        return FALSE
    if len(ones) == 2 ** n:
        return TRUE
    # Quine-McCluskey: implicants are tuples over {0, 1, None}
    level, primes = set(ones), set()
    while level:
        used, nxt = set(), set()
        lv = list(level)
        for i, a in enumerate(lv):
            for b in lv[i + 1:]:
                diff = [j for j in range(n) if a[j] != b[j]]
                if len(diff) == 1 and a[diff[0]] is not None and b[diff[0]] is not None:
                    nxt.add(tuple(None if j == diff[0] else a[j] for j in range(n)))
                    used.add(a)
                    used.add(b)
        primes |= level - used
        level = nxt
    terms = []
    for pi in sorted(primes, key=lambda t: tuple((x is None, x) for x in t)):
        terms.append(And(*[(atoms[j] if pi[j] else Not(atoms[j])) for j in range(n) if pi[j] is not None]))
    return Or(*terms)


def canon_nonempty(e):
    """`l.all p && l.any p`  ->  `!l.isEmpty && l.all p`   (the form the source and the model use)."""
    if not isinstance(e, tuple) or not e or (isinstance(e[0], str) and e[0] in ("k", "v")):
        return e
    if not isinstance(e[0], str):
        return tuple(canon_nonempty(x) for x in e)
    e = tuple(canon_nonempty(x) if isinstance(x, tuple) else x for x in e)
    if e[0] == "and":
        xs = list(e[1])
        for a in xs:
            if a[0] == "all":
                neg = ("not", ("all", a[1], ("lam", a[2][1], Not(a[2][2]))))
                if neg in xs:
                    xs[xs.index(neg)] = Not(IsEmpty(a[1]))
                    return And(*[Not(IsEmpty(a[1]))] + [x for x in xs if x != Not(IsEmpty(a[1]))])
        return And(*xs)
    if e[0] == "or":
        return Or(*e[1])
    if e[0] == "not":
        return Not(e[1])
    return e


def paths(tree, conds=()):
    if tree[0] == "br":
        yield from paths(tree[2], conds + ((tree[1], True),))
        yield from paths(tree[3], conds + ((tree[1], False),))
    else:
        yield conds, tree


def assigned_names(stmts: list) -> set[str]:
    out = set()
    for s in stmts:
        for n in ast.walk(s):
            if isinstance(n, ast.Name) and isinstance(n.ctx, ast.Store):
                out.add(n.id)
    return out


class InterpLoops(InterpStmts):  # pylint: disable=too-many-public-methods
    def ex_for(self, s: ast.For, st: State, k):
        def with_iter(it, s2):
            it = self.deref_iter(it, s2)
            if isinstance(it, Py):
                return self.unroll(s, list(it.v), 0, s2, k)
            return self.summarise(s, it, s2, k)
        return self.ev(s.iter, st, with_iter)

    # ------------------------------------------------------------------ loops over constants: unrolled
    def unroll(self, s: ast.For, items: list, j: int, st: State, k):
        if j == len(items):
            return self.ex(s.orelse, 0, st, k)
        st1 = self.bind_target(s.target, items[j], st)
        tree = self.ex(s.body, 0, st1, lambda s2: leaf("fall", None, s2))

        def nxt(_p, s2):
            return self.unroll(s, items, j + 1, s2, k)
        tree = bind(tree, nxt, kinds=("fall", "continue"))
        return bind(tree, lambda _p, s2: k(s2), kinds=("break",))

    # ------------------------------------------------------------------ loops over symbolic collections
    def summarise(self, s: ast.For, it, st: State, k, only=None):  # noqa: C901  pylint: disable=too-many-locals,too-many-branches,too-many-statements
        enum = isinstance(it, tuple) and it[0] == "enumerate"
        lst = it[1] if enum else it
        elem = None
        if isinstance(lst, tuple) and lst[0] == "dictitems" and lst[1][0] == "fdmap":
            # items of a dict that was built as {k: f(k, v) for k, v in other.items()}
            fd = lst[1]
            lst = ("dictitems", fd[1])
            x = self.elem_var(lst)
            elem = ("pairval", ("proj", x, 1, "Comp"), lam_apply(fd[2], x))
        elif isinstance(lst, tuple) and lst[0] == "dictkeys":
            need(lst[1][0] == "fdmap" or True, "keys")
            src = lst[1][1] if lst[1][0] == "fdmap" else lst[1]
            lst = ("dictitems", src)
            x = self.elem_var(lst)
            elem = ("proj", x, 1, "Comp")
        else:
            x = self.elem_var(lst)
        elem = x if elem is None else elem
        if any(r.kind == "builder" for r in st.heap) and any(
                isinstance(n, ast.Attribute) and n.attr in ("push_oper", "push_component_metric") for b in s.body for n in ast.walk(b)):
            return self.builder_loop(s, lst, x, elem, enum, st, k)
        # carried cells: names (re)assigned in the body that exist before the loop, and every container
        st_in = st.copy()
        carried: list[tuple] = []       # (key, in-var, before)
        for name in sorted(assigned_names(s.body)):
            if name in st.env:
                v = st.env[name]
                b = TRUE if v == Py(True) else FALSE if v == Py(False) else v
                if isinstance(b, tuple) and b[0] not in ("builtin", "prim", "meth", "module") and ty(b) == "Bool":
                    iv = V(fresh("f"), "Bool")
                    st_in.env[name] = iv
                    carried.append((("env", name), iv, b))
                elif isinstance(v, Ref):
                    pass        # rebinding of a name that holds a container: seen through the env comparison below
                else:
                    need(v == NONE or isinstance(v, (Py, tuple)), f"loop-carried variable {name} = {v!r}")
                    carried.append((("envx", name), None, v))
        for r, v in st.heap.items():
            if r.kind in ("set", "list", "dict", "builder") and (only is None or r in only):
                iv = V(fresh("h"), ty(v) if r.kind != "builder" and v != ("nil", "LComp?") else "Terms" if r.kind == "builder" else "LComp?")
                if r.kind == "builder":
                    st_in.heap[r] = ("bvar", iv, v[1] if isinstance(v, tuple) and v[0] == "bstate" else "?")
                else:
                    st_in.heap[r] = iv
                carried.append((("heap", r), iv, v))
        st_body = self.bind_target(s.target, ("enumitem", elem) if enum else elem, st_in)
        tree = self.ex(s.body, 0, st_body, lambda s2: leaf("fall", None, s2))
        tree = self.map_leaves(tree, lambda lf: ("leaf", lf[1], lf[2], self.normalise_rebinds(s, st_in, lf[3]))
                               if lf[1] in ("fall", "continue", "break") else lf)
        plist = list(paths(tree))
        kinds = {lf[1] for _, lf in plist}
        # which cells does the body change?
        changed = []
        for key, iv, before in carried:
            for _, lf in plist:
                if lf[1] in ("fall", "continue", "break"):
                    after = lf[3].env.get(key[1]) if key[0] in ("env", "envx") else lf[3].heap.get(key[1])
                    ref = iv if key[0] != "envx" else before
                    if key[0] == "heap" and isinstance(after, tuple) and after[0] == "bvar":
                        after = after[1]
                    if after != ref and (key, iv, before) not in changed:
                        changed.append((key, iv, before))
        flags = [c for c in changed if c[0][0] == "env"]
        others = [c for c in changed if c[0][0] != "env"]
        if only is None and any(c[0][0] == "heap" and c not in changed for c in carried):
            # second pass: only the containers the body really changes are abstracted
            return self.summarise(s, it, st, k, only={c[0][1] for c in changed if c[0][0] == "heap"})
        need(not any(c[0][0] == "envx" for c in others),
             "a loop reassigns a non-Boolean local that lives across iterations: " + ", ".join(str(c[0][1]) for c in others if c[0][0] == "envx"))
        if not others:
            return self.bool_loop(s, lst, x, st, plist, flags, k, tree)
        need(not (kinds & {"ret", "break"}), "return / break inside an accumulating loop")
        return self.acc_loop(s, lst, x, st, tree, plist, flags, others, k)

    def map_leaves(self, tree, f):
        if tree[0] == "br":
            return ("br", tree[1], self.map_leaves(tree[2], f), self.map_leaves(tree[3], f))
        return f(tree)

    # ------------------------------------------------------------------ Boolean search loops
    def bool_loop(self, s: ast.For, lst, x, st: State, plist, flags, k, tree=None):  # noqa: C901  pylint: disable=too-many-locals,too-many-branches,too-many-statements
        flag_vars = [iv for _, iv, _ in flags]
        terminal = [(conds, lf) for conds, lf in plist if lf[1] in ("ret", "raise", "break")]
        if not flags and terminal:
            outs = {(lf[1], repr(lf[2])) for _, lf in terminal}
            cexprs = [And(*[(c if pol else Not(c)) for c, pol in conds]) for conds, _ in terminal]
            if len(outs) == 1 and (terminal[0][1][1] != "ret" or terminal[0][1][2] == x
                                   or not free_in(self.to_ir(terminal[0][1][2]), x[1])):
                # stateless body, one kind of exit: it is taken iff some element takes it
                def hits(tr):
                    if tr[0] == "br":
                        return Ite(tr[1], hits(tr[2]), hits(tr[3]))
                    return TRUE if tr[1] in ("ret", "raise", "break") else FALSE
                del cexprs
                hit = canon_nonempty(Any(lst, ("lam", x[1], hits(tree))))
                lf = terminal[0][1]
                if lf[1] == "ret" and lf[2] == x:
                    # `for x in l: if c(x): return x` — an element that passes (the first one met)
                    found = Filter(lst, ("lam", x[1], hits(tree)))
                    return self.fork(hit, st, lambda t: leaf("ret", ("first", found), t), lambda t: self.ex(s.orelse, 0, t, k))
                if lf[1] == "break":
                    return self.fork(hit, st, k, lambda t: self.ex(s.orelse, 0, t, k))
                exit_leaf = (lambda t: leaf("ret", self.to_ir(lf[2]), t)) if lf[1] == "ret" else (lambda t: leaf("raise", lf[2], t))
                return self.fork(hit, st, exit_leaf, lambda t: self.ex(s.orelse, 0, t, k))
        atoms: list = []
        for conds, lf in plist:
            for c, _ in conds:
                bool_atoms(c, atoms)
            if lf[1] == "ret":
                v = lf[2]
                v = self.to_ir(v) if not isinstance(v, Ref) else None
                need(v is not None and ty(v) == "Bool", "a search loop returns a non-Boolean value")
                bool_atoms(v, atoms)
            if lf[1] in ("fall", "continue", "break"):
                for (key, iv, _) in flags:
                    bool_atoms(self.to_ir(lf[3].env[key[1]]), atoms)
        el_atoms, inv_atoms = [], []
        for a in atoms:
            if a in flag_vars:
                continue
            has_x = free_in(a, x[1])
            has_flag = any(free_in(a, fv[1]) for fv in flag_vars)
            need(not has_flag, "a loop test mixes a flag with other values")
            (el_atoms if has_x else inv_atoms).append(a)
        need(len(el_atoms) <= 3 and len(inv_atoms) <= 3, "too many different tests in one loop")
        init_sym = [(iv, b) for _, iv, b in flags if b not in (TRUE, FALSE)]
        for _, b in init_sym:
            if b not in inv_atoms:
                bool_atoms(b, inv_atoms)
        letters = [dict(zip(el_atoms, bits)) for bits in itertools.product((False, True), repeat=len(el_atoms))]

        def step(q: tuple, letter: dict, inv: dict):
            """-> ("ret", bool) | ("break", flags) | ("next", flags)"""
            env = {**inv, **letter, **dict(zip(flag_vars, q))}
            for conds, lf in plist:
                if all(eval_bool(c, env) == pol for c, pol in conds):
                    if lf[1] == "ret":
                        return ("ret", eval_bool(self.to_ir(lf[2]), env))
                    if lf[1] == "raise":
                        return ("raise", lf[2])
                    newq = tuple(eval_bool(self.to_ir(lf[3].env[key[1]]), env) for key, _, _ in flags)
                    return ("break" if lf[1] == "break" else "next", newq)
            raise Unsupported("loop body: no path taken")

        cache: dict = {}

        def outcome(subset: frozenset, inv: dict):
            """The outcome of the loop on ANY list whose elements show exactly the letters in `subset` (every order,
            every multiplicity): ("ret", b) | ("raise", kind) | ("break", flags) | ("run", flags)."""
            key = (subset, tuple(sorted((repr(a), v) for a, v in inv.items())))
            if key in cache:
                return cache[key]
            q0 = tuple(eval_bool(b, inv) for _, _, b in flags)
            start = (("run", q0), frozenset())
            seen, todo = {start}, [start]
            while todo:
                mode, got = todo.pop()
                for li in subset:
                    if mode[0] == "run":
                        r = step(mode[1], letters[li], inv)
                        m2 = ("run", r[1]) if r[0] == "next" else r
                    else:
                        m2 = mode
                    nxt = (m2, got | {li})
                    if nxt not in seen:
                        seen.add(nxt)
                        todo.append(nxt)
            finals = {mode for mode, got in seen if got == subset}
            need(len(finals) == 1, "the result of a loop over a set depends on the iteration order")
            (cache[key],) = finals
            return cache[key]

        present = []
        for lt in letters:
            conj = And(*[(a if lt[a] else Not(a)) for a in el_atoms])
            present.append(Any(lst, ("lam", x[1], conj)) if el_atoms else Not(IsEmpty(lst)))
        if not el_atoms:
            letters = [{}]
        inv_vars = list(inv_atoms)
        pvars = present

        def table(select):
            def f(asg: dict) -> bool:
                inv = {a: asg[a] for a in inv_vars}
                subset = frozenset(i for i, pv in enumerate(pvars) if asg[pv])
                return select(outcome(subset, inv))
            return f
        allvars = inv_vars + pvars
        ret_true = canon_nonempty(shannon(allvars, table(lambda m: m == ("ret", True))))
        ret_false = canon_nonempty(shannon(allvars, table(lambda m: m == ("ret", False))))
        broke = canon_nonempty(shannon(allvars, table(lambda m: m[0] == "break")))
        raises = {lf[2] for _, lf in plist if lf[1] == "raise"}
        st_out = st.copy()
        for j, (key, _, _) in enumerate(flags):
            st_out.env[key[1]] = canon_nonempty(shannon(allvars, table(lambda m, j=j: m[0] in ("run", "break") and m[1][j])))
        fall = branch(broke, k(st_out.copy()) if broke != FALSE else None,
                      self.ex(s.orelse, 0, st_out.copy(), k) if broke != TRUE else None)
        for kind in sorted(raises):
            rc = canon_nonempty(shannon(allvars, table(lambda m, kind=kind: m == ("raise", kind))))
            fall = branch(rc, leaf("raise", kind, st.copy()), fall)
        t = branch(ret_false, leaf("ret", FALSE, st.copy()), fall)
        return branch(ret_true, leaf("ret", TRUE, st.copy()), t)

    # ------------------------------------------------------------------ accumulating loops
    def normalise_rebinds(self, s: ast.For, st_before: State, lf_state: State) -> State:
        """`acc = acc.union(…)` / `acc = acc | …` create a new container: treat it as an update of the old one."""
        out = lf_state
        for name in assigned_names(s.body):
            r0 = st_before.env.get(name)
            if isinstance(r0, Ref) and r0.kind in ("set", "list"):
                after = lf_state.env.get(name)
                if after is not r0:
                    out = out.copy()
                    out.heap[r0] = out.heap[after] if isinstance(after, Ref) else self.as_list(after, out)
                    out.env[name] = r0
        return out

    def strip_acc(self, after, h):
        """after == h ∪ c1 ∪ c2 …  ->  [c1, c2, …]   (None if `after` is not an extension of `h`)"""
        if after == h:
            return []
        if after[0] == "union":
            left = self.strip_acc(after[1], h)
            return None if left is None else left + [after[2]]
        if after[0] == "addset":
            left = self.strip_acc(after[1], h)
            return None if left is None else left + [("single", after[2])]
        return None

    def acc_loop(self, s: ast.For, lst, x, st: State, tree, plist, flags, others, k):  # noqa: C901  pylint: disable=too-many-locals,too-many-branches,too-many-statements
        need(not flags, "flags in an accumulating loop")       # (builder loops re-run concretely: see builder_loop)
        hvars = [iv for _, iv, _ in others]
        # per cell: contribution of one element, as an expression in x (if it does not depend on any accumulator)
        contribs: dict = {}
        raises: list = []
        threaded = False
        for conds, lf in plist:
            cexpr = And(*[(c if pol else Not(c)) for c, pol in conds])
            if any(free_in(cexpr, hv[1]) for hv in hvars):
                threaded = True
            if lf[1] == "raise":
                raises.append((cexpr, lf[2]))
                continue
            stl = self.normalise_rebinds(s, st, lf[3])
            for key, iv, _before in others:
                after = stl.heap[key[1]]
                parts = self.strip_acc(after, iv) if key[1].kind in ("set", "list") else None
                if parts is None:
                    if key[1].kind in ("set", "list") and not free_in(after, iv[1]):
                        raise Unsupported("a loop overwrites its accumulator on every iteration: the result depends on the "
                                          "iteration order of the set")
                    threaded = True
                    continue
                if any(free_in(p, hv[1]) for p in parts for hv in hvars):
                    threaded = True
                contribs.setdefault(key, []).append((cexpr, parts))
        if threaded:
            for c, _ in raises:
                need(not any(free_in(c, hv[1]) for hv in hvars), "raise inside a state-threading loop depends on the state")

            def guarded(st2):
                return self.fold_loop(s, lst, x, st2, tree, others, k, skip_raise=True)
            cont = guarded
            for kind in sorted({kd for _, kd in raises}, reverse=True):
                rc = canon_nonempty(Any(lst, ("lam", x[1], Or(*[c for c, kd in raises if kd == kind]))))
                cont = (lambda rc=rc, kind=kind, inner=cont: lambda st2: self.fork(
                    rc, st2, lambda t: leaf("raise", kind, t), inner))()
            return cont(st)
        st_out = st.copy()
        for key, iv, before in others:
            total = Nil("LComp")
            # the contribution of one element: the parts of the path that is taken
            per_elem = None
            for cexpr, parts in reversed(contribs.get(key, [])):
                c = Nil("LComp")
                for prt in parts:
                    c = Union(c, prt)
                per_elem = c if per_elem is None else Ite(cexpr, c, per_elem)
            del total
            add = self.flat(lst, x, per_elem if per_elem is not None else Nil("LComp"))
            if key[1].kind == "set" and add[0] != "nil" and ty(add) == "LNat":
                add = ("dedup", add)         # a SET of ids: `add` of an id that is already there changes nothing
            st_out.heap[key[1]] = self.union(before, add)
        cont = k(st_out)
        for kind in sorted({kd for _, kd in raises}, reverse=True):
            rc = Or(*[c for c, kd in raises if kd == kind])
            cont = branch(canon_nonempty(Any(lst, ("lam", x[1], rc))), leaf("raise", kind, st.copy()), cont)
        return cont

    @staticmethod
    def flat(lst, x, contrib):
        """⋃_{x ∈ lst} contrib(x) in normal form."""
        if contrib[0] == "nil":
            return Nil("LComp")
        if contrib[0] == "single":
            e = contrib[1]
            return lst if e == x else Map(lst, ("lam", x[1], e), "LComp" if ty(e) == "Comp" else "LNat")
        if contrib[0] == "ite" and contrib[3][0] == "nil":
            inner = InterpLoops.flat(Filter(lst, ("lam", x[1], contrib[1])), x, contrib[2])
            return inner
        if contrib[0] == "ite" and contrib[2][0] == "nil":
            return InterpLoops.flat(Filter(lst, ("lam", x[1], Not(contrib[1]))), x, contrib[3])
        return ("flatmap", lst, ("lam", x[1], contrib), "LComp")

    def fold_loop(self, s: ast.For, lst, x, st: State, tree, others, k, skip_raise: bool = False):
        """General form: a left fold whose state is the tuple of the containers the body changes."""
        # threaded cells (updated through a call) first, accumulators after: canonical order
        def is_acc(c):
            key, iv, _ = c
            for _, lf in paths(tree):
                if lf[1] in ("fall", "continue"):
                    stl = self.normalise_rebinds(s, st, lf[3])
                    if key[1].kind == "dict" or self.strip_acc(stl.heap[key[1]], iv) is None:
                        return False
            return True
        cells = sorted(others, key=is_acc)
        stv = V(fresh("st"), "Pair")

        def proj(j: int, t: str):
            return ("proj", stv, j + 1, t) if len(cells) > 1 else stv

        def body_expr(tr):
            if tr[0] == "br":
                return Ite(tr[1], body_expr(tr[2]), body_expr(tr[3]))
            if tr[1] == "raise" and skip_raise:          # (excluded by the guard around the fold)
                vals = [iv for _, iv, _ in cells]
                return ("tuple", tuple(vals)) if len(vals) > 1 else vals[0]
            need(tr[1] in ("fall", "continue"), f"{tr[1]} inside a state-threading loop")
            stl = self.normalise_rebinds(s, st, tr[3])
            vals = [stl.heap[key[1]] for key, _, _ in cells]
            return ("tuple", tuple(vals)) if len(vals) > 1 else vals[0]
        body = body_expr(tree)
        if len(cells) == 1 and cells[0][0][1].kind == "dict" and lst[0] == "dictitems" and body[0] == "dset":
            (_, iv, before) = cells[0]
            if body[1] == iv and body[2] == ("proj", x, 1, "Comp") and not free_in(body[3], iv[1]) and before[0] == "nil":
                # one entry per item of another dict, under the same key: {k: f(k, v) for k, v in other.items()}
                st_out = st.copy()
                st_out.heap[cells[0][0][1]] = ("fdmap", lst[1], ("lam", x[1], body[3]))
                return k(st_out)
        for j, (_, iv, before) in enumerate(cells):
            body = subst(body, iv[1], proj(j, ty(self.fix_nil(before, "LComp"))))
        init = [self.fix_nil(b, "LComp") for _, _, b in cells]
        fold = ("foldl", lst, ("tuple", tuple(init)) if len(init) > 1 else init[0], ("lam", (stv[1], x[1]), body))
        st_out = st.copy()
        for j, (key, _, before) in enumerate(cells):
            st_out.heap[key[1]] = ("proj", fold, j + 1, ty(self.fix_nil(before, "LComp"))) if len(cells) > 1 else fold
        return k(st_out)

    # ------------------------------------------------------------------ dicts / builders (generators)
    def dict_method(self, o: Ref, name: str, args: list, st: State, k):
        raise Unsupported(f"dict.{name}")

    def dict_set(self, o: Ref, key, v, st: State, k):
        raise Unsupported("dict item assignment")

    def builder_method(self, o: Ref, name: str, args: list, kwargs: dict, st: State, k):
        raise Unsupported(f"builder.{name}")

    def construct(self, cls: str, args: list, kwargs: dict, st: State, k):
        if cls in EXC_KINDS or cls in ("ValueError", "RuntimeError", "KeyError", "Exception"):
            return k(("exc", cls), st)
        raise Unsupported(f"constructor {cls}")

    def call_anchored(self, f: Anchored, args: list, kwargs: dict, st: State, k):
        need(not kwargs, f"{f.key}: keyword arguments")
        lean = self.ensure_anchored(f.key)
        args = [self.as_list(a, st) if isinstance(a, Ref) else a for a in args]
        for a in args:
            need(isinstance(a, tuple), f"{f.key}({a!r})")
        rt = {"_get_meter_fallback_components": "LComp", "_get_metric_fallback_components": "CDict"}.get(f.key, "Bool")
        if rt == "CDict":
            return self.new_ref("dict", ("call", lean, tuple(args), rt), st, k)
        return k(("call", lean, tuple(args), rt), st)


# ============================================================================================== anchored functions -> Lean
class Translator(InterpLoops):
    def __init__(self, repo: pathlib.Path):
        super().__init__(repo)
        self.in_dfs = False

    def fn_expr(self, fn: ast.FunctionDef, env: dict, heap: dict, want: str):
        st = State(env, heap)
        tree = self.ex(self.body(fn), 0, st, lambda s: leaf("ret", NONE, s))
        return tree

    def ensure_anchored(self, key: str) -> str:
        if key in GRAPH_ANCHORED:
            lean = GRAPH_ANCHORED[key]
            if lean in self.defs or lean in self.in_progress:
                need(lean in self.defs, f"{key} is recursive")
                return lean
            self.in_progress.add(lean)
            fn = self.find_method(GRAPH_CLASS, key)
            need(fn is not None, f"{key} missing")
            params = [a.arg for a in fn.args.args]
            need(len(params) == 2 and params[0] == "self", f"{key}: parameters")
            c = V("c", "Comp")
            tree = self.fn_expr(fn, {"self": GraphObj(), params[1]: c}, {}, "Bool")
            e = canon_nonempty(blake(self.tree_value(tree, "Bool")))
            self.defs[lean] = f"/-- `{key}` -/\ndef {lean} (c : Comp) : Bool :=\n  {pr(e)}"
            self.in_progress.discard(lean)
            return lean
        raise Unsupported(f"anchored function {key}")

    def ensure_dfs(self) -> None:
        if "dfs" in self.defs or self.in_dfs:
            return
        fn = self.find_method(GRAPH_CLASS, "dfs")
        need(fn is not None, "dfs missing")
        params = [a.arg for a in fn.args.args]
        need(len(params) == 4 and params[0] == "self", "dfs: parameters")
        vis = Ref("set")
        env = {"self": GraphObj(), params[1]: V("c", "Comp"), params[2]: vis, params[3]: V("cond", "Fun")}
        self.in_dfs = True
        try:
            tree = self.fn_expr(fn, env, {vis: V("vis", "LComp")}, "Pair")
        finally:
            self.in_dfs = False

        def pair(tr):
            if tr[0] == "br":
                return Ite(tr[1], pair(tr[2]), pair(tr[3]))
            need(tr[1] == "ret", f"dfs {tr[1]}s")
            v, s = tr[2], tr[3]
            res = self.fix_nil(s.heap[v] if isinstance(v, Ref) else self.as_list(v, s), "LComp")
            return ("tuple", (s.heap[vis], res))
        e = pair(tree)
        self.defs["dfs"] = (
            "/-- `dfs(current_node, visited, condition)` -> (visited afterwards, the components found); the recursion of the\n"
            "Python function is bounded by `fuel` (sufficiency: `Lemmas/GraphTie.lean`). -/\n"
            "def dfs : Nat → Comp → List Comp → (Comp → Bool) → List Comp × List Comp\n"
            "  | 0, _, vis, _ => (vis, [])\n"
            f"  | fuel + 1, c, vis, cond =>\n    {pr(e)}")


class Generators(Translator):  # pylint: disable=too-many-public-methods
    """Dictionaries, the formula builder, generator objects: what `generate()` of the formula generators needs."""

    def ensure_anchored(self, key: str) -> str:  # noqa: C901
        if key not in GEN_ANCHORED:
            return super().ensure_anchored(key)
        lean = GEN_ANCHORED[key]
        if lean in self.defs:
            return lean
        need(lean not in self.in_progress, f"{key} is recursive")
        self.in_progress.add(lean)
        owners = [c for c in self.classes if any(isinstance(m, ast.FunctionDef) and m.name == key for m in self.classes[c].body)]
        need(owners == [GEN_BASE], f"{key} is defined in {owners}")
        fn = self.find_method(GEN_BASE, key)
        params = [a.arg for a in fn.args.args]
        me = GenSelf(GEN_BASE, V("allowFallback", "Bool"), NONE, False)
        if key == "_get_meter_fallback_components":
            need(len(params) == 2, f"{key}: parameters")
            tree = self.fn_expr(fn, {"self": me, params[1]: V("c", "Comp")}, {}, "LComp")
            e = self.tree_list(tree)
            self.defs[lean] = f"/-- `{key}` -/\ndef {lean} (c : Comp) : List Comp :=\n  {pr(canon_nonempty(e))}"
        elif key == "_is_primary_fallback_pair":
            need(len(params) == 3, f"{key}: parameters")
            tree = self.fn_expr(fn, {"self": me, params[1]: V("p", "Comp"), params[2]: V("c", "Comp")}, {}, "Bool")
            e = canon_nonempty(blake(self.tree_value(tree, "Bool")))
            self.defs[lean] = f"/-- `{key}(primary, fallback)` -/\ndef {lean} (p c : Comp) : Bool :=\n  {pr(e)}"
        else:
            need(len(params) == 2, f"{key}: parameters")
            comps = Ref("set")
            tree = self.fn_expr(fn, {"self": me, params[1]: comps}, {comps: V("comps", "LComp")}, "CDict")
            need(tree[0] == "leaf" and tree[1] == "ret" and isinstance(tree[2], Ref), f"{key}: result")
            e = tree[3].heap[tree[2]]
            need(e[0] == "foldl" and e[1] == V("comps", "LComp") and e[2] == Nil("CDict"),
                 f"{key}: not one pass over the components that fills an empty dict")
            (dv, xv), body = e[3][1], e[3][2]
            body = subst(subst(body, dv, V("d", "CDict")), xv, V("x", "Comp"))
            self.defs["mfcStep"] = (f"/-- one iteration of the loop of `{key}` -/\n"
                                    f"def mfcStep (comps : List Comp) (d : CDict) (x : Comp) : CDict :=\n  {pr(body)}")
            self.defs[lean] = (f"/-- `{key}`: primary component -> its fallback components -/\n"
                               f"def {lean} (comps : List Comp) : CDict :=\n  comps.foldl (mfcStep comps) []")
        self.in_progress.discard(lean)
        return lean

    def tree_list(self, tree):
        if tree[0] == "br":
            return Ite(tree[1], self.tree_list(tree[2]), self.tree_list(tree[3]))
        need(tree[1] == "ret", f"a value was expected, the code {tree[1]}s")
        v = tree[2]
        return self.fix_nil(tree[3].heap[v] if isinstance(v, Ref) else self.as_list(v, tree[3]), "LComp")

    def generator(self, cls: str, lean: str, ids: bool, allow_fallback=None) -> None:
        fn = self.find_method(cls, "generate")
        need(fn is not None, f"{cls}.generate missing")
        me = GenSelf(cls, V("allowFallback", "Bool") if allow_fallback is None else allow_fallback,
                     V("ids", "LNat") if ids else NONE, ids)
        tree = self.ex(self.body(fn), 0, State({"self": me}, {}), lambda s: leaf("ret", NONE, s))
        e = canon_nonempty(self.formula_value(tree))
        e = self.hoist_mapping(e, cls)
        sig = "(G : Grid)" + (" (allowFallback : Bool)" if allow_fallback is None else "") + (" (ids : List Nat)" if ids else "")
        self.defs[lean] = f"/-- `{cls}.generate()` -/\ndef {lean} {sig} : Graph.Formula :=\n  {pr(e)}"

    def hoist_mapping(self, e, cls: str):
        """The dict a generator builds from its requested ids in a loop of its own (`inv_bat_mapping`) gets a name."""
        found = []

        def walk(x):
            if isinstance(x, tuple) and x:
                if isinstance(x[0], str) and x[0] == "foldl" and x[2] == Nil("CDict") and x[1] == V("ids", "LNat"):
                    if x not in found:
                        found.append(x)
                    return
                for y in x:
                    walk(y)
        walk(e)
        if not found:
            return e
        need(len(found) == 1, f"{cls}: several dict-building loops over the requested ids")
        name = {"BatteryPowerFormula": "inverterBatteries"}.get(cls, cls[0].lower() + cls[1:] + "Mapping")
        text = (f"/-- the dict `{cls}.generate()` builds from the requested ids (inverter -> its batteries) -/\n"
                f"def {name} (G : Grid) (ids : List Nat) : CDict :=\n  {pr(found[0])}")
        if name in self.defs:
            need(alpha(self.defs[name]) == alpha(text), f"{cls}: the two variants build different mappings")
        else:
            self.defs[name] = text
        return replace_expr(e, found[0], ("call", name, (K("Grid", "G"), V("ids", "LNat")), "CDict"))

    # ------------------------------------------------------------------ dict[Component, …]
    def dict_value(self, v, st: State):
        if isinstance(v, Ref):
            need(v.kind in ("set", "list"), f"dict value {v.kind}")
            return self.fix_nil(st.heap[v], "LComp")
        if v == NONE:
            return ("fbnil",)
        if isinstance(v, tuple) and v[0] == "fb":
            return v
        if isinstance(v, tuple) and ty(v) == "LComp":
            return v
        raise Unsupported(f"dict value {v!r}")

    def dict_set(self, o: Ref, key, v, st: State, k):
        need(isinstance(key, tuple) and ty(key) == "Comp", f"dict key {key!r}")
        st = st.copy()
        st.heap[o] = self.dset(st.heap[o], key, self.dict_value(v, st))
        return k(st)

    @staticmethod
    def dset(d, key, val):
        return ("dset", d, key, val)

    def dict_method(self, o: Ref, name: str, args: list, st: State, k):
        cur = st.heap[o]
        if name == "setdefault":
            key, default = args
            dv = self.dict_value(default, st)
            need(dv[0] == "nil", "setdefault with a non-empty default")
            return k(("dslot", o, key, "default"), st)
        if name == "items":
            return k(("dictitems", cur), st)
        if name == "keys":
            return k(("dictkeys", cur), st)
        if name == "get":
            raise Unsupported("dict.get (a cache?)")
        raise Unsupported(f"dict.{name}")

    def slot_method(self, slot, name: str, args: list, st: State, k):
        """`d[k].add(x)` / `d.setdefault(k, set()).add(x)`"""
        o, key = slot[1], slot[2]
        need(name == "add" and len(args) == 1, f"method .{name} of a dict entry")
        cur = st.heap[o]
        st = st.copy()
        if len(slot) > 3:
            st.heap[o] = ("daddto", cur, key, args[0])
        elif cur[0] == "dset" and cur[2] == key and cur[3][0] == "nil":
            st.heap[o] = ("dset", cur[1], key, ("single", args[0]))      # d[k] = set(); d[k].add(x)
        else:
            st.heap[o] = ("dadd", cur, key, args[0])
        return k(NONE, st)

    def method(self, o, name: str, args: list, kwargs: dict, st: State, k):
        if isinstance(o, tuple) and o and o[0] == "dslot":
            return self.slot_method(o, name, args, st, k)
        if isinstance(o, tuple) and o and o[0] == "built":
            raise Unsupported(f"method .{name} of a built engine")
        return super().method(o, name, args, kwargs, st, k)

    # ------------------------------------------------------------------ the formula builder: signed terms
    def builder_method(self, o: Ref, name: str, args: list, kwargs: dict, st: State, k):
        tag, terms, pending = st.heap[o]
        assert tag == "bstate"
        st = st.copy()
        if name == "push_oper":
            (op,) = args
            need(not kwargs and isinstance(op, Py) and op.v in ("+", "-"), f"push_oper({op!r})")
            need(pending in (None, "?"), "push_oper where an operand is expected: the formula is not a flat +/- chain")
            st.heap[o] = ("bstate", terms, op.v if pending is None else "?")
            return k(NONE, st)
        if name == "push_component_metric":
            need(len(args) == 1, "push_component_metric: arguments")
            need(set(kwargs) <= {"nones_are_zeros", "fallback"} and "nones_are_zeros" in kwargs, "push_component_metric: keywords")
            need(pending in ("start", "+", "-", "?"), "push_component_metric where an operator is expected")
            cid = self.to_ir(args[0])
            need(ty(cid) == "Nat", "push_component_metric: id")
            naz = as_bool(kwargs["nones_are_zeros"])
            fb = kwargs.get("fallback", NONE)
            fb = ("fbnil",) if fb == NONE else fb
            if isinstance(fb, tuple) and fb[0] == "dslot" and len(fb) == 3:
                d, key = st.heap[fb[1]], fb[2]
                need(d[0] == "fdmap" and key[0] == "proj" and key[2] == 1 and ty(key[1]) == "PairCL",
                     "fallback=<dict>[<key>] outside a loop over that dict")
                fb = lam_apply(d[2], key[1])
            need(isinstance(fb, tuple) and fb[0] in ("fbnil", "fb", "proj", "ite", "fbof"), f"fallback={fb!r}")
            term = ("term", TRUE if pending == "-" else FALSE, cid, naz, fb)
            st.heap[o] = ("bstate", ("tapp", terms, ("tsingle", term)) if terms != ("tnil",) else ("tsingle", term),
                          None if pending != "?" else "?")
            return k(NONE, st)
        if name == "build":
            need(pending in (None, "start?"), "build() of a formula that ends with an operator / is empty")
            return k(("built", o), st)
        raise Unsupported(f"builder.{name}")

    # ------------------------------------------------------------------ loops that push terms
    def builder_loop(self, s: ast.For, lst, x, elem, enum: bool, st: State, k):  # noqa: C901  pylint: disable=too-many-locals
        """Every iteration appends terms to the builder.  The operator bookkeeping (`if idx > 0`, a `first` flag) is
        executed concretely for the first, second and third iteration; the terms appended per element must be the
        same expression from the first iteration on and the bookkeeping must be stable from the second."""
        need(not s.orelse, "for/else around builder pushes")
        used = {st.env[n.id] for b in s.body for n in ast.walk(b)
                if isinstance(n, ast.Name) and isinstance(st.env.get(n.id), Ref) and st.env[n.id].kind == "builder"}
        need(len(used) == 1, "a push loop must use exactly one builder")
        (bref,) = used
        flag_names = sorted(n for n in assigned_names(s.body) if isinstance(st.env.get(n), Py) and isinstance(st.env[n].v, bool))

        def iteration(flags: dict, notfirst: bool, pending):
            s0 = st.copy()
            hb = V(fresh("h"), "LTerm")
            s0.heap[bref] = ("bstate", hb, pending)
            for n, v in flags.items():
                s0.env[n] = Py(v)
            self.notfirst_val = TRUE if notfirst else FALSE
            try:
                s0 = self.bind_target(s.target, ("enumitem", elem) if enum else elem, s0)
                tree = self.ex(s.body, 0, s0, lambda s2: leaf("fall", None, s2))
            finally:
                self.notfirst_val = None
            outs = set()
            contrib = None
            for conds, lf in reversed(list(paths(tree))):
                need(lf[1] in ("fall", "continue"), f"{lf[1]} inside a loop that pushes formula terms")
                for r, v in st.heap.items():
                    need(r is bref or lf[3].heap.get(r) == v, "a loop that pushes formula terms also changes another container")
                _, terms, pend = lf[3].heap[bref]
                parts = self.strip_terms(terms, hb)
                need(parts is not None, "the builder is replaced inside a loop")
                fl = tuple(lf[3].env[n].v if isinstance(lf[3].env.get(n), Py) else None for n in flag_names)
                need(None not in fl, "a bookkeeping flag of a push loop becomes symbolic")
                outs.add((fl, pend))
                cexpr = And(*[(c if pol else Not(c)) for c, pol in conds])
                need(not free_in(cexpr, hb[1]), "a test on the builder inside a push loop")
                contrib = parts if contrib is None else Ite(cexpr, parts, contrib)
            need(len(outs) == 1, "the operator bookkeeping of a push loop depends on the element")
            ((fl, pend),) = outs
            return contrib, dict(zip(flag_names, fl)), pend

        _, terms0, pend0 = st.heap[bref]
        flags0 = {n: st.env[n].v for n in flag_names}
        c1, f1, p1 = iteration(flags0, False, pend0)
        c2, f2, p2 = iteration(f1, True, p1)
        c3, f3, p3 = iteration(f2, True, p2)
        need((f2, p2) == (f3, p3) and alpha_eq(c2, c3), "the operator bookkeeping of a push loop does not stabilise")
        need(alpha_eq(c1, c2), "the first iteration of a push loop pushes different terms than the later ones")
        st_out = st.copy()
        for n, v in f2.items():
            st_out.env[n] = Py(v)       # (a flag read after the loop: its value after at least one iteration)
        add = ("tflat", lst, ("lam", x[1], c1))
        if c1[0] == "tsingle":
            add = ("tmap", lst, ("lam", x[1], c1[1]))
        elif c1[0] == "tnil":
            add = ("tnil",)
        if terms0[0] == "tsingle" and lst[0] == "tail" and add[0] == "tmap" and st.known(Not(IsEmpty(lst[1]))) \
                and terms0[1] == subst(add[2][2], add[2][1], ("first", lst[1])):
            # first element pushed before the loop, the others inside it:  [t (head l)] ++ (tail l).map t  =  l.map t
            terms0, add = ("tnil",), ("tmap", lst[1], add[2])
        st_out.heap[bref] = ("bstate", add if terms0 == ("tnil",) else ("tapp", terms0, add) if add != ("tnil",) else terms0,
                             p2 if pend0 == p2 or st.known(Not(IsEmpty(self.base_list(lst)))) else self.maybe(pend0, p2))
        return k(st_out)

    @staticmethod
    def base_list(lst):
        return lst

    @staticmethod
    def maybe(p0, p1):
        # the list may be empty: afterwards an operand is expected iff it was before, or the loop ran
        need({p0, p1} <= {"start", None}, "after a push loop the builder may or may not expect an operand")
        return None if p0 is None else "start?"

    def strip_terms(self, after, hb):
        if after == hb:
            return ("tnil",)
        if after[0] == "tapp":
            left = self.strip_terms(after[1], hb)
            if left is None:
                return None
            return after[2] if left == ("tnil",) else ("tapp", left, after[2])
        return None

    # ------------------------------------------------------------------ constructors
    def construct(self, cls: str, args: list, kwargs: dict, st: State, k):  # noqa: C901
        if cls == "ResampledFormulaBuilder":
            return self.new_ref("builder", ("bstate", ("tnil",), "start"), st, k)
        if cls == "FormulaGeneratorConfig":
            need(not args, "FormulaGeneratorConfig: positional arguments")
            ids = kwargs.get("component_ids", NONE)
            af = kwargs.get("allow_fallback", Py(True))
            return k(("cfg", ids if ids == NONE else self.as_list(ids, st), as_bool(af)), st)
        if cls in self.classes and "FormulaGenerator" in self.mro(cls):
            vals = list(args)
            cfg = kwargs.get("config", vals[3] if len(vals) > 3 else None)
            need(isinstance(cfg, tuple) and cfg[0] == "cfg", f"{cls}(…): config")
            return k(GenSelf(cls, cfg[2], cfg[1], cfg[1] != NONE), st)
        if cls == "FallbackFormulaMetricFetcher":
            need(len(args) + len(kwargs) == 1 and set(kwargs) <= {"formula_generator"}, "FallbackFormulaMetricFetcher(…): arguments")
            gen = args[0] if args else kwargs["formula_generator"]
            need(isinstance(gen, GenSelf), "FallbackFormulaMetricFetcher(<not a generator>)")
            return k(("fb", self.fallback_terms(gen, st)), st)
        return super().construct(cls, args, kwargs, st, k)

    def fallback_terms(self, gen: GenSelf, st: State):
        """The formula a fallback generator WOULD generate (it is generated lazily by the fetcher): a plain sum
        `[(id, nones_are_zeros)]`."""
        fn = self.find_method(gen.cls, "generate")
        need(fn is not None, f"{gen.cls}.generate missing")
        if gen.cls == "BatteryPowerFormula":
            need(gen.allow_fallback == FALSE and gen.ids_given, "fallback battery formula: config")
            if "batteryFormulaNoFallback" not in self.defs:
                self.generator("BatteryPowerFormula", "batteryFormulaNoFallback", True, allow_fallback=FALSE)
            return ("fbof", ("call", "batteryFormulaNoFallback", (K("Grid", "G"), gen.component_ids), "Formula"))
        tree = self.ex(self.body(fn), 0, State({"self": gen}, dict(st.heap), st.facts), lambda s: leaf("ret", NONE, s))
        return self.formula_value(tree, fallback=True)

    def formula_value(self, tree, fallback: bool = False):
        """Result tree of a `generate()` -> IR of type Formula (or, for a fallback formula, its list of pairs)."""
        if tree[0] == "br":
            a, b = self.formula_value(tree[2], fallback), self.formula_value(tree[3], fallback)
            if fallback:            # an error inside a lazily generated fallback formula is not modelled: drop that branch
                if a is None:
                    return b
                if b is None:
                    return a
            return Ite(tree[1], a, b)
        if tree[1] == "raise":
            if fallback:
                return None
            need(tree[2] in EXC_KINDS, f"generate() raises {tree[2]}")
            return ("ferr", EXC_KINDS[tree[2]])
        need(tree[1] == "ret" and isinstance(tree[2], tuple) and tree[2][0] == "built", "generate() does not return the built engine")
        terms = tree[3].heap[tree[2][1]][1]
        if fallback:
            return self.pairs_of(terms)
        return ("fok", terms)

    def pairs_of(self, terms):
        """terms of a fallback formula -> list of (id, naz); every term must be `+`, without a nested fallback."""
        tag = terms[0]
        if tag == "tnil":
            return ("pnil",)
        if tag == "tsingle":
            t = terms[1]
            need(t[1] == FALSE and t[4] == ("fbnil",), "a fallback formula is not a plain sum")
            return ("psingle", t[2], t[3])
        if tag == "tapp":
            return ("papp", self.pairs_of(terms[1]), self.pairs_of(terms[2]))
        if tag == "tmap":
            t = terms[2][2]
            need(t[0] == "term" and t[1] == FALSE and t[4] == ("fbnil",), "a fallback formula is not a plain sum")
            return ("pmap", terms[1], ("lam", terms[2][1], ("ppair", t[2], t[3])))
        raise Unsupported(f"fallback formula {tag}")


def alpha_eq(a, b) -> bool:
    import re
    def norm(e):
        seen = {}
        return re.sub(r"\b(st|[xefhta])\d+\b", lambda m: seen.setdefault(m.group(0), f"v{len(seen)}"), repr(e))
    return norm(a) == norm(b)


def alpha(text: str) -> str:
    """Bound variables numbered in order of appearance within one definition."""
    import re
    seen: dict[str, str] = {}

    def ren(m):
        if m.group(0) not in seen:
            seen[m.group(0)] = f"{'st' if m.group(1) == 'st' else 'x'}{len(seen) + 1}"
        return seen[m.group(0)]
    return re.sub(r"\b(st|[xefhta])\d+\b", ren, text)


def generate(repo: pathlib.Path) -> str:
    global _fresh  # pylint: disable=global-statement
    _fresh = itertools.count(1)
    t = Generators(repo)
    for key in GRAPH_ANCHORED:
        t.ensure_anchored(key)
    t.ensure_dfs()
    for key in GEN_ANCHORED:
        t.ensure_anchored(key)
    t.generator("GridPowerFormula", "gridFormula", False)
    t.generator("ProducerPowerFormula", "producerFormula", False)
    t.generator("ConsumerPowerFormula", "consumerFormula", False)
    t.generator("BatteryPowerFormula", "batteryFormulaNoFallback", True, allow_fallback=FALSE)
    t.generator("BatteryPowerFormula", "batteryFormula", True, allow_fallback=TRUE)
    t.generator("EVChargerPowerFormula", "evFormula", True, allow_fallback=TRUE)
    t.generator("CHPPowerFormula", "chpFormula", False, allow_fallback=TRUE)
    t.generator("PVPowerFormula", "pvFormula", True)
    out = ["import Frequenz.Model.Graph", "", "set_option linter.unusedVariables false", "",
           "namespace Extracted.GraphLoops", "open Extracted.Graph",
           "open _root_.Graph (Comp Grid firstComp lastComp memIds subsetIds unionIds CDict)", ""]
    for name, text in t.defs.items():
        out += [alpha(text), ""]
    out.append("end Extracted.GraphLoops")
    return "\n".join(out) + "\n"


if __name__ == "__main__":
    print(generate(pathlib.Path(sys.argv[1] if len(sys.argv) > 1 else "/repo")))
