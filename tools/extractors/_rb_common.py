"""Shared machinery of the ring-buffer extractors.

Three parts:

1. `tr` / `prop`: integer / boolean Python expression -> Lean term.  `prop` emits a *canonical* proposition (negations
   pushed to the atoms, `>`/`≥` written as `<`/`≤`, operands of `=`/`≠`/`∧`/`∨` sorted, nested `∧`/`∨` flattened), so
   that Lean-equivalent spellings of one test give one text.
2. `normalize`: a behaviour-preserving normal form of a method (see the list of steps below).  It knows nothing about
   the ring buffer except the table of side-effect-free callables `PURE_CALLS`.
3. `match`: unification of the normal form with a recorded *pattern* (the normal form of the modelled method with
   `HOLE_x` in place of every expression that is translated on each run).  Local names of the pattern are variables
   (bound bijectively to the locals of the method), a hole binds the expression found in its place, everything else has
   to be identical.  A method that does not unify with any recorded pattern raises `Bad` — the extractor never guesses.
"""
from __future__ import annotations

import ast
import copy
import itertools
import re


class Bad(Exception):
    pass


# ============================================================================= 1. Lean terms
BIN = {ast.Add: "+", ast.Sub: "-", ast.Mult: "*", ast.FloorDiv: "/", ast.Mod: "%"}
_CMP = {ast.Lt: "<", ast.LtE: "≤", ast.Gt: ">", ast.GtE: "≥", ast.Eq: "=", ast.NotEq: "≠"}
_NOT = {"<": "≥", "≤": ">", ">": "≤", "≥": "<", "=": "≠", "≠": "="}


def tr(n: ast.expr, names: dict[str, str]) -> str:
    """Integer-valued Python expression -> Lean `Int` term.  `names`: python source text -> Lean variable."""
    src = ast.unparse(n)
    if src in names:
        return names[src]
    if isinstance(n, ast.Constant) and isinstance(n.value, int) and not isinstance(n.value, bool):
        return f"({n.value})"
    if isinstance(n, ast.BinOp) and type(n.op) in BIN:
        return f"({tr(n.left, names)} {BIN[type(n.op)]} {tr(n.right, names)})"
    if isinstance(n, ast.UnaryOp) and isinstance(n.op, ast.USub):
        return f"(-{tr(n.operand, names)})"
    if isinstance(n, ast.Call) and isinstance(n.func, ast.Name) and n.func.id in ("max", "min") and len(n.args) == 2 \
            and not n.keywords:
        # equal arguments are indistinguishable integers: Python's first-wins rule does not matter here
        return f"({n.func.id} {tr(n.args[0], names)} {tr(n.args[1], names)})"
    raise Bad(f"cannot translate expression `{src}`")


def _literal(t: str) -> bool:
    return t[1:-1].lstrip("-").isdigit()


def _atom(left: str, op: str, right: str) -> str:
    if op == ">":
        left, right, op = right, left, "<"
    elif op == "≥":
        left, right, op = right, left, "≤"
    elif op in ("=", "≠") and (_literal(right), right) < (_literal(left), left):
        left, right = right, left                     # sorted operands, a literal on the right
    return f"({left} {op} {right})"


def _ptree(n: ast.expr, names: dict[str, str], neg: bool):
    src = ast.unparse(n)
    if "truth:" + src in names:                 # the truth value of a number / timedelta: `≠ 0`
        t = names["truth:" + src]
        return ("atom", _atom(t, "=" if neg else "≠", "(0)"))
    if src in names:
        return ("atom", f"(¬ {names[src]})" if neg else names[src])
    if isinstance(n, ast.UnaryOp) and isinstance(n.op, ast.Not):
        return _ptree(n.operand, names, not neg)
    if isinstance(n, ast.Compare):
        parts, left = [], n.left
        for op, right in zip(n.ops, n.comparators):
            if type(op) not in _CMP:
                raise Bad(f"comparison in `{src}`")
            o = _CMP[type(op)]
            parts.append(("atom", _atom(tr(left, names), _NOT[o] if neg else o, tr(right, names))))
            left = right
        return parts[0] if len(parts) == 1 else ("or" if neg else "and", parts)
    if isinstance(n, ast.BoolOp):
        # the operands are pure integer comparisons: `and` / `or` commute, their order in the source is irrelevant
        return ("and" if isinstance(n.op, ast.And) != neg else "or", [_ptree(v, names, neg) for v in n.values])
    raise Bad(f"cannot translate condition `{src}`")


def _pshow(t) -> str:
    if t[0] == "atom":
        return t[1]
    parts: set[str] = set()

    def add(c) -> None:
        if c[0] == t[0]:
            for g in c[1]:
                add(g)
        else:
            parts.add(_pshow(c))

    add(t)
    ps = sorted(parts)
    return ps[0] if len(ps) == 1 else "(" + (" ∧ " if t[0] == "and" else " ∨ ").join(ps) + ")"


def prop(n: ast.expr, names: dict[str, str]) -> str:
    """Boolean Python expression over integer comparisons -> canonical decidable Lean `Prop`."""
    return _pshow(_ptree(n, names, False))


def lean_prop(name: str, params: str, body: str, doc: str) -> str:
    """A translated condition as an opaque `def … : Prop` with its `Decidable` instance.  Not an `abbrev`: the proofs
    must go through the `…_iff` lemmas of `Lemmas/RingBuffer*.lean` (proved by `unfold; omega` whatever the spelling
    of the condition is), never through the shape of the generated term."""
    args = " ".join(re.findall(r"[A-Za-z_][A-Za-z0-9_]*(?=[^():]*:)", params))
    return (f"/-- {doc} -/\ndef {name} {params} : Prop := {body}\n\n"
            f"instance {params} : Decidable ({name} {args}) := inferInstanceAs (Decidable {body if body.startswith('(') else '(' + body + ')'})\n")


# ============================================================================= 2. behaviour-preserving normal form
# Every step preserves the behaviour of the method.  (The modelled quantities are integers / datetimes / timedeltas:
# total orders without NaN — every comparison that survives outside a hole is pinned by a pattern, every comparison
# inside a hole is translated by `prop` to `Int`.  "Pure" = no side effect (`PURE_CALLS`, `PURE_METHODS`);
# "stateless" = pure and depending on the arguments only (`STATELESS_CALLS`); "total" = pure and unable to raise
# (`_total`): only a total expression is ever dropped, duplicated past a side effect or moved across one.)
#   a. docstring, `pass`, `assert`, `_logger.*` calls, annotations and the (pure) message of a raised exception are
#      dropped (not modelled); `return None` is `return`;
#   b. `match x: case T(): …` is `if isinstance(x, T): … elif …`; `x = A if C else B` / `return A if C else B` are
#      `if`s; `a, b = X, Y` is `a = X; b = Y` when `Y` does not read `a`; `x = x + 1` is `x += 1`;
#      `v = <simple>; if C: v = X` is `if C: v = X else: v = <simple>`;
#   c. tests are in negation normal form (`not` pushed through `and`/`or` and into single comparisons; a chained
#      comparison over a simple middle operand is a conjunction);
#   c'. comparisons have one spelling: in `a ± c <op> b ± d` the integer constants are on the side where their net value is
#      positive, and of `a <op> b` / `b <mirrored op> a` (pure operands) the one whose first operand has the smaller text
#      (locals by position) is used; a local that only ever holds a `Gap` or None is tested with `is not None`;
#      `self.m(k=x)` is `self.m(x)` for a method of the same class (or of a known peer object such as `self._buffer`);
#   c''. `a == b or a <= b` is `a <= b`, `a == b and a <= b` is `a == b` (the same pure operands; `==` ⇒ `<=`, `>=`;
#      `<` ⇒ `<=`, `!=`; `>` ⇒ `>=`, `!=`); `x[0:e]` is `x[:e]`; of a chain `t0 ± t1 ± …` the leading run of terms that are
#      certainly ints (literals, `len(…)`, `round(x)`, methods annotated `-> int`, parameters annotated `int`, locals
#      only ever bound to such, `+ - * // %` / `min` / `max` of those) is sorted (calls, locals by position, constants;
#      exact: `int` addition is associative and commutative, and the run is a sub-expression); `v += E` on such an int
#      local with a non-constant `E` is `v = v + E`;
#   d. `map(lambda x: E, it)` / `filter(lambda x: P, it)` are generator expressions, a generator over `enumerate(…)`
#      unpacks the pair, comprehension / lambda variables are renamed apart; the loops `acc = 0; for …: acc += E`,
#      `for …: if P: return True` + `return False` (and the `all` dual), `for …: if P: return V` + `return D`,
#      `v = D; for …: if P: v = V; break` are `sum(…)`, `any(…)`, `all(…)`, `next((…), D)` over a generator (the
#      loop variables must not be used after the loop); `for i, g in enumerate(<gaps>): if P: break` + `else: <ends>` with
#      the loop variables used afterwards is `i, g = next((…), (0, None)); if g is None: <ends>`;
#   e. calls of private helpers of the same class (or module) that have no pattern of their own are inlined (as an
#      expression when the helper is one `return E` and the arguments are simple, as statements for `return h(…)`,
#      `x = h(…)`, `h(…)`; a helper whose every path returns or raises is continued, at each of its `return`s, with what
#      follows the call);
#   f. the function is split on every parameter that is used as a condition and never assigned (`if p: <all> else:
#      <all>`), and inside an `if` on a local that cannot change its tests on that local are decided;
#   g. decisions: when a path through an `if` leaves the block (or all that follows is one `return`/`raise`), what
#      follows the `if` belongs to its branches; equal first statements of both branches come before a total test,
#      equal last statements after an `if` that no path leaves; of two branches the one that always ends comes
#      first (of two that end, a lone `raise`, then a lone `return`), otherwise the test is made positive; `if A: (if
#      B: X else: Y) else: Y` is `if A and B: X else: Y` (and the `or` dual), `if A and B: X elif A: Y else: R` is
#      `if A: (if B: X else: Y) else: R` (also with `if not A: R else: Y` inside) and, with a longer common prefix `P`
#      of pure conjuncts, `if P and B: X elif P and C: Y else: R` is `if P: (if B: X elif C: Y else: R) else: R`;
#      `if C: v = E1 else: v = E2` (a local; `C`, `E1`, `E2` boolean and pure) is `v = C and E1 or not C and E2`;
#      boolean functions: `if C: return True else: return E` is `return C or E`,
#      …; the `else` after a branch that ends is un-nested; a trailing `continue` / bare `return` is dropped;
#      `v = E; return v` is `return E`; `if C: v = E1 else: v = E2` + `T = v` (the only use of `v`) is
#      `if C: T = E1 else: T = E2`;
#   h. consecutive `if`s on the same local variable are merged when the first does not assign it — also when the
#      local is one conjunct of the tests with opposite signs and whatever precedes it in them is total:
#      `if not v and P: X` + `if Q and v: Y` is `if v: (if Q: Y) else: (if P: X)`; after `v = c[i]`
#      (an element of a container), `c[i]` is written `v` up to the first statement that could change `c` or `v`;
#   i. `v = E1; …; v = E2` in one block: the first definition gets a name of its own; then a local defined by a pure
#      expression is replaced by that expression at its uses when (1) it is the only definition reaching them (the
#      only assignment, or the rest of the block leaves the function), (2) nothing from the definition to the last use
#      can change what the expression reads (names, attributes — of any object, they may alias —, container contents;
#      an unknown call may change anything but attributes that only `__init__` assigns), (3) with several uses the
#      expression is call-free or calls stateless functions only, (4) an expression that may raise is first evaluated
#      before any side effect that used to come after it;
#   j. runs of plain assignments (and `if`s made of them) are put into the lexicographically least order reachable
#      by swapping ADJACENT INDEPENDENT statements.
# The steps are repeated until nothing changes.
NEG_OP = {ast.Lt: ast.GtE, ast.GtE: ast.Lt, ast.LtE: ast.Gt, ast.Gt: ast.LtE, ast.Eq: ast.NotEq, ast.NotEq: ast.Eq,
          ast.Is: ast.IsNot, ast.IsNot: ast.Is, ast.In: ast.NotIn, ast.NotIn: ast.In}
NEGATIVE_OPS = (ast.NotEq, ast.GtE, ast.Gt, ast.Is, ast.NotIn)     # (`x is not None`: presence, like the truth of `x`, is positive)
PURE_CALLS = {
    "max", "min", "len", "isinstance", "deepcopy", "round", "int", "sum", "any", "all", "map", "filter", "enumerate",
    "next", "slice", "timedelta", "Gap", "np.array", "divmod", "sorted", "abs", "bool", "range", "zip",
    "self.normalize_timestamp", "self.to_internal_index", "self.get_timestamp", "self.wrap", "self.is_missing",
    "self.has_value", "self.count_covered", "self.count_valid", "self._wrapped_buffer_window",
    "self._to_covered_indices", "self._covered_time_range",
    "self._buffer.count_covered", "self._buffer.count_valid", "self._buffer.get_timestamp",
    "self._buffer.normalize_timestamp", "self._buffer.is_missing", "self._buffer.to_internal_index",
}
# pure calls whose result depends on their arguments only (and on attributes that are never re-assigned)
STATELESS_CALLS = {"max", "min", "isinstance", "round", "int", "slice", "timedelta", "Gap", "divmod", "abs", "bool",
                   "range", "self.has_value", "self.normalize_timestamp", "self.wrap", "self._buffer.normalize_timestamp"}
# side-effect-free methods of the value objects (`Quantity.isnan`, `Gap.contains`, `timedelta.total_seconds`, …)
PURE_METHODS = {"isnan", "contains", "total_seconds", "timestamp", "indices"}
# private methods that have a pattern of their own (never inlined into their callers)
MODELLED_PRIVATE = {"_update_gaps", "_cleanup_gaps", "_remove_gap", "_fill_gaps", "_wrapped_buffer_window",
                    "_to_covered_indices", "_covered_time_range"}


def _name(id_: str, ctx=None) -> ast.Name:
    return ast.Name(id=id_, ctx=ctx or ast.Load())


def _dump(n) -> str:
    if isinstance(n, list):
        return "[" + ",".join(_dump(x) for x in n) + "]"
    return ast.dump(n)


# ----------------------------------------------------------------------------- tests
def negate(t: ast.expr) -> ast.expr:
    if isinstance(t, ast.UnaryOp) and isinstance(t.op, ast.Not):
        return t.operand
    if isinstance(t, ast.Compare) and len(t.ops) == 1:
        return ast.Compare(left=t.left, ops=[NEG_OP[type(t.ops[0])]()], comparators=t.comparators)
    if isinstance(t, ast.BoolOp):
        dual = ast.Or() if isinstance(t.op, ast.And) else ast.And()
        return ast.BoolOp(op=dual, values=[negate(v) for v in t.values])
    return ast.UnaryOp(op=ast.Not(), operand=t)


def is_negative(t: ast.expr) -> bool:
    """Exactly one of `t`, `negate(t)` is negative."""
    if isinstance(t, ast.UnaryOp) and isinstance(t.op, ast.Not):
        return True
    if isinstance(t, ast.Compare) and len(t.ops) == 1:
        return isinstance(t.ops[0], NEGATIVE_OPS)
    if isinstance(t, ast.BoolOp):
        n = sum(1 for v in t.values if is_negative(v))
        p = len(t.values) - n
        return n > p or (n == p and isinstance(t.op, ast.Or))
    return False


def _simple(e: ast.AST) -> bool:
    """Side-effect-free and cheap: a name, a constant, an attribute path, `-x`."""
    if isinstance(e, (ast.Name, ast.Constant)):
        return True
    if isinstance(e, ast.Attribute):
        return _simple(e.value)
    if isinstance(e, ast.UnaryOp) and isinstance(e.op, ast.USub):
        return _simple(e.operand)
    return False


# queries that cannot raise (on the objects they are used with): evaluating them may be skipped, repeated or moved
TOTAL_CALLS = {"isinstance", "len", "self.has_value", "self.is_missing", "self.count_covered", "self.count_valid",
               "self.normalize_timestamp", "self._buffer.count_covered", "self._buffer.count_valid",
               "self._buffer.is_missing", "self._buffer.normalize_timestamp"}


def _total(e: ast.expr) -> bool:
    """No side effect and nothing that can raise: names, attributes of `self`, constants, comparisons / `not` /
    `and` / `or` of those, the queries of `TOTAL_CALLS`.  Such operands of `and`/`or` may be evaluated in any order,
    and such a test may be dropped when its outcome does not matter."""
    for n in ast.walk(e):
        if isinstance(n, ast.Attribute):
            base = n.value
            while isinstance(base, ast.Attribute):
                base = base.value
            if not (isinstance(base, ast.Name) and base.id == "self"):
                return False
        elif isinstance(n, ast.Call):
            if _call_name(n) not in TOTAL_CALLS:
                return False
        elif isinstance(n, (ast.Subscript, ast.BinOp, ast.Lambda, ast.Await, ast.NamedExpr, ast.IfExp,
                            ast.GeneratorExp, ast.ListComp, ast.SetComp, ast.DictComp, ast.Yield, ast.YieldFrom)):
            return False
    return True


def _is_bool(e: ast.expr) -> bool:
    if isinstance(e, ast.Compare):
        return True
    if isinstance(e, ast.UnaryOp) and isinstance(e.op, ast.Not):
        return True
    if isinstance(e, ast.BoolOp):
        return all(_is_bool(v) for v in e.values)
    if isinstance(e, ast.Call) and ast.unparse(e.func) in ("isinstance", "any", "all", "bool"):
        return True
    return isinstance(e, ast.Constant) and isinstance(e.value, bool)


def _always_ends(stmts: list[ast.stmt]) -> bool:
    if not stmts:
        return False
    s = stmts[-1]
    if isinstance(s, (ast.Return, ast.Raise, ast.Continue, ast.Break)):
        return True
    return isinstance(s, ast.If) and _always_ends(s.body) and _always_ends(s.orelse)


def _may_end(s: ast.stmt) -> bool:
    """Does some path through the statement leave the enclosing block (return / raise / continue / break)?"""
    def walk(n: ast.AST, in_loop: bool) -> bool:
        if isinstance(n, (ast.Return, ast.Raise)):
            return True
        if isinstance(n, (ast.Continue, ast.Break)):
            return not in_loop
        if isinstance(n, (ast.FunctionDef, ast.AsyncFunctionDef, ast.ClassDef, ast.Lambda)):
            return False
        inner = in_loop or isinstance(n, (ast.For, ast.While))
        return any(walk(c, inner) for c in ast.iter_child_nodes(n))
    return walk(s, False)


# ----------------------------------------------------------------------------- reads / writes
class _Eff:
    """What an expression reads / a statement may write.  `names`: local roots; `attrs`: attribute names (of any
    object: two paths may alias); `state`: mutable state in general (container contents, whatever a method touches)."""

    def __init__(self) -> None:
        self.names: set[str] = set()
        self.attrs: set[str] = set()
        self.state = False
        self.argstate = False      # (reads) the fields of the objects handed to a stateless call …
        self.argroots: set[str] = set()   # … which are reached through these names
        self.attr_roots: set[str] = set()  # (writes) names whose attributes are assigned; "?" = some other object
        self.impure = False


def _call_name(n: ast.Call) -> str:
    try:
        return ast.unparse(n.func)
    except Exception:  # pragma: no cover
        return "?"


def _is_pure_call(n: ast.Call) -> bool:
    if _call_name(n) in PURE_CALLS:
        return True
    return isinstance(n.func, ast.Attribute) and n.func.attr in PURE_METHODS


def _reads(e: ast.AST, final: set[str]) -> _Eff:
    r = _Eff()
    for n in ast.walk(e):
        if isinstance(n, ast.Name):
            r.names.add(n.id)
        elif isinstance(n, ast.Attribute):
            if n.attr not in final:
                r.attrs.add(n.attr)
        elif isinstance(n, ast.Subscript):
            r.state = True
        elif isinstance(n, ast.Call):
            f = _call_name(n)
            if not _is_pure_call(n):
                r.impure = True
            if f in STATELESS_CALLS:
                for a in list(n.args) + [k.value for k in n.keywords]:
                    if not isinstance(a, ast.Constant):
                        r.argstate = True
                        r.argroots |= {x.id for x in ast.walk(a) if isinstance(x, ast.Name)}
            else:
                r.state = True
        elif isinstance(n, (ast.Await, ast.Yield, ast.YieldFrom, ast.NamedExpr, ast.Lambda)):
            r.impure = True
    return r


def _writes(s: ast.AST, final: set[str]) -> _Eff:
    w = _Eff()
    for n in ast.walk(s):
        if isinstance(n, ast.Name) and isinstance(n.ctx, (ast.Store, ast.Del)):
            w.names.add(n.id)
        elif isinstance(n, ast.Attribute) and isinstance(n.ctx, (ast.Store, ast.Del)):
            w.attrs.add(n.attr)
            w.attr_roots.add(n.value.id if isinstance(n.value, ast.Name) else "?")
        elif isinstance(n, ast.Subscript) and isinstance(n.ctx, (ast.Store, ast.Del)):
            w.state = True
        elif isinstance(n, ast.AugAssign):
            t = n.target
            if isinstance(t, ast.Name):
                w.names.add(t.id)
            elif isinstance(t, ast.Attribute):
                w.attrs.add(t.attr)
                w.attr_roots.add(t.value.id if isinstance(t.value, ast.Name) else "?")
            else:
                w.state = True
        elif isinstance(n, ast.Call) and not _is_pure_call(n):
            w.state = True
            w.impure = True
        elif isinstance(n, (ast.Await, ast.Yield, ast.YieldFrom, ast.NamedExpr)):
            w.state = True
            w.impure = True
    return w


def _interferes(w: _Eff, r: _Eff) -> bool:
    if w.names & r.names or w.attrs & r.attrs:
        return True
    if w.impure and (r.attrs or r.state):
        return True             # an unknown callable may assign any (non-final) attribute
    if (w.state or w.attrs) and r.state:
        return True             # a query of the object's state after a container / attribute was changed
    if r.argstate and (w.impure or "?" in w.attr_roots or (w.attr_roots & r.argroots)):
        return True             # (an attribute of another local is assigned: not a field of these arguments)
    return False


def final_attrs(tree: ast.Module) -> set[str]:
    """Attribute names that are only ever assigned inside `__init__` methods (or class bodies) of the module."""
    assigned_outside: set[str] = set()
    seen: set[str] = set()

    def visit(node: ast.AST, in_init: bool) -> None:
        for c in ast.iter_child_nodes(node):
            if isinstance(c, (ast.FunctionDef, ast.AsyncFunctionDef)):
                visit(c, c.name == "__init__")
                continue
            if isinstance(c, ast.Attribute):
                seen.add(c.attr)
                if isinstance(c.ctx, (ast.Store, ast.Del)) and not in_init:
                    assigned_outside.add(c.attr)
            if isinstance(c, ast.Call) and _call_name(c) in ("setattr", "delattr", "object.__setattr__"):
                assigned_outside.add("*")
            visit(c, in_init)

    visit(tree, False)
    if "*" in assigned_outside:
        return set()
    return seen - assigned_outside


# ----------------------------------------------------------------------------- independent statements (step j)
def _paths(e: ast.AST) -> tuple[set[str], bool]:
    """Access paths (dotted names) read by an expression, and whether it is free of non-pure calls."""
    reads: set[str] = set()
    pure = True

    def walk(n: ast.AST) -> None:
        nonlocal pure
        if isinstance(n, (ast.Attribute, ast.Name)):
            chain = n
            while isinstance(chain, ast.Attribute):
                chain = chain.value
            if isinstance(chain, ast.Name):
                reads.add(ast.unparse(n))
                return
        if isinstance(n, ast.Call):
            f = _call_name(n)
            if not _is_pure_call(n):
                pure = False
            if f.startswith("self.") and f not in STATELESS_CALLS:
                reads.add("self")          # a method may read any attribute of `self`
            for a in list(n.args) + [k.value for k in n.keywords]:
                walk(a)
            if isinstance(n.func, ast.Attribute) and not f.startswith("self."):
                walk(n.func.value)
            return
        if isinstance(n, (ast.Await, ast.Yield, ast.YieldFrom, ast.NamedExpr)):
            pure = False
        for c in ast.iter_child_nodes(n):
            walk(c)

    walk(e)
    return reads, pure


def _effects(s: ast.stmt) -> tuple[set[str], set[str]] | None:
    """(reads, writes) of a plain assignment, or of an `if` made of plain assignments; None = barrier."""
    if isinstance(s, ast.If):
        reads, pure = _paths(s.test)
        if not pure or not (s.body or s.orelse):
            return None
        writes: set[str] = set()
        for x in s.body + s.orelse:
            e = _effects(x)
            if e is None:
                return None
            reads |= e[0]
            writes |= e[1]
        return reads, writes
    if not isinstance(s, ast.Assign):
        return None
    writes: set[str] = set()
    reads, pure = _paths(s.value)
    if not pure:
        return None
    for t in s.targets:
        elts = t.elts if isinstance(t, ast.Tuple) else [t]
        for e in elts:
            if isinstance(e, ast.Name):
                writes.add(e.id)
            elif isinstance(e, ast.Attribute) and isinstance(e.value, ast.Name):
                writes.add(ast.unparse(e))
                reads.add(e.value.id)
            else:
                return None
    return reads, writes


def _overlap(p: str, q: str) -> bool:
    a, b = p.split("."), q.split(".")
    n = min(len(a), len(b))
    if a[:n] == b[:n]:
        return True                                   # same path, or one is part of the other
    return len(a) > 1 and len(b) > 1 and a[0] != b[0] and a[-1] == b[-1]   # same attribute of maybe the same object


def _independent(x, y) -> bool:
    if x is None or y is None:
        return False
    (rx, wx), (ry, wy) = x, y
    return not any(_overlap(p, q) for p in wx for q in ry | wy) and not any(_overlap(p, q) for p in wy for q in rx)


def _normal_order(stmts: list[ast.stmt], key) -> list[ast.stmt]:
    eff = [_effects(s) for s in stmts]
    left = list(range(len(stmts)))
    out: list[ast.stmt] = []
    while left:
        movable = [i for n, i in enumerate(left) if all(_independent(eff[j], eff[i]) for j in left[:n])]
        best = min(movable, key=lambda i: (key(stmts[i]), i))
        out.append(stmts[best])
        left.remove(best)
    return out


# ----------------------------------------------------------------------------- step g / h (unchanged in spirit)
def _stores(stmts: list[ast.stmt]) -> set[str]:
    return {n.id for s in stmts for n in ast.walk(s) if isinstance(n, ast.Name) and isinstance(n.ctx, (ast.Store, ast.Del))}


def _merge_ifs(stmts: list[ast.stmt]) -> list[ast.stmt]:
    """Merge consecutive `if`s that test the same plain local variable; `v = <const>; if C: v = X` is
    `if C: v = X else: v = <const>`."""
    out: list[ast.stmt] = []
    for s in stmts:
        prev = out[-1] if out else None
        if (isinstance(prev, ast.Assign) and len(prev.targets) == 1 and isinstance(prev.targets[0], ast.Name)
                and _simple(prev.value) and isinstance(s, ast.If) and not s.orelse and len(s.body) == 1
                and isinstance(s.body[0], ast.Assign) and len(s.body[0].targets) == 1
                and isinstance(s.body[0].targets[0], ast.Name) and s.body[0].targets[0].id == prev.targets[0].id
                and not _mentions([s.test, s.body[0].value], {prev.targets[0].id})):
            out[-1] = ast.If(test=s.test, body=s.body, orelse=[prev])
            continue
        if isinstance(prev, ast.If) and isinstance(s, ast.If) and not prev.orelse \
                and not any(isinstance(n, ast.NamedExpr) for t in (prev.test, s.test) for n in ast.walk(t)):
            def var(t: ast.expr):
                if isinstance(t, ast.Name):
                    return t.id, True
                if isinstance(t, ast.UnaryOp) and isinstance(t.op, ast.Not) and isinstance(t.operand, ast.Name):
                    return t.operand.id, False
                return None

            def literals(t: ast.expr):
                """(name, polarity, the other conjuncts) for the literals of the conjunction `t` that decide it before
                anything that could raise is evaluated."""
                vals = t.values if isinstance(t, ast.BoolOp) and isinstance(t.op, ast.And) else [t]
                for k, v in enumerate(vals):
                    lit = var(v)
                    if lit and all(_total(x) for x in vals[:k]):
                        yield lit[0], lit[1], vals[:k] + vals[k + 1:]

            def guarded(rest: list[ast.expr], body: list[ast.stmt], orelse: list[ast.stmt]) -> list[ast.stmt]:
                if not rest:
                    return body
                test = rest[0] if len(rest) == 1 else ast.BoolOp(op=ast.And(), values=rest)
                return [ast.If(test=test, body=body, orelse=orelse)]

            pair = next(((a, b) for a in literals(prev.test) for b in literals(s.test)
                         if a[0] == b[0] and (a[1] != b[1] or not (a[2] or b[2]))), None)
            if pair and pair[0][0] not in _stores(prev.body) and not _always_ends(prev.body):
                a, b = pair
                name = _name(a[0])
                # (with `P = T and P'`, `Q = [¬]T and Q'`; the same local is tested, and nothing in between changes it)
                x, z = guarded(a[2], prev.body, []), s.orelse
                if a[1] == b[1]:            # if T: X ; if T: Y else: Z   ->  if T: X; Y  else: Z
                    then, els = x + s.body, z
                else:                        # if P: X ; if Q: Y else: Z  ->  if T: (if P': X); Z  else: (if Q': Y else: Z)
                    then, els = x + copy.deepcopy(z), guarded(b[2], s.body, z)
                if a[1]:
                    merged = ast.If(test=name, body=then, orelse=els)
                elif els:
                    merged = ast.If(test=name, body=els, orelse=then)
                else:
                    merged = ast.If(test=ast.UnaryOp(op=ast.Not(), operand=name), body=then, orelse=[])
                out[-1] = merged
                continue
        out.append(s)
    return out


def _alias_elements(stmts: list[ast.stmt]) -> None:
    """After `v = c[i]`, write `v` for `c[i]` where that is certainly the same object (in place)."""

    def simple(e: ast.AST) -> bool:
        return all(isinstance(n, (ast.Name, ast.Attribute, ast.Subscript, ast.Constant, ast.BinOp, ast.Add, ast.Sub,
                                  ast.Load, ast.Store)) for n in ast.walk(e))

    class Sub(ast.NodeTransformer):
        def __init__(self, text: str, v: str):
            self.text, self.v = text, v

        def visit_Subscript(self, node):  # noqa: N802
            if isinstance(node.ctx, ast.Load) and ast.unparse(node) == self.text:
                return ast.copy_location(_name(self.v), node)
            return self.generic_visit(node)

    def safe(s: ast.stmt, names: set[str]) -> bool:
        eff = _effects(s)
        return eff is not None and not any(w.split(".")[0] in names for w in eff[1])

    def rewrite(block_: list[ast.stmt], sub: Sub, names: set[str]) -> None:
        for s in block_:
            if isinstance(s, ast.If):
                s.test = sub.visit(s.test)
                rewrite(s.body, sub, names)
                rewrite(s.orelse, sub, names)
                if all(isinstance(x, ast.Assign) and safe(x, names) for x in s.body + s.orelse):
                    continue
                return                      # a branch may have changed the container
            if isinstance(s, ast.Assign):
                s.value = sub.visit(s.value)
                s.targets = [sub.visit(t) if isinstance(t, ast.Attribute) else t for t in s.targets]
                if not safe(s, names):
                    return
                continue
            return

    for i, s in enumerate(stmts):
        if (isinstance(s, ast.Assign) and len(s.targets) == 1 and isinstance(s.targets[0], ast.Name)
                and isinstance(s.value, ast.Subscript) and simple(s.value)):
            names = {n.id for n in ast.walk(s.value) if isinstance(n, ast.Name)} | {s.targets[0].id}
            names.discard("self")
            rewrite(stmts[i + 1:], Sub(ast.unparse(s.value), s.targets[0].id), names)


# ----------------------------------------------------------------------------- steps a–d: node-level rewrites
def _subst(e: ast.AST, mapping: dict[str, ast.expr]) -> ast.AST:
    """Copy of `e` with the (Load) names of `mapping` replaced."""

    class S(ast.NodeTransformer):
        def visit_Name(self, node):  # noqa: N802
            if isinstance(node.ctx, ast.Load) and node.id in mapping:
                return copy.deepcopy(mapping[node.id])
            return node

    return S().visit(copy.deepcopy(e))


def _genexp(elt: ast.expr, target: ast.expr, it: ast.expr, ifs: list[ast.expr]) -> ast.GeneratorExp:
    return ast.GeneratorExp(elt=elt, generators=[ast.comprehension(target=target, iter=it, ifs=ifs, is_async=0)])


def _store(t: ast.expr) -> ast.expr:
    t = copy.deepcopy(t)
    for n in ast.walk(t):
        if isinstance(n, (ast.Name, ast.Tuple, ast.List, ast.Attribute, ast.Subscript, ast.Starred)) and hasattr(n, "ctx"):
            if isinstance(n, (ast.Name, ast.Tuple, ast.List)):
                n.ctx = ast.Store()
    return t


def _load(t: ast.expr) -> ast.expr:
    t = copy.deepcopy(t)
    for n in ast.walk(t):
        if isinstance(n, (ast.Name, ast.Tuple, ast.List)):
            n.ctx = ast.Load()
    return t


def _certainly_int(e: ast.expr, ints: set[str], int_calls: set[str]) -> bool:
    """An `int` whatever the inputs are: literals, `len(…)`, `round(x)`, the methods annotated `-> int`, int locals, and
    `+ - * // %`, unary minus, `min` / `max` of those."""
    if isinstance(e, ast.Constant):
        return type(e.value) is int
    if isinstance(e, ast.Name):
        return e.id in ints
    if isinstance(e, ast.BinOp):
        return isinstance(e.op, (ast.Add, ast.Sub, ast.Mult, ast.FloorDiv, ast.Mod)) \
            and _certainly_int(e.left, ints, int_calls) and _certainly_int(e.right, ints, int_calls)
    if isinstance(e, ast.UnaryOp):
        return isinstance(e.op, ast.USub) and _certainly_int(e.operand, ints, int_calls)
    if isinstance(e, ast.Call):
        f = _call_name(e)
        if f == "len" or f in int_calls:
            return True
        if f == "round":
            return len(e.args) == 1 and not e.keywords
        if f in ("min", "max"):
            return len(e.args) >= 2 and not e.keywords and all(_certainly_int(a, ints, int_calls) for a in e.args)
    return False


def _int_locals(fn: ast.FunctionDef, int_params: set[str], int_calls: set[str]) -> set[str]:
    """The locals all of whose bindings are certainly ints (greatest fixpoint)."""
    binds: dict[str, list[ast.expr | None]] = {}
    for n in ast.walk(fn):
        if isinstance(n, ast.Assign):
            for t in n.targets:
                if isinstance(t, ast.Name):
                    binds.setdefault(t.id, []).append(n.value)
                else:
                    for a in ast.walk(t):
                        if isinstance(a, ast.Name) and isinstance(a.ctx, ast.Store):
                            binds.setdefault(a.id, []).append(None)
        elif isinstance(n, ast.AugAssign) and isinstance(n.target, ast.Name):
            ok = isinstance(n.op, (ast.Add, ast.Sub, ast.Mult, ast.FloorDiv, ast.Mod))
            binds.setdefault(n.target.id, []).append(n.value if ok else None)
        elif isinstance(n, (ast.For, ast.comprehension, ast.NamedExpr, ast.withitem, ast.ExceptHandler)):
            tgt = getattr(n, "target", None) or getattr(n, "optional_vars", None)
            if isinstance(tgt, ast.AST):
                for a in ast.walk(tgt):
                    if isinstance(a, ast.Name):
                        binds.setdefault(a.id, []).append(None)
            elif isinstance(n, ast.ExceptHandler) and n.name:
                binds.setdefault(n.name, []).append(None)
    params = {a.arg for a in fn.args.args + fn.args.kwonlyargs + fn.args.posonlyargs}
    ints = {v for v in binds if v not in params} | {p for p in int_params if p not in binds}
    while True:
        bad = {v for v in ints if v in binds and any(x is None or not _certainly_int(x, ints, int_calls) for x in binds[v])}
        if not bad:
            return ints
        ints -= bad


class _Rewrite(ast.NodeTransformer):
    """Steps a–d that look at one node."""

    def __init__(self, positions: dict[str, str] | None = None, gap_locals: set[str] | None = None,
                 ints: set[str] | None = None, int_calls: set[str] | None = None):
        self.positions = positions or {}       # local name -> `_p<i>` / `_v<j>` (position of its first binding)
        self.gap_locals = gap_locals or set()  # locals that only ever hold a `Gap` object or None
        self.ints = ints or set()              # locals that only ever hold an `int`
        self.int_calls = int_calls or set()    # `self.m` for the methods annotated `-> int`

    # ---- a
    def visit_Expr(self, node):  # noqa: N802
        self.generic_visit(node)
        v = node.value
        if isinstance(v, ast.Call) and _call_name(v).startswith("_logger."):
            return None
        if isinstance(v, ast.Constant):
            return None
        return node

    def visit_Pass(self, node):  # noqa: N802
        return None

    def visit_Assert(self, node):  # noqa: N802
        return None

    def visit_AnnAssign(self, node):  # noqa: N802
        if node.value is None:
            return None
        return self.visit(ast.copy_location(ast.Assign(targets=[node.target], value=node.value), node))

    def visit_Raise(self, node):  # noqa: N802
        self.generic_visit(node)
        e = node.exc
        if isinstance(e, ast.Call) and isinstance(e.func, ast.Name) and not e.keywords:
            msg_only = all(isinstance(a, (ast.Constant, ast.JoinedStr)) for a in e.args)
            if msg_only and all(not _reads(a, set()).impure for a in e.args):
                node.exc = e.func
        return node

    # ---- b
    def visit_Match(self, node):  # noqa: N802
        self.generic_visit(node)
        subj = node.subject
        if not _simple(subj):
            return node

        def test_of(p: ast.pattern) -> ast.expr | None | bool:
            if isinstance(p, ast.MatchAs) and p.pattern is None and p.name is None:
                return True
            if isinstance(p, ast.MatchClass) and not p.patterns and not p.kwd_patterns:
                return ast.Call(func=_name("isinstance"), args=[copy.deepcopy(subj), p.cls], keywords=[])
            if isinstance(p, ast.MatchValue):
                return ast.Compare(left=copy.deepcopy(subj), ops=[ast.Eq()], comparators=[p.value])
            if isinstance(p, ast.MatchSingleton):
                return ast.Compare(left=copy.deepcopy(subj), ops=[ast.Is()], comparators=[ast.Constant(value=p.value)])
            if isinstance(p, ast.MatchOr):
                ts = [test_of(q) for q in p.patterns]
                if any(t is None or t is True for t in ts):
                    return None
                return ast.BoolOp(op=ast.Or(), values=ts)
            return None

        arms: list[tuple[ast.expr | None, list[ast.stmt]]] = []
        for case in node.cases:
            t = test_of(case.pattern)
            if t is None:
                return node
            if t is True:
                t = case.guard
            elif case.guard is not None:
                t = ast.BoolOp(op=ast.And(), values=[t, case.guard])
            arms.append((t, case.body))
            if t is None:
                break                      # irrefutable: later cases are unreachable
        result: list[ast.stmt] = []
        for t, body in reversed(arms):
            if t is None:
                result = body
            else:
                result = [ast.If(test=t, body=body, orelse=result)]
        return result if result else None

    def visit_Assign(self, node):  # noqa: N802
        self.generic_visit(node)
        v = node.value
        if isinstance(v, ast.IfExp):
            return ast.If(test=v.test, body=[ast.Assign(targets=node.targets, value=v.body)],
                          orelse=[ast.Assign(targets=copy.deepcopy(node.targets), value=v.orelse)])
        if len(node.targets) == 1:
            t = node.targets[0]
            if (isinstance(t, ast.Tuple) and isinstance(v, ast.Tuple) and len(t.elts) == len(v.elts)
                    and all(isinstance(x, ast.Name) for x in t.elts)):
                ids = [x.id for x in t.elts]
                reads = [{n.id for n in ast.walk(x) if isinstance(n, ast.Name)} for x in v.elts]
                if len(set(ids)) == len(ids) and all(not (set(ids[:j]) & reads[j]) for j in range(len(ids))):
                    return [ast.Assign(targets=[x], value=y) for x, y in zip(t.elts, v.elts)]
            if (isinstance(t, ast.Name) and isinstance(v, ast.BinOp) and isinstance(v.op, (ast.Add, ast.Sub))
                    and isinstance(v.left, ast.Name) and v.left.id == t.id
                    and isinstance(v.right, ast.Constant) and isinstance(v.right.value, int)):
                return ast.AugAssign(target=t, op=v.op, value=v.right)
        return node

    def visit_Return(self, node):  # noqa: N802
        self.generic_visit(node)
        v = node.value
        if isinstance(v, ast.Constant) and v.value is None:
            node.value = None
        elif isinstance(v, ast.IfExp):
            return ast.If(test=v.test, body=[ast.Return(value=v.body)], orelse=[ast.Return(value=v.orelse)])
        return node

    # ---- c
    def visit_UnaryOp(self, node):  # noqa: N802
        self.generic_visit(node)
        if isinstance(node.op, ast.Not):
            inner = node.operand
            if isinstance(inner, ast.UnaryOp) and isinstance(inner.op, ast.Not):
                return inner.operand
            if isinstance(inner, ast.BoolOp) or (isinstance(inner, ast.Compare) and len(inner.ops) == 1):
                return self.visit(negate(inner))
        return node

    def visit_Compare(self, node):  # noqa: N802
        self.generic_visit(node)
        if len(node.ops) > 1 and all(_simple(c) for c in node.comparators[:-1]):
            parts, left = [], node.left
            for op, right in zip(node.ops, node.comparators):
                parts.append(self.canonical_compare(ast.Compare(left=copy.deepcopy(left), ops=[op], comparators=[right])))
                left = right
            return ast.BoolOp(op=ast.And(), values=parts)
        if len(node.ops) == 1:
            return self.canonical_compare(node)
        return node

    MIRROR = {ast.Lt: ast.Gt, ast.Gt: ast.Lt, ast.LtE: ast.GtE, ast.GtE: ast.LtE, ast.Eq: ast.Eq, ast.NotEq: ast.NotEq}

    def canonical_compare(self, node: ast.Compare) -> ast.Compare:
        """One spelling for `a ± c <op> b ± d` (integer constants c, d: moved to the side where the net constant is
        positive — exact for ints, datetimes, timedeltas) and for `a <op> b` vs `b <mirrored op> a` (pure operands: the
        one with the smaller text — locals by position — comes first, a constant last)."""
        op = type(node.ops[0])
        if op not in self.MIRROR:
            return node
        left, right = node.left, node.comparators[0]
        if _reads(left, set()).impure or _reads(right, set()).impure:
            return node

        def split(e: ast.expr) -> tuple[ast.expr, int]:
            if isinstance(e, ast.BinOp) and isinstance(e.op, (ast.Add, ast.Sub)) and isinstance(e.right, ast.Constant) \
                    and type(e.right.value) is int:
                base, k = split(e.left)
                return base, k + (e.right.value if isinstance(e.op, ast.Add) else -e.right.value)
            return e, 0

        (lb, lk), (rb, rk) = split(left), split(right)
        if (lk or rk) and not isinstance(lb, ast.Constant) and not isinstance(rb, ast.Constant):
            k = rk - lk
            plus = lambda e, c: ast.BinOp(left=e, op=ast.Add(), right=ast.Constant(value=c))  # noqa: E731
            left, right = (lb, plus(rb, k)) if k > 0 else (plus(lb, -k), rb) if k < 0 else (lb, rb)

        def key(e: ast.expr):
            cp = copy.deepcopy(e)
            for n in ast.walk(cp):
                if isinstance(n, ast.Name) and n.id in self.positions:
                    n.id = self.positions[n.id]
            return (isinstance(e, ast.Constant), ast.unparse(ast.fix_missing_locations(cp)))

        if key(right) < key(left):
            left, right, op = right, left, self.MIRROR[op]
        return ast.Compare(left=left, ops=[op()], comparators=[right])

    def truth(self, t: ast.expr) -> ast.expr:
        """`v` in a boolean context, for a local that holds a `Gap` (always truthy) or None: `v is not None`."""
        if isinstance(t, ast.Name) and t.id in self.gap_locals:
            return ast.Compare(left=t, ops=[ast.IsNot()], comparators=[ast.Constant(value=None)])
        if isinstance(t, ast.UnaryOp) and isinstance(t.op, ast.Not) and isinstance(t.operand, ast.Name) \
                and t.operand.id in self.gap_locals:
            return ast.Compare(left=t.operand, ops=[ast.Is()], comparators=[ast.Constant(value=None)])
        return t

    def visit_If(self, node):  # noqa: N802
        self.generic_visit(node)
        node.test = self.truth(node.test)
        return node

    def visit_While(self, node):  # noqa: N802
        self.generic_visit(node)
        node.test = self.truth(node.test)
        return node

    def visit_BoolOp(self, node):  # noqa: N802
        self.generic_visit(node)
        node.values = [self.truth(v) for v in node.values]
        vals: list[ast.expr] = []
        for v in node.values:
            vals += v.values if isinstance(v, ast.BoolOp) and type(v.op) is type(node.op) else [v]
        node.values = vals
        # `a == b or a <= b` is `a <= b`, `a == b and a <= b` is `a == b` (same pure operands)
        def cmp(v: ast.expr):
            if isinstance(v, ast.Compare) and len(v.ops) == 1 and type(v.ops[0]) in self.IMPLIES \
                    and not _reads(v, set()).impure:
                return type(v.ops[0]), _dump(v.left), _dump(v.comparators[0])
            return None
        keys = [cmp(v) for v in vals]
        drop: set[int] = set()
        for i, a in enumerate(keys):
            for j, b in enumerate(keys):
                if a and b and i != j and a[1:] == b[1:] and b[0] in self.IMPLIES[a[0]] and i not in drop and j not in drop:
                    drop.add(i if isinstance(node.op, ast.Or) else j)    # a ⇒ b
        if drop:
            node.values = [v for i, v in enumerate(vals) if i not in drop]
            if len(node.values) == 1:
                return node.values[0]
        return node

    IMPLIES = {ast.Eq: (ast.LtE, ast.GtE), ast.Lt: (ast.LtE, ast.NotEq), ast.Gt: (ast.GtE, ast.NotEq),
               ast.LtE: (), ast.GtE: (), ast.NotEq: ()}

    def visit_Slice(self, node):  # noqa: N802
        self.generic_visit(node)
        if node.step is None and isinstance(node.lower, ast.Constant) and node.lower.value == 0 \
                and type(node.lower.value) is int:
            node.lower = None                  # `x[0:e]` is `x[:e]` (sequences)
        return node

    def is_int(self, e: ast.expr) -> bool:
        return _certainly_int(e, self.ints, self.int_calls)

    def visit_AugAssign(self, node):  # noqa: N802
        self.generic_visit(node)
        # `v += E` on an int local is `v = v + E` (no object is changed in place); `v += <constant>` stays (a counter)
        if (isinstance(node.target, ast.Name) and node.target.id in self.ints and isinstance(node.op, (ast.Add, ast.Sub))
                and not isinstance(node.value, ast.Constant) and self.is_int(node.value)):
            return self.visit(ast.Assign(targets=[_name(node.target.id, ast.Store())],
                                         value=ast.BinOp(left=_name(node.target.id), op=node.op, right=node.value)))
        return node

    def visit_BinOp(self, node):  # noqa: N802
        self.generic_visit(node)
        if not isinstance(node.op, (ast.Add, ast.Sub)):
            return node
        # a sum of ints is written in one order: the terms of the leading run of certainly-int terms of a chain
        # `t0 ± t1 ± …` (a sub-expression: the chain associates to the left) sorted — calls, locals by position, constants
        terms: list[tuple[bool, ast.expr]] = []

        def flatten(e: ast.expr, plus: bool, top: bool) -> None:
            if isinstance(e, ast.BinOp) and isinstance(e.op, (ast.Add, ast.Sub)) and (top or self.is_int(e)):
                flatten(e.left, plus, top)
                flatten(e.right, plus == isinstance(e.op, ast.Add), False)
            else:
                terms.append((plus, e))

        flatten(node, True, True)
        k = 0
        while k < len(terms) and self.is_int(terms[k][1]) and not _reads(terms[k][1], set()).impure:
            k += 1
        if k < 2:
            return node

        def key(t: tuple[bool, ast.expr]):
            cp = copy.deepcopy(t[1])
            for n in ast.walk(cp):
                if isinstance(n, ast.Name) and n.id in self.positions:
                    n.id = self.positions[n.id]
            return (isinstance(t[1], ast.Constant), isinstance(t[1], ast.Name), ast.unparse(ast.fix_missing_locations(cp)))

        head = sorted(terms[:k], key=key)
        first = next((t for t in head if t[0]), None)
        if first is None:
            return node
        head.remove(first)
        acc: ast.expr = first[1]
        for plus, t in head + terms[k:]:
            acc = ast.BinOp(left=acc, op=ast.Add() if plus else ast.Sub(), right=t)
        return acc

    # ---- d
    def visit_Call(self, node):  # noqa: N802
        self.generic_visit(node)
        f = _call_name(node)
        if f in ("map", "filter") and len(node.args) == 2 and not node.keywords and isinstance(node.args[0], ast.Lambda):
            lam, it = node.args
            a = lam.args
            if len(a.args) == 1 and not (a.vararg or a.kwarg or a.kwonlyargs or a.posonlyargs or a.defaults):
                x = a.args[0].arg
                if f == "map":
                    return self._gen(_genexp(lam.body, _name(x, ast.Store()), it, []))
                return self._gen(_genexp(_name(x), _name(x, ast.Store()), it, [lam.body]))
        if f == "sum" and len(node.args) == 2 and isinstance(node.args[1], ast.Constant) and node.args[1].value == 0 \
                and not node.keywords:
            node.args = node.args[:1]
        # a list comprehension that is consumed at once is a generator
        if f in ("sum", "any", "all", "min", "max", "sorted") and len(node.args) == 1 and isinstance(node.args[0], ast.ListComp):
            node.args[0] = ast.GeneratorExp(elt=node.args[0].elt, generators=node.args[0].generators)
        return node

    def visit_GeneratorExp(self, node):  # noqa: N802
        self.generic_visit(node)
        return self._gen(node)

    def _gen(self, g: ast.GeneratorExp) -> ast.GeneratorExp:
        if len(g.generators) != 1:
            return g
        c = g.generators[0]
        # (E for x in (y for y in it if P))  ==  (E[x:=y] for y in it if P)
        inner = c.iter
        if (isinstance(inner, ast.GeneratorExp) and len(inner.generators) == 1 and isinstance(c.target, ast.Name)):
            ic = inner.generators[0]
            bound = {n.id for n in ast.walk(ic.target) if isinstance(n, ast.Name)}
            used = {n.id for n in ast.walk(g.elt) if isinstance(n, ast.Name)} | \
                   {n.id for t in c.ifs for n in ast.walk(t) if isinstance(n, ast.Name)}
            if not (bound & (used - {c.target.id})):
                m = {c.target.id: inner.elt}
                g = _genexp(_subst(g.elt, m), ic.target, ic.iter, ic.ifs + [_subst(t, m) for t in c.ifs])
                c = g.generators[0]
        # (… e[0] … e[1] … for e in enumerate(X))  ==  (… i … v … for i, v in enumerate(X))
        if isinstance(c.target, ast.Name) and isinstance(c.iter, ast.Call) and _call_name(c.iter) == "enumerate" \
                and len(c.iter.args) == 1 and not c.iter.keywords:
            e = c.target.id
            fresh = (f"{e}_0", f"{e}_1")
            ok = True

            class P(ast.NodeTransformer):
                def visit_Subscript(self, n):  # noqa: N802
                    nonlocal ok
                    if isinstance(n.value, ast.Name) and n.value.id == e:
                        if isinstance(n.slice, ast.Constant) and n.slice.value in (0, 1) and isinstance(n.ctx, ast.Load):
                            return _name(fresh[n.slice.value])
                        ok = False
                    return self.generic_visit(n)

                def visit_Name(self, n):  # noqa: N802
                    if n.id == e and isinstance(n.ctx, ast.Load):
                        return ast.Tuple(elts=[_name(fresh[0]), _name(fresh[1])], ctx=ast.Load())
                    return n

            all_names = {n.id for n in ast.walk(g) if isinstance(n, ast.Name)}
            if not (set(fresh) & all_names):
                elt = P().visit(copy.deepcopy(g.elt))
                ifs = [P().visit(copy.deepcopy(t)) for t in c.ifs]
                if ok:
                    tgt = ast.Tuple(elts=[_name(fresh[0], ast.Store()), _name(fresh[1], ast.Store())], ctx=ast.Store())
                    g = _genexp(elt, tgt, c.iter, ifs)
        return g


# ----------------------------------------------------------------------------- step d: loops that are comprehensions
def _mentions(node: ast.AST | list, ids: set[str]) -> bool:
    nodes = node if isinstance(node, list) else [node]
    return any(isinstance(n, ast.Name) and n.id in ids for x in nodes for n in ast.walk(x))


def _target_names(t: ast.expr) -> set[str] | None:
    if isinstance(t, ast.Name):
        return {t.id}
    if isinstance(t, ast.Tuple):
        out: set[str] = set()
        for e in t.elts:
            s = _target_names(e)
            if s is None:
                return None
            out |= s
        return out
    return None


def _take_init(out: list[ast.stmt], var: str) -> ast.expr | None:
    """Remove and return the constant initialisation `var = <const>` that precedes a loop (statements in between must
    not mention `var`)."""
    for k in range(len(out) - 1, -1, -1):
        s = out[k]
        if (isinstance(s, ast.Assign) and len(s.targets) == 1 and isinstance(s.targets[0], ast.Name)
                and s.targets[0].id == var):
            v = s.value
            if isinstance(v, ast.Constant) or (isinstance(v, ast.UnaryOp) and isinstance(v.operand, ast.Constant)):
                del out[k]
                return v
            return None
        if _mentions(s, {var}) or isinstance(s, (ast.For, ast.While, ast.Try, ast.With, ast.FunctionDef)):
            return None
    return None


def _loop_as_comprehension(loop: ast.For, out: list[ast.stmt], rest: list[ast.stmt], outside_uses) -> list[ast.stmt] | None:
    """`out`: the statements before the loop (an initialisation is removed from it on success); `rest`: the statements
    after it (a consumed `return` is removed).  Returns the replacement of the loop, or None."""
    # `for i, g in enumerate(<gaps>): if P: break` + `else: <ends>`, the loop variables used afterwards:
    #   `i, g = next(((i, g) for i, g in enumerate(<gaps>) if P), (0, None)); if g is None: <ends>`
    # (the elements are `Gap` objects, never None; when nothing is found the `else` leaves, so `i`, `g` are not used)
    if (len(loop.body) == 1 and isinstance(loop.body[0], ast.If) and not loop.body[0].orelse
            and len(loop.body[0].body) == 1 and isinstance(loop.body[0].body[0], ast.Break)
            and loop.orelse and _always_ends(loop.orelse) and isinstance(loop.target, ast.Tuple) and len(loop.target.elts) == 2
            and all(isinstance(x, ast.Name) for x in loop.target.elts) and isinstance(loop.iter, ast.Call)
            and _call_name(loop.iter) == "enumerate" and len(loop.iter.args) == 1
            and ast.unparse(loop.iter.args[0]) in ("self._gaps", "self.gaps")):
        i_, g_ = (x.id for x in loop.target.elts)  # type: ignore[attr-defined]
        if not _mentions(loop.orelse, {i_, g_}):
            gen = _genexp(_load(loop.target), _store(loop.target), loop.iter, [loop.body[0].test])
            dflt = ast.Tuple(elts=[ast.Constant(value=0), ast.Constant(value=None)], ctx=ast.Load())
            call = ast.Call(func=_name("next"), args=[gen, dflt], keywords=[])
            return [ast.Assign(targets=[_store(loop.target)], value=call),
                    ast.If(test=ast.Compare(left=_name(g_), ops=[ast.Is()], comparators=[ast.Constant(value=None)]),
                           body=loop.orelse, orelse=[])]
    tn = _target_names(loop.target)
    if tn is None or len(loop.body) != 1 or outside_uses(tn):
        return None
    b = loop.body[0]
    cond: list[ast.expr] = []
    inner = [b]
    if isinstance(b, ast.If) and not b.orelse:
        cond, inner = [b.test], b.body
    tgt = _store(loop.target)
    # any / all
    if (cond and len(inner) == 1 and isinstance(inner[0], ast.Return) and isinstance(inner[0].value, ast.Constant)
            and isinstance(inner[0].value.value, bool) and not loop.orelse and rest and isinstance(rest[0], ast.Return)
            and isinstance(rest[0].value, ast.Constant) and rest[0].value.value is (not inner[0].value.value)):
        if inner[0].value.value:
            call = ast.Call(func=_name("any"), args=[_genexp(cond[0], tgt, loop.iter, [])], keywords=[])
        else:
            call = ast.Call(func=_name("all"), args=[_genexp(negate(cond[0]), tgt, loop.iter, [])], keywords=[])
        del rest[0]
        return [ast.Return(value=call)]
    # find:  for …: if P: return V   + `return D`        ==  return next((V for … if P), D)
    if (cond and len(inner) == 1 and isinstance(inner[0], ast.Return) and inner[0].value is not None and not loop.orelse
            and rest and isinstance(rest[0], ast.Return) and rest[0].value is not None
            and all(_simple(x) for x in (rest[0].value.elts if isinstance(rest[0].value, ast.Tuple) else [rest[0].value]))):
        call = ast.Call(func=_name("next"), args=[_genexp(inner[0].value, tgt, loop.iter, cond), rest[0].value], keywords=[])
        del rest[0]
        return [ast.Return(value=call)]
    # sum
    if len(inner) == 1 and not loop.orelse:
        a = inner[0]
        acc, val = None, None
        if isinstance(a, ast.AugAssign) and isinstance(a.op, ast.Add) and isinstance(a.target, ast.Name):
            acc, val = a.target.id, a.value
        elif (isinstance(a, ast.Assign) and len(a.targets) == 1 and isinstance(a.targets[0], ast.Name)
              and isinstance(a.value, ast.BinOp) and isinstance(a.value.op, ast.Add)
              and isinstance(a.value.left, ast.Name) and a.value.left.id == a.targets[0].id):
            acc, val = a.targets[0].id, a.value.right
        if acc is not None and acc not in tn and not _mentions([val] + cond + [loop.iter], {acc}):
            init = _take_init(out, acc)
            if isinstance(init, ast.Constant) and isinstance(init.value, int) and not isinstance(init.value, bool):
                call: ast.expr = ast.Call(func=_name("sum"), args=[_genexp(val, tgt, loop.iter, cond)], keywords=[])
                if init.value != 0:
                    call = ast.BinOp(left=init, op=ast.Add(), right=call)
                return [ast.Assign(targets=[_name(acc, ast.Store())], value=call)]
            if init is not None:
                out.append(ast.Assign(targets=[_name(acc, ast.Store())], value=init))   # put it back
    # search:  v = D; for …: if P: v = V; break        (or `else: v = D` on the loop)
    if cond and len(inner) >= 2 and isinstance(inner[-1], ast.Break):
        assigns = inner[:-1]
        if all(isinstance(x, ast.Assign) and len(x.targets) == 1 and isinstance(x.targets[0], ast.Name) for x in assigns):
            vs = [x.targets[0].id for x in assigns]  # type: ignore[attr-defined]
            vals = [x.value for x in assigns]  # type: ignore[attr-defined]
            if len(set(vs)) == len(vs) and not (set(vs) & tn) and not _mentions(vals + cond + [loop.iter], set(vs)):
                defaults: list[ast.expr] | None = []
                if loop.orelse:
                    if (len(loop.orelse) == len(vs) and all(
                            isinstance(x, ast.Assign) and len(x.targets) == 1 and isinstance(x.targets[0], ast.Name)
                            and _simple(x.value) for x in loop.orelse)
                            and sorted(x.targets[0].id for x in loop.orelse) == sorted(vs)):  # type: ignore[attr-defined]
                        by = {x.targets[0].id: x.value for x in loop.orelse}  # type: ignore[attr-defined]
                        defaults = [by[v] for v in vs]
                    else:
                        defaults = None
                else:
                    taken: list[tuple[str, ast.expr]] = []
                    for v in vs:
                        d = _take_init(out, v)
                        if d is None:
                            for w, dv in taken:        # put back what was taken
                                out.append(ast.Assign(targets=[_name(w, ast.Store())], value=dv))
                            defaults = None
                            break
                        taken.append((v, d))
                        defaults.append(d)
                if defaults is not None:
                    if len(vs) == 1:
                        elt, dflt, target = vals[0], defaults[0], _name(vs[0], ast.Store())
                    else:
                        elt = ast.Tuple(elts=vals, ctx=ast.Load())
                        dflt = ast.Tuple(elts=defaults, ctx=ast.Load())
                        target = ast.Tuple(elts=[_name(v, ast.Store()) for v in vs], ctx=ast.Store())
                    call = ast.Call(func=_name("next"), args=[_genexp(elt, tgt, loop.iter, cond), dflt], keywords=[])
                    return [ast.Assign(targets=[target], value=call)]
    return None


# ----------------------------------------------------------------------------- step e: private helpers
class _Scope:
    """Where the normalised method lives: its class (for `self._helper(…)`) and module (for `_helper(…)`)."""

    def __init__(self, tree: ast.Module | None, cls: ast.ClassDef | None):
        self.tree, self.cls = tree, cls
        self.final = final_attrs(tree) if tree is not None else set()
        self.counter = itertools.count()

    def helper(self, call: ast.Call) -> tuple[ast.FunctionDef, bool] | None:
        f = call.func
        if isinstance(f, ast.Attribute) and isinstance(f.value, ast.Name) and f.value.id == "self" and self.cls is not None:
            name, pool, method = f.attr, self.cls.body, True
        elif isinstance(f, ast.Name) and self.tree is not None:
            name, pool, method = f.id, self.tree.body, False
        else:
            return None
        if not name.startswith("_") or name.startswith("__") or name in MODELLED_PRIVATE:
            return None
        found = [x for x in pool if isinstance(x, ast.FunctionDef) and x.name == name]
        if len(found) != 1:
            return None
        fn = found[0]
        decos = {ast.unparse(d) for d in fn.decorator_list}
        if decos - {"staticmethod"}:
            return None
        return fn, method and "staticmethod" not in decos


def _bind_args(fn: ast.FunctionDef, call: ast.Call, has_self: bool) -> list[tuple[str, ast.expr]] | None:
    a = fn.args
    if a.vararg or a.kwarg or a.posonlyargs:
        return None
    params = [x.arg for x in a.args]
    if has_self:
        if not params:
            return None
        params = params[1:]
    defaults: dict[str, ast.expr] = {}
    for p, d in zip(reversed(params), reversed(a.defaults)):
        defaults[p] = d
    for p, d in zip(a.kwonlyargs, a.kw_defaults):
        if d is not None:
            defaults[p.arg] = d
    allp = params + [x.arg for x in a.kwonlyargs]
    given: dict[str, ast.expr] = {}
    if len(call.args) > len(params) or any(isinstance(x, ast.Starred) for x in call.args):
        return None
    for p, x in zip(params, call.args):
        given[p] = x
    for k in call.keywords:
        if k.arg is None or k.arg not in allp or k.arg in given:
            return None
        given[k.arg] = k.value
    out = []
    for p in allp:
        if p in given:
            out.append((p, given[p]))
        elif p in defaults and isinstance(defaults[p], ast.Constant):
            out.append((p, defaults[p]))
        else:
            return None
    return out


def _inline_helpers(stmts: list[ast.stmt], scope: _Scope, depth: int) -> list[ast.stmt]:
    """Replace calls of un-modelled private helpers by their bodies (statement level: `return h(…)`, `x = h(…)`,
    `h(…)`; expression level: helpers that are a single `return E` called with simple arguments)."""
    if depth > 3:
        return stmts

    def body_of(call: ast.Call) -> tuple[list[ast.stmt], list[ast.stmt]] | None:
        """(parameter bindings, normalised body) with all locals of the helper renamed apart."""
        h = scope.helper(call)
        if h is None:
            return None
        fn, has_self = h
        binds = _bind_args(fn, call, has_self)
        if binds is None:
            return None
        k = next(scope.counter)
        norm = normalize(fn, scope, depth + 1)
        local = set(_bound_names(norm)) - {"self"}
        ren = {v: f"_{fn.name.strip('_')}{k}_{v}" for v in local}
        norm = _rename(norm, ren)
        pre = [ast.Assign(targets=[_name(ren.get(p, p), ast.Store())], value=copy.deepcopy(x)) for p, x in binds]
        return pre, norm.body

    class ExprInline(ast.NodeTransformer):
        def visit_Call(self, node):  # noqa: N802
            self.generic_visit(node)
            h = scope.helper(node)
            if h is None:
                return node
            fn, has_self = h
            binds = _bind_args(fn, node, has_self)
            if binds is None or not all(_simple(x) for _, x in binds):
                return node
            norm = normalize(fn, scope, depth + 1)
            if len(norm.body) == 1 and isinstance(norm.body[0], ast.Return) and norm.body[0].value is not None:
                assigned = _stores(norm.body)
                if not assigned & {p for p, _ in binds}:
                    return _subst(norm.body[0].value, dict(binds))
            return node

    def continue_at_returns(block: list[ast.stmt], targets, rest: list[ast.stmt]) -> list[ast.stmt] | None:
        """The helper's body with every `return E` replaced by `<targets> = E; <rest>` (None: a return inside a loop)."""
        res: list[ast.stmt] = []
        for k, x in enumerate(block):
            if isinstance(x, ast.Return):
                if targets is not None:
                    res.append(ast.Assign(targets=copy.deepcopy(targets),
                                          value=x.value if x.value is not None else ast.Constant(value=None)))
                res += copy.deepcopy(rest)
                return res
            if isinstance(x, ast.If):
                if any(isinstance(n, ast.Return) for n in ast.walk(x)):
                    # a path that returned must not run into what follows the `if` in the helper (the continuation need
                    # not end): the remaining statements of the helper belong to the branches that go on
                    later = block[k + 1:]
                    a = continue_at_returns(x.body + ([] if _always_ends(x.body) else copy.deepcopy(later)), targets, rest)
                    b = continue_at_returns(x.orelse + ([] if _always_ends(x.orelse) else copy.deepcopy(later)), targets, rest)
                    if a is None or b is None:
                        return None
                    res.append(ast.If(test=x.test, body=a, orelse=b))
                    return res
                res.append(x)
            elif any(isinstance(n, ast.Return) for n in ast.walk(x)):
                return None
            else:
                res.append(x)
        return res

    out: list[ast.stmt] = []
    for pos, s in enumerate(stmts):
        for field in ("body", "orelse", "finalbody"):
            if isinstance(getattr(s, field, None), list) and not isinstance(s, (ast.FunctionDef, ast.ClassDef)):
                setattr(s, field, _inline_helpers(getattr(s, field), scope, depth))
        if isinstance(s, ast.Try):
            for hd in s.handlers:
                hd.body = _inline_helpers(hd.body, scope, depth)
        s = ExprInline().visit(s)
        call = None
        if isinstance(s, (ast.Return, ast.Assign, ast.Expr)) and isinstance(s.value, ast.Call):
            call = s.value
        got = body_of(call) if call is not None else None
        if got is not None:
            pre, body = got
            if isinstance(s, ast.Return) and _always_ends(body):
                out += pre + body
                continue
            returns = [n for x in body for n in ast.walk(x) if isinstance(n, ast.Return)]
            if isinstance(s, ast.Assign) and body and isinstance(body[-1], ast.Return) and body[-1].value is not None \
                    and returns == [body[-1]]:
                out += pre + body[:-1] + [ast.Assign(targets=s.targets, value=body[-1].value)]
                continue
            if isinstance(s, ast.Expr) and not returns:
                out += pre + body
                continue
            if isinstance(s, (ast.Assign, ast.Expr)) and _leaves_function(body):
                # every path of the helper returns or raises: what follows the call goes on at each `return`
                rest = _inline_helpers(stmts[pos + 1:], scope, depth)
                cont = continue_at_returns(body, s.targets if isinstance(s, ast.Assign) else None, rest)
                if cont is not None:
                    return out + pre + cont
        out.append(s)
    return out


# `self.<attr>` objects whose class is known (set by the extractors): `{"_buffer": <ClassDef OrderedRingBuffer>}`
PEERS: dict[str, ast.ClassDef] = {}


def _positional_calls(fn: ast.FunctionDef, scope: "_Scope") -> None:
    """`self.m(a=x, b=y)` -> `self.m(x, y)` for a method `m` of the same class whose parameters are known (in place;
    keyword-only parameters stay keywords; an omitted parameter with a constant default is filled in when a later one is
    given)."""
    if scope.cls is None:
        return
    for call in ast.walk(fn):
        if not (isinstance(call, ast.Call) and call.keywords and isinstance(call.func, ast.Attribute)):
            continue
        base = call.func.value
        if isinstance(base, ast.Name) and base.id == "self":
            owner = scope.cls
        elif isinstance(base, ast.Attribute) and isinstance(base.value, ast.Name) and base.value.id == "self" \
                and base.attr in PEERS:
            owner = PEERS[base.attr]
        else:
            continue
        found = [x for x in owner.body if isinstance(x, ast.FunctionDef) and x.name == call.func.attr]
        if not found or any(k.arg is None for k in call.keywords) or any(isinstance(a, ast.Starred) for a in call.args):
            continue
        d = found[-1]
        static = any(ast.unparse(x) == "staticmethod" for x in d.decorator_list)
        params = [a.arg for a in d.args.posonlyargs + d.args.args][(0 if static else 1):]
        defaults = dict(zip(reversed(params), reversed(d.args.defaults)))
        kw = {k.arg: k.value for k in call.keywords}
        args = list(call.args)
        ok = True
        for p_ in params[len(args):]:
            if p_ in kw:
                args.append(kw.pop(p_))
            elif any(q in kw for q in params[params.index(p_) + 1:]):
                if p_ in defaults and isinstance(defaults[p_], ast.Constant):
                    args.append(copy.deepcopy(defaults[p_]))
                else:
                    ok = False
                    break
            else:
                break
        if ok and all(k in [a.arg for a in d.args.kwonlyargs] for k in kw):
            call.args = args
            call.keywords = [ast.keyword(arg=k, value=v) for k, v in kw.items()]


# ----------------------------------------------------------------------------- names
def _bound_names(fn: ast.FunctionDef) -> list[str]:
    """Local names of `fn` in order of first binding: parameters, assignment / loop / comprehension / lambda targets."""
    seen: list[str] = []

    def add(name: str) -> None:
        if name not in seen:
            seen.append(name)

    class V(ast.NodeVisitor):
        def visit_arg(self, node):  # noqa: N802
            add(node.arg)

        def visit_Name(self, node):  # noqa: N802
            if isinstance(node.ctx, (ast.Store, ast.Del)):
                add(node.id)

    V().visit(fn)
    return seen


def _rename(node, mapping: dict[str, str]):
    cp = copy.deepcopy(node)
    for n in ast.walk(cp):
        if isinstance(n, ast.Name) and n.id in mapping:
            n.id = mapping[n.id]
        elif isinstance(n, ast.arg) and n.arg in mapping:
            n.arg = mapping[n.arg]
    return cp


def _alpha(fn: ast.FunctionDef, prefix: str) -> None:
    """Rename the variables bound by comprehensions and lambdas apart (`<prefix>c0`, `<prefix>l1`, … in pre-order), in
    place: they live in scopes of their own, so that their names are free."""
    counter = itertools.count()

    def rename(nodes: list, mapping: dict[str, str]) -> None:
        for root in nodes:
            for n in ast.walk(root):
                if isinstance(n, ast.Name) and n.id in mapping:
                    n.id = mapping[n.id]
                elif isinstance(n, ast.arg) and n.arg in mapping:
                    n.arg = mapping[n.arg]

    def visit(node: ast.AST) -> None:
        if isinstance(node, (ast.GeneratorExp, ast.ListComp, ast.SetComp, ast.DictComp)):
            bound = [n.id for g in node.generators for n in ast.walk(g.target) if isinstance(n, ast.Name)]
            mapping = {b: f"{prefix}c{next(counter)}" for b in dict.fromkeys(bound)}
            inside: list = [node.key, node.value] if isinstance(node, ast.DictComp) else [node.elt]
            for j, g in enumerate(node.generators):
                inside += [g.target] + g.ifs + ([g.iter] if j else [])
            rename(inside, mapping)
        elif isinstance(node, ast.Lambda):
            a = node.args
            bound = [x.arg for x in a.posonlyargs + a.args + a.kwonlyargs] + [x.arg for x in (a.vararg, a.kwarg) if x]
            mapping = {b: f"{prefix}l{next(counter)}" for b in bound}
            rename([node.args, node.body], mapping)
        for c in ast.iter_child_nodes(node):
            visit(c)

    for s in fn.body:
        visit(s)


# ----------------------------------------------------------------------------- step i: locals that are just names
def _blocks(stmts: list[ast.stmt], in_loop: bool = False):
    """All statement lists of a function body, with whether they are inside a loop."""
    yield stmts, in_loop
    for s in stmts:
        if isinstance(s, (ast.FunctionDef, ast.ClassDef)):
            continue
        inner = in_loop or isinstance(s, (ast.For, ast.While))
        for field in ("body", "orelse", "finalbody"):
            sub = getattr(s, field, None)
            if isinstance(sub, list):
                yield from _blocks(sub, inner)
        if isinstance(s, ast.Try):
            for h in s.handlers:
                yield from _blocks(h.body, inner)


def _uses_in(node, v: str) -> list[ast.Name]:
    nodes = node if isinstance(node, list) else [node]
    return [n for x in nodes for n in ast.walk(x) if isinstance(n, ast.Name) and n.id == v and isinstance(n.ctx, ast.Load)]


def _stores_in(node, v: str) -> int:
    nodes = node if isinstance(node, list) else [node]
    k = 0
    for x in nodes:
        for n in ast.walk(x):
            if isinstance(n, ast.Name) and n.id == v and isinstance(n.ctx, (ast.Store, ast.Del)):
                k += 1
            elif isinstance(n, ast.AugAssign) and isinstance(n.target, ast.Name) and n.target.id == v:
                k += 1
    return k


def _leaves_function(stmts: list[ast.stmt]) -> bool:
    """Every path through the block ends in `return` / `raise`."""
    if not stmts:
        return False
    s = stmts[-1]
    if isinstance(s, (ast.Return, ast.Raise)):
        return True
    return isinstance(s, ast.If) and _leaves_function(s.body) and _leaves_function(s.orelse)


def _split_definitions(fn: ast.FunctionDef) -> bool:
    """`v = E1; …; v = E2` in one block (nothing in between assigns `v` or jumps): the first definition and its uses get
    a name of their own, so that step i can treat it like any other local.  One round, in place."""
    taken = set(_bound_names(fn)) | {n.id for n in ast.walk(fn) if isinstance(n, ast.Name)}
    for block, _ in _blocks(fn.body):
        for i, s in enumerate(block):
            if not (isinstance(s, ast.Assign) and len(s.targets) == 1 and isinstance(s.targets[0], ast.Name)):
                continue
            v = s.targets[0].id
            if _uses_in(s.value, v):
                continue                     # (its own right-hand side reads an earlier definition: handled from there)
            for j in range(i + 1, len(block)):
                t = block[j]
                if isinstance(t, ast.Assign) and len(t.targets) == 1 and isinstance(t.targets[0], ast.Name) \
                        and t.targets[0].id == v:
                    between = block[i + 1:j]
                    k = 0
                    while f"{v}__{k}" in taken:
                        k += 1
                    fresh = f"{v}__{k}"
                    s.targets[0].id = fresh
                    for n in [n for x in between for n in ast.walk(x)] + list(ast.walk(t.value)):
                        if isinstance(n, ast.Name) and n.id == v:
                            n.id = fresh
                    return True
                if _stores_in(t, v) or any(isinstance(n, (ast.Continue, ast.Break, ast.Lambda, ast.FunctionDef))
                                           for n in ast.walk(t)):
                    break
    return False


def _inline_locals(fn: ast.FunctionDef, final: set[str]) -> bool:
    """One round of step i (in place).  Returns whether something changed."""
    params = {a.arg for a in fn.args.args + fn.args.kwonlyargs + fn.args.posonlyargs}
    for n in ast.walk(fn):
        if isinstance(n, (ast.Global, ast.Nonlocal)):
            return False

    def in_lambda(root: ast.AST, v: str) -> bool:
        return any(isinstance(n, (ast.Lambda, ast.FunctionDef)) and _uses_in(n, v) for n in ast.walk(root))

    def effects_before_use(x: ast.stmt, v: str) -> _Eff:
        """What a statement that uses `v` may change BEFORE the (last) use of `v` in it is evaluated."""
        if isinstance(x, (ast.Assign, ast.Return, ast.Expr)) and x.value is not None and _uses_in(x.value, v) \
                and not (isinstance(x, ast.Assign) and _uses_in(x.targets, v)):
            val = x.value
            # the outermost call runs after its arguments; the targets are assigned after the value is computed
            outer = val if isinstance(val, ast.Call) and not _uses_in(val.func, v) else None
            w = _Eff()
            for n in ast.walk(val):
                if isinstance(n, ast.Call) and n is not outer and not _is_pure_call(n):
                    w.state = w.impure = True
                elif isinstance(n, (ast.Await, ast.Yield, ast.YieldFrom, ast.NamedExpr)):
                    w.state = w.impure = True
            return w
        if isinstance(x, ast.If):
            # uses in the tests of an if / elif chain only: the tests run before any of the branches
            tests, cur = [], x
            while True:
                tests.append(cur.test)
                if len(cur.orelse) == 1 and isinstance(cur.orelse[0], ast.If):
                    cur = cur.orelse[0]
                else:
                    break
            if len(_uses_in(tests, v)) == len(_uses_in(x, v)):
                w = _Eff()
                for t in tests:
                    for n in ast.walk(t):
                        if (isinstance(n, ast.Call) and not _is_pure_call(n)) or \
                                isinstance(n, (ast.Await, ast.Yield, ast.YieldFrom, ast.NamedExpr)):
                            w.state = w.impure = True
                return w
        return _writes(x, final)

    def merge(a: _Eff, b: _Eff) -> None:
        a.names |= b.names
        a.attrs |= b.attrs
        a.attr_roots |= b.attr_roots
        a.state = a.state or b.state
        a.impure = a.impure or b.impure

    def before_uses(stmts: list[ast.stmt], v: str) -> _Eff:
        """What may have happened, along some path through `stmts`, between the definition and SOME use of `v` (the
        union over the uses: each must still see the value the expression had at the definition)."""
        seen, acc = _Eff(), _Eff()
        for k, x in enumerate(stmts):
            if not _uses_in(stmts[k:], v):
                break
            if not _uses_in(x, v):
                merge(acc, _writes(x, final))
                continue
            if isinstance(x, ast.If):
                if _uses_in(x.test, v):
                    merge(seen, acc)
                merge(acc, _writes(ast.Expr(value=x.test), final))
                for br in (x.body, x.orelse):
                    if _uses_in(br, v):
                        inner = before_uses(br, v)
                        merge(seen, acc)
                        merge(seen, inner)
                merge(acc, _writes(x, final))
                continue
            if isinstance(x, (ast.Assign, ast.Return, ast.Expr)):
                merge(seen, acc)
                merge(seen, effects_before_use(x, v))
                merge(acc, _writes(x, final))
                continue
            merge(acc, _writes(x, final))         # (a loop, …: everything in it may run before a use in it)
            merge(seen, acc)
        return seen

    def before_first_use(stmts: list[ast.stmt], v: str) -> _Eff:
        """What may have happened, along a path through `stmts`, when `v` is evaluated for the first time."""
        acc = _Eff()
        for k, x in enumerate(stmts):
            if not _uses_in(stmts[k:], v):
                break                         # no evaluation of `v` from here on
            if not _uses_in(x, v):
                merge(acc, _writes(x, final))
                continue
            if isinstance(x, ast.If):
                if not _uses_in(x.test, v):
                    merge(acc, _writes(ast.Expr(value=x.test), final))
                    goes_on = bool(_uses_in(stmts[k + 1:], v))
                    for br in (x.body, x.orelse):
                        if _uses_in(br, v):
                            merge(acc, before_first_use(br, v))
                        elif goes_on:         # a path through a branch without a use reaches the later ones
                            merge(acc, _writes(ast.If(test=ast.Constant(value=True), body=br or [ast.Pass()],
                                                      orelse=[]), final))
                    continue
                return acc
            merge(acc, effects_before_use(x, v))
            return acc
        return acc

    for block, in_loop in _blocks(fn.body):
        for i, s in enumerate(block):
            if not (isinstance(s, ast.Assign) and len(s.targets) == 1 and isinstance(s.targets[0], ast.Name)):
                continue
            v = s.targets[0].id
            if v in params:
                continue
            e = s.value
            r = _reads(e, final)
            if r.impure or v in r.names:
                continue
            later = block[i + 1:]
            n_later = len(_uses_in(later, v))
            if n_later == 0 or _stores_in(later, v):
                continue
            # this must be the only definition that reaches the uses, and it must reach nothing else:
            # either the only assignment of `v` with all uses behind it, or a block that leaves the function
            unique = _stores_in(fn, v) == 1 and len(_uses_in(fn, v)) == n_later
            if not unique and not (not in_loop and _leaves_function(later)):
                continue
            has_call = any(isinstance(n, ast.Call) for n in ast.walk(e))
            if n_later > 1 and has_call and not all(_call_name(n) in STATELESS_CALLS
                                                   for n in ast.walk(e) if isinstance(n, ast.Call)):
                continue
            if any(in_lambda(x, v) for x in later):
                continue
            ok = not _interferes(before_uses(later, v), r)
            if ok and not _total(e):
                # an expression that may raise is evaluated for the first time where it used to be, as far as side
                # effects can tell (later evaluations repeat the first one)
                w1 = before_first_use(later, v)
                ok = not (w1.attrs or w1.state or w1.impure)
            if not ok:
                continue
            for x in later:
                for n in ast.walk(x):
                    for field, old in ast.iter_fields(n):
                        if isinstance(old, ast.Name) and old.id == v and isinstance(old.ctx, ast.Load):
                            setattr(n, field, copy.deepcopy(e))
                        elif isinstance(old, list):
                            for j, y in enumerate(old):
                                if isinstance(y, ast.Name) and y.id == v and isinstance(y.ctx, ast.Load):
                                    old[j] = copy.deepcopy(e)
            del block[i]
            return True
    return False


# ----------------------------------------------------------------------------- the normal form
def _strip(fn: ast.FunctionDef) -> ast.FunctionDef:
    fn = copy.deepcopy(fn)
    fn.decorator_list = []
    fn.returns = None
    for a in fn.args.args + fn.args.kwonlyargs + fn.args.posonlyargs:
        a.annotation = None
    return fn


def normalize(fn: ast.FunctionDef, scope: _Scope | None = None, depth: int = 0) -> ast.FunctionDef:
    scope = scope or _Scope(None, None)
    int_params = {a.arg for a in fn.args.args + fn.args.kwonlyargs
                  if isinstance(a.annotation, ast.Name) and a.annotation.id == "int"}
    int_calls = {f"self.{m.name}" for m in (scope.cls.body if scope.cls is not None else [])
                 if isinstance(m, ast.FunctionDef) and isinstance(m.returns, ast.Name) and m.returns.id == "int"
                 and not any(ast.unparse(d) == "property" for d in m.decorator_list)}
    fn = _strip(fn)
    params = [a.arg for a in fn.args.args + fn.args.kwonlyargs if a.arg != "self"]

    def key_fn():
        local = set(_bound_names(fn)) - set(params)

        def key(s: ast.stmt) -> str:
            cp = copy.deepcopy(s)
            for n in ast.walk(cp):
                if isinstance(n, ast.Name):
                    if n.id in params:
                        n.id = f"_p{params.index(n.id)}"
                    elif n.id in local:
                        n.id = "_"
            return ast.unparse(ast.fix_missing_locations(cp))
        return key

    def flag_params() -> list[str]:
        """Parameters that are never assigned and occur as a condition (`p`, `not p`, an operand of `and`/`or`) of an `if`."""
        used: set[str] = set()

        def lits(t: ast.expr) -> None:
            if isinstance(t, ast.Name):
                used.add(t.id)
            elif isinstance(t, ast.UnaryOp) and isinstance(t.op, ast.Not):
                lits(t.operand)
            elif isinstance(t, ast.BoolOp):
                for v in t.values:
                    lits(v)

        for n in ast.walk(fn):
            if isinstance(n, ast.If):
                lits(n.test)
        return [q for q in params if q in used and _stores_in(fn, q) == 0]

    def local_names() -> set[str]:
        return set(_bound_names(fn)) - {"self"}

    def mark_leaks() -> None:
        """`loop._leaks`: are the loop variables of a `for` used outside of it?  (computed on the whole function
        before the blocks are rearranged; the mark survives the copies made there)"""
        for loop in ast.walk(fn):
            if isinstance(loop, ast.For):
                names = _target_names(loop.target)
                if names is None:
                    loop._leaks = True  # type: ignore[attr-defined]
                    continue
                inside = sum(1 for n in ast.walk(loop) if isinstance(n, ast.Name) and n.id in names)
                total = sum(1 for n in ast.walk(fn) if isinstance(n, ast.Name) and n.id in names)
                loop._leaks = total != inside  # type: ignore[attr-defined]

    def outside_uses_of(loop: ast.For):
        return lambda names: getattr(loop, "_leaks", True)

    def stable_names() -> set[str]:
        """Locals whose value never changes once they exist: parameters that are never assigned, and names assigned
        exactly once, by a statement of the function's top-level block."""
        count: dict[str, int] = {}
        for n in ast.walk(fn):
            if isinstance(n, ast.Name) and isinstance(n.ctx, (ast.Store, ast.Del)):
                count[n.id] = count.get(n.id, 0) + 1
            elif isinstance(n, ast.AugAssign) and isinstance(n.target, ast.Name):
                count[n.target.id] = count.get(n.target.id, 0) + 1
        top = {t.id for x in fn.body if isinstance(x, ast.Assign) for t in x.targets if isinstance(t, ast.Name)}
        return {p for p in params if count.get(p, 0) == 0} | {v for v in top if count.get(v, 0) == 1}

    def with_facts(test: ast.expr, known: dict[str, bool]) -> ast.expr:
        """`test` simplified with what the enclosing `if`s say about stable boolean locals."""
        if isinstance(test, ast.Name) and test.id in known:
            return ast.Constant(value=known[test.id])
        if isinstance(test, ast.UnaryOp) and isinstance(test.op, ast.Not):
            inner = with_facts(test.operand, known)
            if isinstance(inner, ast.Constant) and isinstance(inner.value, bool):
                return ast.Constant(value=not inner.value)
            return ast.UnaryOp(op=ast.Not(), operand=inner)
        if isinstance(test, ast.BoolOp):
            is_and = isinstance(test.op, ast.And)
            vals = []
            for v in test.values:
                w = with_facts(v, known)
                if isinstance(w, ast.Constant) and isinstance(w.value, bool):
                    if w.value is (not is_and):
                        # `… and False` / `… or True`: what comes before still runs — unless it cannot matter
                        if all(_total(x) for x in vals):
                            return ast.Constant(value=w.value)
                        vals.append(w)
                        break
                    continue
                vals.append(w)
            if not vals:
                return ast.Constant(value=is_and)
            return vals[0] if len(vals) == 1 else ast.BoolOp(op=test.op, values=vals)
        return test

    def facts_of(test: ast.expr, stable: set[str]) -> tuple[dict[str, bool], dict[str, bool]]:
        """(what holds in the body, what holds in the else branch) about stable names."""
        def lit(t: ast.expr):
            if isinstance(t, ast.Name) and t.id in stable:
                return t.id, True
            if isinstance(t, ast.UnaryOp) and isinstance(t.op, ast.Not) and isinstance(t.operand, ast.Name) \
                    and t.operand.id in stable:
                return t.operand.id, False
            return None
        one = lit(test)
        if one:
            return {one[0]: one[1]}, {one[0]: not one[1]}
        if isinstance(test, ast.BoolOp):
            lits = [x for x in map(lit, test.values) if x]
            if isinstance(test.op, ast.And):
                return dict(lits), {}
            return {}, {k: not v for k, v in lits}
        return {}, {}

    def as_ifelse(stmts: list[ast.stmt]):
        """A block that is one decision: `[if T: X else: Y]` or the un-nested `[if T: X↓, *Y]`  ->  (T, X, Y)."""
        if stmts and isinstance(stmts[0], ast.If):
            f = stmts[0]
            if len(stmts) == 1:
                return f.test, f.body, f.orelse
            if not f.orelse and _always_ends(f.body):
                return f.test, f.body, stmts[1:]
        return None

    def conj(op, a: ast.expr, b: ast.expr) -> ast.expr:
        vals: list[ast.expr] = []
        for t in (a, b):
            vals += t.values if isinstance(t, ast.BoolOp) and type(t.op) is type(op) else [t]
        return ast.BoolOp(op=op, values=vals)

    def bool_return(b: list[ast.stmt]):
        if len(b) == 1 and isinstance(b[0], ast.Return) and isinstance(b[0].value, ast.Constant) \
                and isinstance(b[0].value.value, bool):
            return b[0].value.value
        return None

    def block(stmts: list[ast.stmt], tail: str | None, key, known: dict[str, bool], stable: set[str]) -> list[ast.stmt]:
        stmts = _merge_ifs(list(stmts))
        _alias_elements(stmts)
        out: list[ast.stmt] = []
        i = 0
        while i < len(stmts):
            s = stmts[i]
            rest = stmts[i + 1:]
            if isinstance(s, ast.If):
                s.test = with_facts(s.test, known)
                if isinstance(s.test, ast.Constant) and isinstance(s.test.value, bool):
                    stmts = stmts[:i] + (s.body if s.test.value else s.orelse) + rest
                    continue
                if rest and (_may_end(s) or (len(rest) == 1 and isinstance(rest[0], (ast.Return, ast.Raise)))):
                    # some path leaves the block early (or all that follows is `return …` / `raise …`): the rest of
                    # the block belongs to the paths that go on
                    if not _always_ends(s.body):
                        s.body = s.body + copy.deepcopy(rest)
                    if not _always_ends(s.orelse):
                        s.orelse = s.orelse + copy.deepcopy(rest)
                    rest = []
                    stmts = stmts[:i + 1]
                sub = tail if not rest else None
                fb, fo = facts_of(s.test, stable)
                s.body = block(s.body, sub, key, {**known, **fb}, stable)
                s.orelse = block(s.orelse, sub, key, {**known, **fo}, stable)
                test_reads = _reads(s.test, scope.final)
                if s.body and s.orelse and _total(s.test):
                    # what both branches start with happens before the decision (if it cannot change the test) …
                    while (s.body and s.orelse and _dump(s.body[0]) == _dump(s.orelse[0])
                           and not _interferes(_writes(s.body[0], scope.final), test_reads)):
                        out.append(s.body[0])
                        s.body, s.orelse = s.body[1:], s.orelse[1:]
                    # … and what both end with happens after it (when no path leaves the block inside the `if`)
                    if not _may_end(s):
                        suffix: list[ast.stmt] = []
                        while s.body and s.orelse and _dump(s.body[-1]) == _dump(s.orelse[-1]):
                            suffix.insert(0, s.body[-1])
                            s.body, s.orelse = s.body[:-1], s.orelse[:-1]
                        if suffix:
                            rest = suffix + rest
                            stmts = stmts[:i + 1] + rest
                if not s.body and not s.orelse:
                    if not _total(s.test):
                        out.append(ast.Expr(value=s.test))
                    i += 1
                    continue
                if _dump(s.body) == _dump(s.orelse) and _total(s.test):
                    stmts = stmts[:i] + s.body + rest            # both branches do the same
                    continue
                changed = True
                while changed:
                    changed = False
                    if not s.body:
                        s.test, s.body, s.orelse = negate(s.test), s.orelse, []
                    elif s.orelse:
                        eb, eo = _always_ends(s.body), _always_ends(s.orelse)
                        if eb and eo:  # both end: a branch that is nothing but `raise …` (or `return …`) is the guard
                            def guard(b: list[ast.stmt]) -> int:
                                return 0 if len(b) != 1 or isinstance(b[0], ast.If) else 2 if isinstance(b[0], ast.Raise) else 1
                            eb, eo = guard(s.body) > guard(s.orelse), guard(s.orelse) > guard(s.body)
                        # exactly one branch ends: that one comes first (a guard); otherwise the test is made positive
                        if (eo and not eb) or (eb == eo and is_negative(s.test)):
                            s.test, s.body, s.orelse = negate(s.test), s.orelse, s.body
                    # `if A and B: X else: (if A: Y else: R)`  ==  `if A: (if B: X else: Y) else: R`   (A pure)
                    if s.orelse and isinstance(s.test, ast.BoolOp) and isinstance(s.test.op, ast.And):
                        inner = as_ifelse(s.orelse)
                        if inner is not None:
                            t, y, r_ = inner
                            if not (isinstance(t, ast.BoolOp) and isinstance(t.op, ast.And)) \
                                    and _dump(negate(t)) == _dump(s.test.values[0]) and y and r_:
                                t, y, r_ = negate(t), r_, y      # … else: (if ¬A: R else: Y)
                            tv = t.values if isinstance(t, ast.BoolOp) and isinstance(t.op, ast.And) else [t]
                            k = 0
                            while k < min(len(tv), len(s.test.values) - 1) and _dump(tv[k]) == _dump(s.test.values[k]):
                                k += 1
                            if k and all(not _reads(x, scope.final).impure for x in tv[:k]):
                                restv = s.test.values[k:]
                                b = restv[0] if len(restv) == 1 else ast.BoolOp(op=ast.And(), values=restv)
                                if k < len(tv):
                                    # `if P and B: X else: (if P and C: Y else: R)` == `if P: (if B: X else: (if C: Y else: R)) else: R`
                                    c_ = tv[k] if len(tv) == k + 1 else ast.BoolOp(op=ast.And(), values=tv[k:])
                                    y = [ast.If(test=c_, body=y, orelse=copy.deepcopy(r_))]
                                    t = tv[0] if k == 1 else ast.BoolOp(op=ast.And(), values=tv[:k])
                                nested = block([ast.If(test=b, body=s.body, orelse=y)], sub, key, known, stable)
                                s.test, s.body, s.orelse, changed = t, nested, r_, True
                                continue
                    # nested decisions with a common outcome are one decision over `and` / `or`
                    inner = as_ifelse(s.body)
                    if inner is not None:
                        t, x, y = inner
                        if _dump(y) == _dump(s.orelse):          # if A: (if B: X else: Y) else: Y
                            s.test, s.body, changed = conj(ast.And(), s.test, t), x, True
                        elif _dump(x) == _dump(s.orelse) and y:  # if A: (if B: Y else: X) else: Y
                            s.test, s.body, changed = conj(ast.And(), s.test, negate(t)), y, True
                    if not changed and s.orelse:
                        inner = as_ifelse(s.orelse)
                        if inner is not None:
                            t, x, y = inner
                            if _dump(x) == _dump(s.body):        # if A: X else: (if B: X else: Y)
                                s.test, s.orelse, changed = conj(ast.Or(), s.test, t), y, True
                            elif _dump(y) == _dump(s.body):      # if A: X else: (if B: Y else: X)
                                s.test, s.orelse, changed = conj(ast.Or(), s.test, negate(t)), x, True
                # a boolean local decided by a boolean test:  `if C: v = E1 else: v = E2`  ==  `v = C and E1 or not C and E2`
                if (len(s.body) == 1 and len(s.orelse) == 1 and all(
                        isinstance(x, ast.Assign) and len(x.targets) == 1 and isinstance(x.targets[0], ast.Name)
                        and _is_bool(x.value) and not isinstance(x.value, ast.Constant)
                        and not _reads(x.value, scope.final).impure for x in (s.body[0], s.orelse[0]))
                        and s.body[0].targets[0].id == s.orelse[0].targets[0].id
                        and s.body[0].targets[0].id in local_names() - set(params)
                        and _is_bool(s.test) and not _reads(s.test, scope.final).impure
                        and not _mentions([s.test], {s.body[0].targets[0].id})):
                    val = ast.BoolOp(op=ast.Or(), values=[
                        conj(ast.And(), s.test, s.body[0].value),
                        conj(ast.And(), negate(copy.deepcopy(s.test)), s.orelse[0].value)])
                    stmts = stmts[:i] + [ast.Assign(targets=s.body[0].targets, value=val)] + rest
                    i += 1
                    out.append(stmts[i - 1])
                    continue
                # boolean functions: `if C: return True else: return E`  ==  `return C or E`  (E boolean), …
                if s.orelse and _is_bool(s.test):
                    bt, bf = bool_return(s.body), bool_return(s.orelse)
                    ret = None
                    if bt is not None and bf is not None and bt is not bf:
                        ret = s.test if bt else negate(s.test)
                    elif bt is not None and len(s.orelse) == 1 and isinstance(s.orelse[0], ast.Return) \
                            and s.orelse[0].value is not None and _is_bool(s.orelse[0].value):
                        e = s.orelse[0].value
                        ret = conj(ast.Or(), s.test, e) if bt else conj(ast.And(), negate(s.test), e)
                    elif bf is not None and len(s.body) == 1 and isinstance(s.body[0], ast.Return) \
                            and s.body[0].value is not None and _is_bool(s.body[0].value):
                        e = s.body[0].value
                        ret = conj(ast.Or(), negate(s.test), e) if bf else conj(ast.And(), s.test, e)
                    if ret is not None:
                        out.append(ast.Return(value=ret))
                        break
                # `if C: …; v = E1 else: …; v = E2` + `T = v` (the only use of the local `v`)  ==  `if C: …; T = E1 else: …; T = E2`
                # (the right-hand side of an assignment is evaluated before its target: the order does not change)
                if (s.body and s.orelse and rest and isinstance(rest[0], ast.Assign) and isinstance(rest[0].value, ast.Name)
                        and all(isinstance(b[-1], ast.Assign) and len(b[-1].targets) == 1
                                and isinstance(b[-1].targets[0], ast.Name) and b[-1].targets[0].id == rest[0].value.id
                                for b in (s.body, s.orelse))):
                    v = rest[0].value.id
                    users = [x for x in ast.walk(fn) if isinstance(x, ast.stmt) and not isinstance(x, ast.FunctionDef)
                             and any(isinstance(c, ast.expr) and _uses_in(c, v) for c in ast.iter_child_nodes(x))]
                    if (v in local_names() - set(params) and not _mentions(rest[0].targets, {v}) and not _mentions(rest[1:], {v})
                            and all(_dump(x) == _dump(rest[0]) for x in users)
                            and not any(isinstance(n, (ast.Lambda, ast.FunctionDef)) and _uses_in(n, v) for n in ast.walk(fn)
                                        if n is not fn)):
                        for b in (s.body, s.orelse):
                            b[-1] = ast.Assign(targets=copy.deepcopy(rest[0].targets), value=b[-1].value)
                        rest = rest[1:]
                        stmts = stmts[:i + 1] + rest
                if s.orelse and _always_ends(s.body):            # un-nest the `else` of a branch that ends
                    tail_stmts, s.orelse = s.orelse, []
                    out.append(s)
                    out.extend(tail_stmts)
                    if rest:                                     # (cannot happen: the rest was moved into the branches)
                        raise Bad(f"{fn.name}: internal error (statements after a decision that ends)")
                    break
                out.append(s)
                i += 1
                continue
            if isinstance(s, (ast.For, ast.While)):
                s.body = block(s.body, "loop", key, known, stable)
                s.orelse = block(s.orelse, None, key, known, stable)
                if isinstance(s, ast.For):
                    rest_copy = list(rest)
                    rep = _loop_as_comprehension(s, out, rest_copy, outside_uses_of(s))
                    if rep is not None:
                        stmts = stmts[:i] + rep + rest_copy
                        continue
                out.append(s)
                i += 1
                continue
            if isinstance(s, ast.Try):
                s.body = block(s.body, None, key, known, stable)
                s.orelse = block(s.orelse, None, key, known, stable)
                s.finalbody = block(s.finalbody, None, key, known, stable)
                for h in s.handlers:
                    h.body = block(h.body, None, key, known, stable)
            elif isinstance(s, ast.With):
                s.body = block(s.body, None, key, known, stable)
            out.append(s)
            i += 1
            if isinstance(s, (ast.Return, ast.Raise, ast.Continue, ast.Break)):
                break                                            # what follows is unreachable
        # `v = E; return v`  ==  `return E`   (whatever else `v` is used for: the function is left)
        if (len(out) >= 2 and isinstance(out[-1], ast.Return) and isinstance(out[-1].value, ast.Name)
                and isinstance(out[-2], ast.Assign) and len(out[-2].targets) == 1
                and isinstance(out[-2].targets[0], ast.Name) and out[-2].targets[0].id == out[-1].value.id
                and out[-1].value.id in local_names()):
            out[-2:] = [ast.Return(value=out[-2].value)]
        # a trailing `continue` / bare `return` does nothing
        while out and ((tail == "loop" and isinstance(out[-1], ast.Continue))
                       or (tail == "fn" and isinstance(out[-1], ast.Return) and out[-1].value is None)):
            out.pop()
        return _normal_order(out, key)

    def rewriter() -> _Rewrite:
        names = [n for n in _bound_names(fn) if n != "self"]
        pos = {n: (f"_p{params.index(n)}" if n in params else f"_v{k:02d}") for k, n in enumerate(names)}
        # locals whose every assignment is an element of `self._gaps`, a copy of one, a `Gap(…)` or None
        holds: dict[str, bool] = {}
        for n in ast.walk(fn):
            tv = []
            if isinstance(n, ast.Assign):
                for t in n.targets:
                    if isinstance(t, ast.Name):
                        tv.append((t.id, n.value))
                    elif isinstance(t, ast.Tuple) and isinstance(n.value, ast.Tuple) and len(t.elts) == len(n.value.elts):
                        tv += [(a.id, b) for a, b in zip(t.elts, n.value.elts) if isinstance(a, ast.Name)]
                    else:
                        tv += [(a.id, None) for a in ast.walk(t) if isinstance(a, ast.Name)]
            elif isinstance(n, (ast.For, ast.comprehension)):
                tv += [(a.id, None) for a in ast.walk(n.target) if isinstance(a, ast.Name)]
            for name, v in tv:
                ok = v is not None and (
                    (isinstance(v, ast.Constant) and v.value is None)
                    or (isinstance(v, ast.Subscript) and ast.unparse(v.value) in ("self._gaps", "self.gaps")
                        and not isinstance(v.slice, ast.Slice))
                    or (isinstance(v, ast.Call) and _call_name(v) == "Gap")
                    or (isinstance(v, ast.IfExp) and all(
                        (isinstance(x, ast.Constant) and x.value is None)
                        or (isinstance(x, ast.Subscript) and ast.unparse(x.value) in ("self._gaps", "self.gaps"))
                        for x in (v.body, v.orelse))))
                holds[name] = holds.get(name, True) and ok
        return _Rewrite(pos, {n for n, ok in holds.items() if ok and n not in params},
                        _int_locals(fn, int_params, int_calls), int_calls)

    rw = rewriter()
    fn.body = [s for s in (rw.visit(s) for s in fn.body) if s is not None]
    fn.body = [x for s in fn.body for x in (s if isinstance(s, list) else [s])]
    ast.fix_missing_locations(fn)
    prev = None
    for _ in range(40):
        _positional_calls(fn, scope)
        fn.body = _inline_helpers(fn.body, scope, depth)
        # the rewrites of single nodes again: inlining and merging create new opportunities
        body = []
        rw = rewriter()
        for s in fn.body:
            r = rw.visit(s)
            if r is not None:
                body += r if isinstance(r, list) else [r]
        fn.body = body
        mark_leaks()
        for flag in reversed(flag_params()):
            # a case split on a boolean parameter at the very top: whatever way its tests are arranged in the source,
            # each half is the function specialised to one value (the halves are merged again where they agree)
            fn.body = [ast.If(test=_name(flag), body=fn.body, orelse=copy.deepcopy(fn.body))]
        fn.body = block(fn.body, "fn", key_fn(), {}, stable_names())
        while _split_definitions(fn) or _inline_locals(fn, scope.final):
            pass
        _alpha(fn, "__t")
        _alpha(fn, "_")
        ast.fix_missing_locations(fn)
        cur = ast.dump(fn)
        if cur == prev:
            return fn
        prev = cur
    raise Bad(f"{fn.name}: the normal form does not converge")


# ============================================================================= 3. patterns
class _NoMatch(Exception):
    pass


def _order_free(e: ast.expr) -> bool:
    """May the operands of `and`/`or` be evaluated in any order?"""
    return _total(e)


class _Unifier:
    def __init__(self, pat_fn: ast.FunctionDef, fn: ast.FunctionDef):
        self.pat_locals = set(_bound_names(pat_fn))
        self.fn_locals = set(_bound_names(fn))
        self.ren: dict[str, str] = {}
        self.inv: dict[str, str] = {}
        self.holes: dict[str, ast.expr] = {}

    def name(self, p: str, a: str) -> None:
        if p == "self" or a == "self":
            if p != a:
                raise _NoMatch(f"name {a!r} where {p!r} is expected")
            return
        if p in self.pat_locals:
            if a not in self.fn_locals:
                raise _NoMatch(f"{a!r} is not a local (pattern local {p!r})")
            if self.ren.setdefault(p, a) != a or self.inv.setdefault(a, p) != p:
                raise _NoMatch(f"local {a!r} does not play the role of {p!r} consistently")
        elif p != a or a in self.fn_locals:
            raise _NoMatch(f"name {a!r} where {p!r} is expected")

    def snapshot(self):
        return dict(self.ren), dict(self.inv), dict(self.holes)

    def restore(self, snap) -> None:
        self.ren, self.inv, self.holes = snap

    def hole(self, label: str, a: ast.AST) -> None:
        if not isinstance(a, ast.expr):
            raise _NoMatch(f"hole {label} needs an expression")
        if label in self.holes and ast.dump(self.holes[label]) != ast.dump(a):
            raise _NoMatch(f"hole {label} bound twice")
        self.holes[label] = a

    def unify(self, p, a) -> None:
        if isinstance(p, ast.Name) and p.id.startswith("HOLE_"):
            return self.hole(p.id[5:], a)
        if isinstance(p, list):
            if not isinstance(a, list) or len(p) != len(a):
                raise _NoMatch(f"{len(a) if isinstance(a, list) else '?'} item(s) where {len(p)} are expected: "
                               f"`{_show(a)}` vs `{_show(p)}`")
            for x, y in zip(p, a):
                self.unify(x, y)
            return
        if not isinstance(p, ast.AST):
            if p != a:
                raise _NoMatch(f"{a!r} where {p!r} is expected")
            return
        if type(p) is not type(a):
            raise _NoMatch(f"`{_show(a)}` where `{_show(p)}` is expected")
        if isinstance(p, ast.Name):
            return self.name(p.id, a.id)
        if isinstance(p, ast.arg):
            return self.name(p.arg, a.arg)
        if isinstance(p, ast.BoolOp):
            return self.boolop(p, a)
        if isinstance(p, ast.Call) and all(k.arg for k in p.keywords + a.keywords):
            # keyword arguments in any order (their values are evaluated in another order: only side effects differ,
            # and a call with side effects in an argument does not unify with any pattern)
            self.unify(p.func, a.func)
            self.unify(p.args, a.args)
            pk, ak = sorted(p.keywords, key=lambda k: k.arg), sorted(a.keywords, key=lambda k: k.arg)
            if [k.arg for k in pk] != [k.arg for k in ak]:
                raise _NoMatch(f"`{_show(a)}` where `{_show(p)}` is expected")
            for x, y in zip(pk, ak):
                self.unify(x.value, y.value)
            return
        for field in p._fields:
            if field in ("ctx", "type_comment", "lineno", "col_offset", "end_lineno", "end_col_offset", "kind"):
                continue
            self.unify(getattr(p, field, None), getattr(a, field, None))

    def boolop(self, p: ast.BoolOp, a: ast.BoolOp) -> None:
        if type(p.op) is not type(a.op):
            raise _NoMatch(f"`{_show(a)}` where `{_show(p)}` is expected")
        is_hole = lambda x: isinstance(x, ast.Name) and x.id.startswith("HOLE_")  # noqa: E731
        holes = [x for x in p.values if is_hole(x)]
        fixed = [x for x in p.values if not is_hole(x)]
        if len(holes) > 1:
            raise Bad("pattern: more than one hole in one and/or")
        avail = list(a.values)
        if all(_order_free(x) for x in a.values):
            for x in fixed:                                   # any order
                for k, y in enumerate(avail):
                    snap = self.snapshot()
                    try:
                        self.unify(x, y)
                        del avail[k]
                        break
                    except _NoMatch:
                        self.restore(snap)
                else:
                    raise _NoMatch(f"no operand `{_show(x)}` in `{_show(a)}`")
        else:                                                 # source order; the hole takes what is left in its place
            pos = [k for k, x in enumerate(p.values) if is_hole(x)]
            n_extra = len(a.values) - len(fixed)
            k = 0
            rest: list[ast.expr] = []
            for j, x in enumerate(p.values):
                if pos and j == pos[0]:
                    if n_extra < 1:
                        raise _NoMatch(f"`{_show(a)}` where `{_show(p)}` is expected")
                    rest = a.values[k:k + n_extra]
                    k += n_extra
                else:
                    if k >= len(a.values):
                        raise _NoMatch(f"`{_show(a)}` where `{_show(p)}` is expected")
                    self.unify(x, a.values[k])
                    k += 1
            if k != len(a.values):
                raise _NoMatch(f"`{_show(a)}` where `{_show(p)}` is expected")
            avail = rest
        if holes:
            if not avail:
                raise _NoMatch(f"nothing left for {holes[0].id} in `{_show(a)}`")
            self.hole(holes[0].id[5:], avail[0] if len(avail) == 1 else ast.BoolOp(op=a.op, values=avail))
        elif avail:
            raise _NoMatch(f"extra operand `{_show(avail[0])}` in `{_show(a)}`")


def _show(n) -> str:
    try:
        if isinstance(n, list):
            return "; ".join(_show(x) for x in n)[:160]
        if isinstance(n, ast.AST):
            return ast.unparse(ast.fix_missing_locations(copy.deepcopy(n))).replace("\n", " ⏎ ")[:160]
    except Exception:  # pragma: no cover
        pass
    return repr(n)[:160]


def show(fn: ast.FunctionDef) -> str:
    return "\n".join(line.rstrip() for line in ast.unparse(ast.fix_missing_locations(copy.deepcopy(fn))).splitlines())


def match(fn: ast.FunctionDef, patterns: list[str], what: str) -> tuple[int, dict[str, ast.expr]]:
    """Unify the normal form `fn` with the first pattern that fits.  Returns (index, holes); the expressions bound to
    the holes are given with the pattern's local names."""
    errors = []
    for i, text in enumerate(patterns):
        pat = ast.parse(text.strip("\n")).body[0]
        assert isinstance(pat, ast.FunctionDef)
        u = _Unifier(pat, fn)
        try:
            if pat.name != fn.name:
                raise _NoMatch("name")
            u.unify(pat.args, fn.args)
            u.unify(pat.body, fn.body)
        except _NoMatch as e:
            errors.append(str(e))
            continue
        back = {a: p for p, a in u.ren.items()}
        # two-step renaming so that a swap of two names cannot collide
        tmp = {a: f"__rb{k}" for k, a in enumerate(back)}
        fin = {f"__rb{k}": back[a] for k, a in enumerate(back)}
        return i, {k: _rename(_rename(v, tmp), fin) for k, v in u.holes.items()}
    raise Bad(f"{what}: the method does not have the recorded structure ({' | '.join(errors)}):\n{show(fn)}")


def find_method(tree: ast.Module, cls: str, name: str) -> ast.FunctionDef:
    """The implementation of `cls.name` in normal form."""
    for c in tree.body:
        if isinstance(c, ast.ClassDef) and c.name == cls:
            found = [f for f in c.body if isinstance(f, ast.FunctionDef) and f.name == name]
            # `@overload` stubs come first: the implementation is the last definition
            if found:
                return normalize(found[-1], _Scope(tree, c))
    raise Bad(f"{cls}.{name} not found")


# names shared by most methods
COMMON = {
    "self._sampling_period": "period",
    "self._full_time_range": "fullRange",
    "self._timestamp_oldest": "oldest",
    "self._timestamp_newest": "selfNewest",
    "timestamp": "timestamp",
    "timedelta(0)": "(0)",
}


# ============================================================================= self-test:  python3 _rb_common.py
# Pairs of methods `f` that must NOT get the same normal form (the second is a behaviour-changing variant of the
# first that a careless rewrite rule would identify with it), and pairs that must.
_DIFFERENT = [
    ("a state query moved behind an attribute assignment",
     "def f(self, t):\n    x = self.to_internal_index(t)\n    self._a = 1\n    self._buffer[x] = 0\n",
     "def f(self, t):\n    self._a = 1\n    self._buffer[self.to_internal_index(t)] = 0\n"),
    ("a common first statement hoisted over an impure test",
     "def f(self):\n    if self._c():\n        self._s()\n        self._x()\n    else:\n        self._s()\n        self._y()\n",
     "def f(self):\n    self._s()\n    if self._c():\n        self._x()\n    else:\n        self._y()\n"),
    ("an element read after it was deleted",
     "def f(self):\n    y = self._gaps[0]\n    del self._gaps[0]\n    return y\n",
     "def f(self):\n    del self._gaps[0]\n    return self._gaps[0]\n"),
    ("an attribute read after it was assigned",
     "def f(self, gap, t):\n    v = gap.end\n    gap.end = t\n    return v\n",
     "def f(self, gap, t):\n    gap.end = t\n    return gap.end\n"),
    ("len() after append",
     "def f(self, g):\n    n = len(self._gaps)\n    self._gaps.append(g)\n    return n\n",
     "def f(self, g):\n    self._gaps.append(g)\n    return len(self._gaps)\n"),
    ("the same attribute of a possibly aliased object",
     "def f(self, w_1, w_2):\n    a = w_1.end\n    w_2.end = 0\n    return a\n",
     "def f(self, w_1, w_2):\n    w_2.end = 0\n    return w_1.end\n"),
    ("the argument of a stateless call mutated",
     "def f(self, sample):\n    m = self.has_value(sample)\n    sample.value = None\n    return m\n",
     "def f(self, sample):\n    sample.value = None\n    return self.has_value(sample)\n"),
    ("an unknown call between a stateless call and its use",
     "def f(self, sample):\n    m = self.has_value(sample)\n    self._reset(sample)\n    return m\n",
     "def f(self, sample):\n    self._reset(sample)\n    return self.has_value(sample)\n"),
    ("an expression that may raise moved behind a side effect",
     "def f(self, a):\n    x = a.b\n    self._n = 1\n    return x\n",
     "def f(self, a):\n    self._n = 1\n    return a.b\n"),
    ("a name that is re-assigned",
     "def f(self, a, b):\n    s = a + 1\n    a = b\n    return s + a\n",
     "def f(self, a, b):\n    a = b\n    return a + 1 + a\n"),
    ("the guard of an `and` moved behind the guarded operand",
     "def f(self, w):\n    if w and w.end > 0:\n        return 1\n    return 0\n",
     "def f(self, w):\n    if w.end > 0 and w:\n        return 1\n    return 0\n"),
    ("a search loop without its break",
     "def f(self, t):\n    g = None\n    for c in self._gaps:\n        if c.contains(t):\n            g = c\n            break\n    return g\n",
     "def f(self, t):\n    g = None\n    for c in self._gaps:\n        if c.contains(t):\n            g = c\n    return g\n"),
    ("the start value of a sum",
     "def f(self):\n    a = 0\n    for g in self._gaps:\n        a += g.end\n    return a\n",
     "def f(self):\n    a = 1\n    for g in self._gaps:\n        a += g.end\n    return a\n"),
    ("continue vs return in a loop",
     "def f(self, xs):\n    for x in xs:\n        if x.bad:\n            continue\n        self._use(x)\n",
     "def f(self, xs):\n    for x in xs:\n        if x.bad:\n            return\n        self._use(x)\n"),
    ("a statement moved into a loop",
     "def f(self, xs):\n    for x in xs:\n        self._use(x)\n    self._done()\n",
     "def f(self, xs):\n    for x in xs:\n        self._use(x)\n        self._done()\n"),
    ("two impure steps swapped",
     "def f(self, a):\n    if a:\n        self._x()\n    self._y()\n    return 1\n",
     "def f(self, a):\n    self._y()\n    if a:\n        self._x()\n    return 1\n"),
    ("a statement moved into a branch that can return before it",
     "def f(self, a, b):\n    if a:\n        if b:\n            return 0\n        self._x()\n    self._y()\n",
     "def f(self, a, b):\n    if a:\n        if b:\n            return 0\n        self._x()\n        self._y()\n"),
    ("a helper with a side effect called twice",
     "def _h(self):\n    self._n += 1\n    return self._n\ndef f(self):\n    v = self._h()\n    return v + v\n",
     "def _h(self):\n    self._n += 1\n    return self._n\ndef f(self):\n    return self._h() + self._h()\n"),
    ("two ifs on a flag the first one changes are not one decision",
     "def f(self, t):\n    found = self._q(t)\n    if not found and t > 0:\n        found = self._a()\n    if len(self._g) > 0 and found:\n        self._b()\n",
     "def f(self, t):\n    found = self._q(t)\n    if found:\n        if len(self._g) > 0:\n            self._b()\n    elif t > 0:\n        found = self._a()\n"),
    ("a sum of datetimes / timedeltas is not reordered",
     "def f(self, a, b):\n    return self._t0 - a + b\n",
     "def f(self, a, b):\n    return self._t0 + b - a\n"),
    ("== does not imply <",
     "def f(self, a, b):\n    return a == b or a < b\n",
     "def f(self, a, b):\n    return a < b\n"),
    ("`+=` on a list changes the object, `= … + …` makes a new one",
     "def f(self, xs):\n    ys = self._g\n    ys += xs\n    return ys\n",
     "def f(self, xs):\n    ys = self._g\n    ys = ys + xs\n    return ys\n"),
    ("a boolean local decided by a test with a side effect",
     "def f(self, a):\n    if self._pop() == a:\n        up = a % 2 != 0\n    else:\n        up = a > 3\n    if up:\n        self._x()\n",
     "def f(self, a):\n    if (self._pop() == a and a % 2 != 0) or (self._pop() != a and a > 3):\n        self._x()\n"),
]
_SAME = [
    ("guard clauses vs nested ifs",
     "def f(self, a, b):\n    if not a:\n        return 0\n    if not b:\n        return 0\n    return self._x()\n",
     "def f(self, a, b):\n    if a:\n        if b:\n            return self._x()\n    return 0\n"),
    ("a boolean expression vs a chain of guards and a loop",
     "def f(self, a):\n    return a.x > 0 and a.y < 3 and all(g.ok() is True for g in a.gs)\n",
     "def f(self, a):\n    if a.x <= 0:\n        return False\n    if not a.y < 3:\n        return False\n"
     "    for g in a.gs:\n        if not g.ok() is True:\n            return False\n    return True\n"),
    ("tests on a flag parameter arranged differently",
     "def f(self, flag, t):\n    if flag and t > 0:\n        self._x()\n    elif not flag:\n        self._y()\n    self._z()\n",
     "def f(self, flag, t):\n    if not flag:\n        self._y()\n        self._z()\n        return\n"
     "    if t > 0:\n        self._x()\n    self._z()\n"),
    ("an extracted private helper",
     "def f(self, t):\n    if self._late(t, self._p):\n        raise ValueError('x')\n    return t\n"
     "def _late(self, t, p):\n    return t > self._n + p\n",
     "def f(self, t):\n    if t > self._n + self._p:\n        raise ValueError('late')\n    return t\n"),
    ("assign-then-return vs early return",
     "def f(self, w, v):\n    r = self._a(w)\n    if v is not None:\n        r = self._b(r, v)\n    return r\n",
     "def f(self, w, v):\n    r = self._a(w)\n    if v is None:\n        return r\n    return self._b(r, v)\n"),
    ("a search loop vs next(filter(…))",
     "def f(self, t):\n    i, g = next(filter(lambda e: e[1].contains(t), enumerate(self._gaps)), (0, None))\n    return i, g\n",
     "def f(self, t):\n    idx = 0\n    found = None\n    for k, c in enumerate(self._gaps):\n        if c.contains(t):\n"
     "            idx, found = k, c\n            break\n    return idx, found\n"),
    ("two ifs with exclusive tests on a flag vs one decision",
     "def f(self, t):\n    found = self._q(t)\n    if not found and t > self._n + self._p:\n        self._a()\n    if len(self._g) > 0 and found:\n        self._b()\n    self._c()\n",
     "def f(self, t):\n    found = self._q(t)\n    if found:\n        if len(self._g) > 0:\n            self._b()\n    elif t > self._n + self._p:\n        self._a()\n    self._c()\n"),
    ("a guard repeated in an elif chain vs a nested decision",
     "def f(self, a, b):\n    if a.e <= self._o:\n        self._x()\n    elif b is not None and a.s <= b.s and a.e >= b.e:\n        self._y()\n    elif b is not None and a.e >= b.s:\n        self._z()\n    else:\n        self._w()\n",
     "def f(self, a, b):\n    if a.e <= self._o:\n        self._x()\n    elif b is None:\n        self._w()\n    elif a.s <= b.s and b.e <= a.e:\n        self._y()\n    elif b.s <= a.e:\n        self._z()\n    else:\n        self._w()\n"),
    ("a rounding test split into nested ifs with a boolean local",
     "def f(self, r, n):\n    if r != 0 and (self._p / 2 == r and n % 2 != 0 or self._p / 2 < r):\n        n += 1\n    return n * self._p\n",
     "def f(self, r, n):\n    if r != 0:\n        half = self._p / 2\n        if r == half:\n            up = n % 2 != 0\n        else:\n            up = r > half\n        if up:\n            n += 1\n    return n * self._p\n"),
    ("a sum of ints in another order, accumulated",
     "def f(self):\n    s = self.idx(self._a)\n    e = self.idx(self._b)\n    if e < s:\n        return len(self._buf) - s + e + 1 - self._m\n    return e + 1 - s - self._m\n"
     "def idx(self, t) -> int:\n    return 0\n",
     "def f(self):\n    s = self.idx(self._a)\n    e = self.idx(self._b)\n    n = e + 1 - s\n    if e < s:\n        n += len(self._buf)\n    return n - self._m\n"
     "def idx(self, t) -> int:\n    return 0\n"),
]


def _selftest() -> int:
    import textwrap

    def form(src: str) -> ast.FunctionDef:
        mod = ast.parse("class C:\n" + textwrap.indent(src, "    "))
        cls = mod.body[0]
        assert isinstance(cls, ast.ClassDef)
        fn = [x for x in cls.body if isinstance(x, ast.FunctionDef) and x.name == "f"][0]
        return normalize(fn, _Scope(mod, cls))

    def same(a: str, b: str) -> bool:
        try:
            match(form(b), [show(form(a))], "selftest")
            return True
        except Bad:
            return False

    bad = 0
    for name, a, b in _DIFFERENT:
        if same(a, b):
            bad += 1
            print("IDENTIFIED (must differ):", name)
    for name, a, b in _SAME:
        if not same(a, b):
            bad += 1
            print("NOT IDENTIFIED (must be the same):", name, show(form(a)), show(form(b)), sep="\n")
    print(f"self-test: {len(_DIFFERENT) + len(_SAME)} pairs, {bad} problem(s)")
    return bad


if __name__ == "__main__":
    raise SystemExit(1 if _selftest() else 0)
