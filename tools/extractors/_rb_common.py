"""Shared helpers of the ring-buffer extractors (expression translator, statement skeletons)."""
from __future__ import annotations

import ast


class Bad(Exception):
    pass


# ----------------------------------------------------------------------------- expression translator
CMP = {ast.Lt: "<", ast.LtE: "≤", ast.Gt: ">", ast.GtE: "≥", ast.Eq: "=", ast.NotEq: "≠"}
BIN = {ast.Add: "+", ast.Sub: "-", ast.Mult: "*", ast.FloorDiv: "/", ast.Mod: "%"}


def tr(n: ast.expr, names: dict[str, str]) -> str:
    """Integer-valued Python expression -> Lean `Int` term.  `names`: python source text -> Lean variable."""
    src = ast.unparse(n)
    if src in names:
        return names[src]
    if isinstance(n, ast.Constant) and isinstance(n.value, int) and not isinstance(n.value, bool):
        return f"({n.value})"
    if isinstance(n, ast.BinOp) and type(n.op) in BIN:
        return f"({tr(n.left, names)} {BIN[type(n.op)]} {tr(n.right, names)})"
    if isinstance(n, ast.UnaryOp) and isinstance(n.op, ast.USub):
        return f"(-{tr(n.operand, names)})"
    if isinstance(n, ast.Call) and isinstance(n.func, ast.Name) and n.func.id in ("max", "min") and len(n.args) == 2:
        # equal arguments are indistinguishable integers: Python's first-wins rule does not matter here
        return f"({n.func.id} {tr(n.args[0], names)} {tr(n.args[1], names)})"
    raise Bad(f"cannot translate expression `{src}`")


def prop(n: ast.expr, names: dict[str, str]) -> str:
    """Boolean Python expression -> decidable Lean `Prop`."""
    src = ast.unparse(n)
    if src in names:
        return names[src]
    if isinstance(n, ast.Compare):
        parts, left = [], n.left
        for op, right in zip(n.ops, n.comparators):
            if type(op) not in CMP:
                raise Bad(f"comparison in `{src}`")
            parts.append(f"{tr(left, names)} {CMP[type(op)]} {tr(right, names)}")
            left = right
        return "(" + " ∧ ".join(parts) + ")"
    if isinstance(n, ast.BoolOp):
        j = " ∧ " if isinstance(n.op, ast.And) else " ∨ "
        return "(" + j.join(prop(v, names) for v in n.values) + ")"
    if isinstance(n, ast.UnaryOp) and isinstance(n.op, ast.Not):
        return f"(¬ {prop(n.operand, names)})"
    raise Bad(f"cannot translate condition `{src}`")


# ----------------------------------------------------------------------------- skeletons
class Holes(ast.NodeTransformer):
    """Replace the given expression nodes by `HOLE_<label>` names."""

    def __init__(self, holes: dict[int, str]):
        self.holes = holes

    def visit(self, node):  # type: ignore[override]
        if id(node) in self.holes:
            return ast.copy_location(ast.Name(id=f"HOLE_{self.holes[id(node)]}", ctx=ast.Load()), node)
        return super().visit(node)


def strip_doc(fn: ast.FunctionDef) -> list[ast.stmt]:
    body = fn.body
    if body and isinstance(body[0], ast.Expr) and isinstance(body[0].value, ast.Constant) and isinstance(body[0].value.value, str):
        body = body[1:]
    return body


def skeleton(fn: ast.FunctionDef, holes: dict[int, str]) -> str:
    import copy

    # NodeTransformer mutates: work on a deep copy, mapping ids through a parallel walk
    orig_nodes = list(ast.walk(fn))
    cp = copy.deepcopy(fn)
    cp_nodes = list(ast.walk(cp))
    assert len(orig_nodes) == len(cp_nodes)
    m = {id(c): holes[id(o)] for o, c in zip(orig_nodes, cp_nodes) if id(o) in holes}
    cp = Holes(m).visit(cp)
    cp.body = strip_doc(cp)
    cp.decorator_list = []
    cp.returns = None
    for a in cp.args.args + cp.args.kwonlyargs:
        a.annotation = None
    # debug-logging and assertions on types are not part of the modelled behaviour
    class Drop(ast.NodeTransformer):
        def visit_Expr(self, node):  # noqa: N802
            if isinstance(node.value, ast.Call) and ast.unparse(node.value.func).startswith("_logger."):
                return None
            return node

        def visit_Assert(self, node):  # noqa: N802
            return None

    cp = Drop().visit(cp)
    ast.fix_missing_locations(cp)
    return "\n".join(line.rstrip() for line in ast.unparse(cp).splitlines())


def _bindings(fn: ast.FunctionDef) -> list[str]:
    """Local names of `fn` in order of first binding: parameters (without `self`), then assignment / loop /
    comprehension / lambda targets in source order."""
    seen: list[str] = []

    def add(name: str) -> None:
        if name != "self" and name not in seen:
            seen.append(name)

    class V(ast.NodeVisitor):
        def visit_arg(self, node):  # noqa: N802
            add(node.arg)

        def visit_Name(self, node):  # noqa: N802
            if isinstance(node.ctx, ast.Store):
                add(node.id)

    V().visit(fn)
    return seen


def _rename(fn: ast.FunctionDef, mapping: dict[str, str]) -> ast.FunctionDef:
    import copy

    cp = copy.deepcopy(fn)
    for node in ast.walk(cp):
        if isinstance(node, ast.Name) and node.id in mapping:
            node.id = mapping[node.id]
        elif isinstance(node, ast.arg) and node.arg in mapping:
            node.arg = mapping[node.arg]
    return cp


def find_method(tree: ast.Module, cls: str, name: str, like: list[str] | None = None) -> ast.FunctionDef:
    """The implementation of `cls.name`.  With `like` (recorded skeletons): locals are renamed, by position of their
    first binding, to the names used in the first skeleton with the same number of locals — a renamed local
    variable then changes nothing for the extractor."""
    fn = None
    for c in tree.body:
        if isinstance(c, ast.ClassDef) and c.name == cls:
            found = [f for f in c.body if isinstance(f, ast.FunctionDef) and f.name == name]
            # `@overload` stubs come first: the implementation is the last definition
            if found:
                fn = found[-1]
    if fn is None:
        raise Bad(f"{cls}.{name} not found")
    cur = _bindings(fn)
    for sk in like or []:
        ref = _bindings(ast.parse(sk.strip("\n")).body[0])  # type: ignore[arg-type]
        if len(ref) == len(cur):
            if ref != cur:
                # two-step renaming so that a swap of two names cannot collide
                tmp = {c_: f"__rb{i}" for i, c_ in enumerate(cur)}
                fn = _rename(_rename(fn, tmp), {f"__rb{i}": r for i, r in enumerate(ref)})
            break
    return fn


def expect(fn: ast.FunctionDef, holes: dict[int, str], accepted: list[str], what: str) -> int:
    sk = skeleton(fn, holes)
    for i, a in enumerate(accepted):
        if sk == a.strip("\n"):
            return i
    raise Bad(f"{what}: unexpected statement skeleton:\n{sk}")


# names shared by most methods
COMMON = {
    "self._sampling_period": "period",
    "self._full_time_range": "fullRange",
    "self._timestamp_oldest": "oldest",
    "self._timestamp_newest": "selfNewest",
    "timestamp": "timestamp",
    "timedelta(0)": "(0)",
}



def _if_tests(stmts: list[ast.stmt]) -> list[ast.If]:
    return [s for s in stmts if isinstance(s, ast.If)]
