"""Shared helpers of the ring-buffer extractors (expression translator, statement skeletons)."""
from __future__ import annotations

import ast


class Bad(Exception):
    pass


# ----------------------------------------------------------------------------- expression translator
CMP = {ast.Lt: "<", ast.LtE: "≤", ast.Gt: ">", ast.GtE: "≥", ast.Eq: "=", ast.NotEq: "≠"}
BIN = {ast.Add: "+", ast.Sub: "-", ast.Mult: "*", ast.FloorDiv: "/", ast.Mod: "%"}


def tr(n: ast.expr, names: dict[str, str]) -> str:
    """Integer-valued Python expression -> Lean `Int` term.  `names`: python source text -> Lean variable."""
    src = ast.unparse(n)
    if src in names:
        return names[src]
    if isinstance(n, ast.Constant) and isinstance(n.value, int) and not isinstance(n.value, bool):
        return f"({n.value})"
    if isinstance(n, ast.BinOp) and type(n.op) in BIN:
        return f"({tr(n.left, names)} {BIN[type(n.op)]} {tr(n.right, names)})"
    if isinstance(n, ast.UnaryOp) and isinstance(n.op, ast.USub):
        return f"(-{tr(n.operand, names)})"
    if isinstance(n, ast.Call) and isinstance(n.func, ast.Name) and n.func.id in ("max", "min") and len(n.args) == 2:
        # equal arguments are indistinguishable integers: Python's first-wins rule does not matter here
        return f"({n.func.id} {tr(n.args[0], names)} {tr(n.args[1], names)})"
    raise Bad(f"cannot translate expression `{src}`")


def prop(n: ast.expr, names: dict[str, str]) -> str:
    """Boolean Python expression -> decidable Lean `Prop`."""
    src = ast.unparse(n)
    if src in names:
        return names[src]
    if isinstance(n, ast.Compare):
        parts, left = [], n.left
        for op, right in zip(n.ops, n.comparators):
            if type(op) not in CMP:
                raise Bad(f"comparison in `{src}`")
            parts.append(f"{tr(left, names)} {CMP[type(op)]} {tr(right, names)}")
            left = right
        return "(" + " ∧ ".join(parts) + ")"
    if isinstance(n, ast.BoolOp):
        # the operands are pure comparisons: `and` / `or` commute, so their order in the source is irrelevant
        j = " ∧ " if isinstance(n.op, ast.And) else " ∨ "
        return "(" + j.join(sorted(prop(v, names) for v in n.values)) + ")"
    if isinstance(n, ast.UnaryOp) and isinstance(n.op, ast.Not):
        return f"(¬ {prop(n.operand, names)})"
    raise Bad(f"cannot translate condition `{src}`")


# ----------------------------------------------------------------------------- skeletons
class Holes(ast.NodeTransformer):
    """Replace the given expression nodes by `HOLE_<label>` names."""

    def __init__(self, holes: dict[int, str]):
        self.holes = holes

    def visit(self, node):  # type: ignore[override]
        if id(node) in self.holes:
            return ast.copy_location(ast.Name(id=f"HOLE_{self.holes[id(node)]}", ctx=ast.Load()), node)
        return super().visit(node)


def strip_doc(fn: ast.FunctionDef) -> list[ast.stmt]:
    body = fn.body
    if body and isinstance(body[0], ast.Expr) and isinstance(body[0].value, ast.Constant) and isinstance(body[0].value.value, str):
        body = body[1:]
    return body


def skeleton(fn: ast.FunctionDef, holes: dict[int, str]) -> str:
    import copy

    # NodeTransformer mutates: work on a deep copy, mapping ids through a parallel walk
    orig_nodes = list(ast.walk(fn))
    cp = copy.deepcopy(fn)
    cp_nodes = list(ast.walk(cp))
    assert len(orig_nodes) == len(cp_nodes)
    m = {id(c): holes[id(o)] for o, c in zip(orig_nodes, cp_nodes) if id(o) in holes}
    cp = Holes(m).visit(cp)
    cp.body = strip_doc(cp)
    cp.decorator_list = []
    cp.returns = None
    for a in cp.args.args + cp.args.kwonlyargs:
        a.annotation = None
    ast.fix_missing_locations(cp)
    return "\n".join(line.rstrip() for line in ast.unparse(cp).splitlines())


def _bindings(fn: ast.FunctionDef) -> list[str]:
    """Local names of `fn` in order of first binding: parameters (without `self`), then assignment / loop /
    comprehension / lambda targets in source order."""
    seen: list[str] = []

    def add(name: str) -> None:
        if name != "self" and name not in seen:
            seen.append(name)

    class V(ast.NodeVisitor):
        def visit_Lambda(self, node):  # noqa: N802
            self.visit(node.body)

        def visit_arg(self, node):  # noqa: N802
            add(node.arg)

        def visit_Name(self, node):  # noqa: N802
            if isinstance(node.ctx, ast.Store):
                add(node.id)

    V().visit(fn)
    return seen


def _rename(fn: ast.FunctionDef, mapping: dict[str, str]) -> ast.FunctionDef:
    import copy

    cp = copy.deepcopy(fn)
    for node in ast.walk(cp):
        if isinstance(node, ast.Name) and node.id in mapping:
            node.id = mapping[node.id]
        elif isinstance(node, ast.arg) and node.arg in mapping:
            node.arg = mapping[node.arg]
    return cp


# ----------------------------------------------------------------------------- behaviour-preserving normal form
# The recorded skeletons are in this normal form, and every method is brought into it before it is compared and
# before the holes are located.  Each step preserves the behaviour of the method:
#   * docstring, `assert`, `_logger.*` calls and annotations are dropped (not modelled);
#   * lambda parameters are renamed `_lam0, _lam1, …`;
#   * `not (A or B)` / `not (A and B)` are pushed inward (De Morgan), `not not A` is `A`;
#   * `x = A if C else B` is written as `if C: x = A else: x = B`;
#   * `if A: (if B: X)` without any `else` is `if A and B: X`;   `v = E; return v` at the end of a block is `return E`;
#   * two consecutive `if`s on the same local variable `A` (`if not A: X` / `if A: Y else: Z`, `if A: X` / `if A: …`,
#     `if A: X` / `if not A: Y`) are merged into one `if A: … else: …` when `X` does not assign `A`;
#   * after `v = c[i]` (an element of a container), `c[i]` is written `v` in the following tests and in each branch up to
#     the first statement that could change the container or `v`;
#   * polarity: `if <negative test>: A else: B` becomes `if <positive test>: B else: A`, and
#     `if <negative test>: A; R` with `A`, `R` both ending the function/iteration and `R` the single last statement becomes
#     `if <positive test>: R; A`   (negative = `not X`, `!=`, `>=`, `>`, `is not`, `not in`);
#   * runs of plain assignments are put into the lexicographically least order reachable by swapping ADJACENT
#     INDEPENDENT statements (no write/read or write/write overlap; different attributes of possibly aliased objects
#     are independent, the same attribute of two objects is not; anything that calls a non-pure function is a barrier).
NEGATED = {ast.NotEq: ast.Eq, ast.GtE: ast.Lt, ast.Gt: ast.LtE, ast.IsNot: ast.Is, ast.NotIn: ast.In}
PURE_CALLS = {
    "max", "min", "len", "isinstance", "deepcopy", "round", "int", "sum", "any", "map", "filter", "enumerate", "next",
    "slice", "timedelta", "Gap", "np.array", "divmod",
    "self.normalize_timestamp", "self.to_internal_index", "self.get_timestamp", "self.wrap", "self.is_missing",
    "self.has_value", "self.count_covered", "self.count_valid", "self._wrapped_buffer_window",
    "self._to_covered_indices", "self._covered_time_range",
    "self._buffer.count_covered", "self._buffer.count_valid", "self._buffer.get_timestamp",
    "self._buffer.normalize_timestamp", "self._buffer.is_missing", "self._buffer.to_internal_index",
}


def _positive(test: ast.expr) -> ast.expr | None:
    """The negation of a negative test, as a positive test; None when `test` is not negative."""
    if isinstance(test, ast.UnaryOp) and isinstance(test.op, ast.Not):
        return test.operand
    if isinstance(test, ast.Compare) and len(test.ops) == 1 and type(test.ops[0]) in NEGATED:
        return ast.Compare(left=test.left, ops=[NEGATED[type(test.ops[0])]()], comparators=test.comparators)
    return None


def _ends(stmts: list[ast.stmt]) -> bool:
    return bool(stmts) and isinstance(stmts[-1], (ast.Return, ast.Raise, ast.Continue, ast.Break))


def _paths(e: ast.AST) -> tuple[set[str], bool]:
    """Access paths (dotted names) read by an expression, and whether it is free of non-pure calls."""
    reads: set[str] = set()
    pure = True

    def walk(n: ast.AST) -> None:
        nonlocal pure
        if isinstance(n, (ast.Attribute, ast.Name)):
            chain = n
            while isinstance(chain, ast.Attribute):
                chain = chain.value
            if isinstance(chain, ast.Name):
                reads.add(ast.unparse(n))
                return
        if isinstance(n, ast.Call):
            f = ast.unparse(n.func)
            if f not in PURE_CALLS and not f.startswith("_lam"):
                pure = False
            if f.startswith("self."):
                reads.add("self")          # a method may read any attribute of `self`
            for a in list(n.args) + [k.value for k in n.keywords]:
                walk(a)
            if isinstance(n.func, ast.Attribute) and not f.startswith("self."):
                walk(n.func.value)
            return
        if isinstance(n, (ast.Await, ast.Yield, ast.YieldFrom, ast.NamedExpr)):
            pure = False
        for c in ast.iter_child_nodes(n):
            walk(c)

    walk(e)
    return reads, pure


def _effects(s: ast.stmt) -> tuple[set[str], set[str]] | None:
    """(reads, writes) of a plain assignment; None = barrier."""
    if not isinstance(s, ast.Assign):
        return None
    writes: set[str] = set()
    reads, pure = _paths(s.value)
    if not pure:
        return None
    for t in s.targets:
        elts = t.elts if isinstance(t, ast.Tuple) else [t]
        for e in elts:
            if isinstance(e, ast.Name):
                writes.add(e.id)
            elif isinstance(e, ast.Attribute) and isinstance(e.value, ast.Name):
                writes.add(ast.unparse(e))
                reads.add(e.value.id)
            else:
                return None
    return reads, writes


def _overlap(p: str, q: str) -> bool:
    a, b = p.split("."), q.split(".")
    n = min(len(a), len(b))
    if a[:n] == b[:n]:
        return True                                   # same path, or one is part of the other
    return len(a) > 1 and len(b) > 1 and a[0] != b[0] and a[-1] == b[-1]   # same attribute of maybe the same object


def _independent(x: tuple[set[str], set[str]] | None, y: tuple[set[str], set[str]] | None) -> bool:
    if x is None or y is None:
        return False
    (rx, wx), (ry, wy) = x, y
    return not any(_overlap(p, q) for p in wx for q in ry | wy) and not any(_overlap(p, q) for p in wy for q in rx)


def _normal_order(stmts: list[ast.stmt], key) -> list[ast.stmt]:
    eff = [_effects(s) for s in stmts]
    left = list(range(len(stmts)))
    out: list[ast.stmt] = []
    while left:
        movable = [i for n, i in enumerate(left) if all(_independent(eff[j], eff[i]) for j in left[:n])]
        best = min(movable, key=lambda i: (key(stmts[i]), i))
        out.append(stmts[best])
        left.remove(best)
    return out



def _stores(stmts: list[ast.stmt]) -> set[str]:
    return {n.id for s in stmts for n in ast.walk(s) if isinstance(n, ast.Name) and isinstance(n.ctx, (ast.Store, ast.Del))}


def _merge_ifs(stmts: list[ast.stmt]) -> list[ast.stmt]:
    """Merge consecutive `if`s that test the same plain local variable (see the list of normal-form steps)."""
    out: list[ast.stmt] = []
    for s in stmts:
        prev = out[-1] if out else None
        if isinstance(prev, ast.If) and isinstance(s, ast.If) and not prev.orelse:
            def var(t: ast.expr) -> tuple[str, bool] | None:
                if isinstance(t, ast.Name):
                    return t.id, True
                if isinstance(t, ast.UnaryOp) and isinstance(t.op, ast.Not) and isinstance(t.operand, ast.Name):
                    return t.operand.id, False
                return None
            a, b = var(prev.test), var(s.test)
            if a and b and a[0] == b[0] and a[0] not in _stores(prev.body):
                name = ast.Name(id=a[0], ctx=ast.Load())
                x, y, z = prev.body, s.body, s.orelse
                if a[1] == b[1]:            # if T: X ; if T: Y else: Z   ->  if T: X; Y  else: Z
                    then, els = x + y, z
                    pos = a[1]
                else:                        # if T: X ; if ¬T: Y else: Z  ->  if T: X; Z  else: Y
                    then, els = x + z, y
                    pos = a[1]
                if pos:
                    merged = ast.If(test=name, body=then, orelse=els)
                elif els:
                    merged = ast.If(test=name, body=els, orelse=then)
                else:
                    merged = ast.If(test=ast.UnaryOp(op=ast.Not(), operand=name), body=then, orelse=[])
                out[-1] = merged
                continue
        out.append(s)
    return out


def _alias_elements(stmts: list[ast.stmt]) -> None:
    """After `v = c[i]`, write `v` for `c[i]` where that is certainly the same object (in place)."""

    def simple(e: ast.AST) -> bool:
        return all(isinstance(n, (ast.Name, ast.Attribute, ast.Subscript, ast.Constant, ast.BinOp, ast.Add, ast.Sub,
                                  ast.Load, ast.Store)) for n in ast.walk(e))

    class Sub(ast.NodeTransformer):
        def __init__(self, text: str, v: str):
            self.text, self.v = text, v

        def visit_Subscript(self, node):  # noqa: N802
            if isinstance(node.ctx, ast.Load) and ast.unparse(node) == self.text:
                return ast.copy_location(ast.Name(id=self.v, ctx=ast.Load()), node)
            return self.generic_visit(node)

    def safe(s: ast.stmt, names: set[str]) -> bool:
        """May `s` be passed without invalidating the alias?  (plain pure assignment not touching its names)"""
        eff = _effects(s)
        return eff is not None and not any(w.split(".")[0] in names for w in eff[1])

    def rewrite(block_: list[ast.stmt], sub: Sub, names: set[str]) -> None:
        for s in block_:
            if isinstance(s, ast.If):
                s.test = sub.visit(s.test)
                rewrite(s.body, sub, names)
                rewrite(s.orelse, sub, names)
                if all(isinstance(x, ast.Assign) and safe(x, names) for x in s.body + s.orelse):
                    continue
                return                      # a branch may have changed the container
            if isinstance(s, ast.Assign):
                s.value = sub.visit(s.value)
                s.targets = [sub.visit(t) if isinstance(t, ast.Attribute) else t for t in s.targets]
                if not safe(s, names):
                    return
                continue
            return

    for i, s in enumerate(stmts):
        if (isinstance(s, ast.Assign) and len(s.targets) == 1 and isinstance(s.targets[0], ast.Name)
                and isinstance(s.value, ast.Subscript) and simple(s.value)):
            names = {n.id for n in ast.walk(s.value) if isinstance(n, ast.Name)} | {s.targets[0].id}
            names.discard("self")
            rewrite(stmts[i + 1:], Sub(ast.unparse(s.value), s.targets[0].id), names)


def normalize(fn: ast.FunctionDef) -> ast.FunctionDef:
    import copy

    fn = copy.deepcopy(fn)
    fn.body = strip_doc(fn)
    fn.decorator_list = []
    fn.returns = None
    for a in fn.args.args + fn.args.kwonlyargs:
        a.annotation = None

    class Drop(ast.NodeTransformer):
        def visit_Expr(self, node):  # noqa: N802
            if isinstance(node.value, ast.Call) and ast.unparse(node.value.func).startswith("_logger."):
                return None
            return node

        def visit_Assert(self, node):  # noqa: N802
            return None

        def visit_AnnAssign(self, node):  # noqa: N802
            if node.value is None:
                return None
            return ast.copy_location(ast.Assign(targets=[node.target], value=node.value), node)

        def visit_UnaryOp(self, node):  # noqa: N802
            self.generic_visit(node)
            if isinstance(node.op, ast.Not):
                inner = node.operand
                if isinstance(inner, ast.UnaryOp) and isinstance(inner.op, ast.Not):
                    return inner.operand
                if isinstance(inner, ast.BoolOp):
                    dual = ast.Or() if isinstance(inner.op, ast.And) else ast.And()
                    return self.visit(ast.BoolOp(op=dual, values=[ast.UnaryOp(op=ast.Not(), operand=v) for v in inner.values]))
            return node

        def visit_Assign(self, node):  # noqa: N802
            self.generic_visit(node)
            if isinstance(node.value, ast.IfExp):
                e = node.value
                return ast.If(test=e.test, body=[ast.Assign(targets=node.targets, value=e.body)],
                              orelse=[ast.Assign(targets=node.targets, value=e.orelse)])
            return node

        def visit_Lambda(self, node):  # noqa: N802
            self.generic_visit(node)
            ren = {a.arg: f"_lam{i}" for i, a in enumerate(node.args.args)}
            for n in ast.walk(node):
                if isinstance(n, ast.Name) and n.id in ren:
                    n.id = ren[n.id]
                elif isinstance(n, ast.arg) and n.arg in ren:
                    n.arg = ren[n.arg]
            return node

    fn = ast.fix_missing_locations(Drop().visit(fn))
    params = [a.arg for a in fn.args.args + fn.args.kwonlyargs if a.arg != "self"]
    local = set(_bindings(fn)) - set(params)

    def key(s: ast.stmt) -> str:
        cp = copy.deepcopy(s)
        for n in ast.walk(cp):
            if isinstance(n, ast.Name):
                if n.id in params:
                    n.id = f"_p{params.index(n.id)}"
                elif n.id in local:
                    n.id = "_"
        return ast.unparse(cp)

    def block(stmts: list[ast.stmt]) -> list[ast.stmt]:
        stmts = _merge_ifs(stmts)
        _alias_elements(stmts)
        out: list[ast.stmt] = []
        i = 0
        while i < len(stmts):
            s = stmts[i]
            for field in ("body", "orelse", "finalbody"):
                if isinstance(getattr(s, field, None), list) and not isinstance(s, ast.FunctionDef):
                    setattr(s, field, block(getattr(s, field)))
            if isinstance(s, ast.If):
                # `if A: (if B: X)` with no `else` anywhere  ==  `if A and B: X`
                while (not s.orelse and len(s.body) == 1 and isinstance(s.body[0], ast.If) and not s.body[0].orelse):
                    inner = s.body[0]
                    parts = []
                    for t in (s.test, inner.test):
                        parts += t.values if isinstance(t, ast.BoolOp) and isinstance(t.op, ast.And) else [t]
                    s.test, s.body = ast.BoolOp(op=ast.And(), values=parts), inner.body
                pos = _positive(s.test)
                if pos is not None and s.orelse:
                    s.test, s.body, s.orelse = pos, s.orelse, s.body
                elif (pos is not None and _ends(s.body) and i + 2 == len(stmts) and _ends([stmts[i + 1]])
                      and not isinstance(stmts[i + 1], (ast.If, ast.For, ast.While, ast.With, ast.Try))):
                    out.append(ast.If(test=pos, body=[stmts[i + 1]], orelse=[]))
                    out.extend(s.body)
                    break
            out.append(s)
            i += 1
        # `v = E; return v`  ==  `return E`
        if (len(out) >= 2 and isinstance(out[-1], ast.Return) and isinstance(out[-1].value, ast.Name)
                and isinstance(out[-2], ast.Assign) and len(out[-2].targets) == 1
                and isinstance(out[-2].targets[0], ast.Name) and out[-2].targets[0].id == out[-1].value.id):
            out[-2:] = [ast.Return(value=out[-2].value)]
        return _normal_order(out, key)

    fn.body = block(fn.body)
    ast.fix_missing_locations(fn)
    return fn


def find_method(tree: ast.Module, cls: str, name: str, like: list[str] | None = None) -> ast.FunctionDef:
    """The implementation of `cls.name` in normal form (see above).  With `like` (recorded skeletons): locals are then
    renamed, by position of their first binding, to the names used in the first skeleton with the same number of
    locals — a renamed local variable or parameter changes nothing for the extractor."""
    fn = None
    for c in tree.body:
        if isinstance(c, ast.ClassDef) and c.name == cls:
            found = [f for f in c.body if isinstance(f, ast.FunctionDef) and f.name == name]
            # `@overload` stubs come first: the implementation is the last definition
            if found:
                fn = found[-1]
    if fn is None:
        raise Bad(f"{cls}.{name} not found")
    fn = normalize(fn)
    cur = _bindings(fn)
    for sk in like or []:
        ref = _bindings(ast.parse(sk.strip("\n")).body[0])  # type: ignore[arg-type]
        if len(ref) == len(cur):
            if ref != cur:
                # two-step renaming so that a swap of two names cannot collide
                tmp = {c_: f"__rb{i}" for i, c_ in enumerate(cur)}
                fn = _rename(_rename(fn, tmp), {f"__rb{i}": r for i, r in enumerate(ref)})
                fn = normalize(fn)   # (the order of independent statements does not depend on local names)
            break
    return fn


def expect(fn: ast.FunctionDef, holes: dict[int, str], accepted: list[str], what: str) -> int:
    sk = skeleton(fn, holes)
    for i, a in enumerate(accepted):
        if sk == a.strip("\n"):
            return i
    raise Bad(f"{what}: unexpected statement skeleton:\n{sk}")


# names shared by most methods
COMMON = {
    "self._sampling_period": "period",
    "self._full_time_range": "fullRange",
    "self._timestamp_oldest": "oldest",
    "self._timestamp_newest": "selfNewest",
    "timestamp": "timestamp",
    "timedelta(0)": "(0)",
}



def _if_tests(stmts: list[ast.stmt]) -> list[ast.If]:
    return [s for s in stmts if isinstance(s, ast.If)]
