"""`_data_sourcing/microgrid_api_source.py` -> Lean tables.

Extracted (pure `ast`), located by ROLE, not by name or statement position:
  * metric tables: every module-level dict literal whose keys are `ComponentMetricId.<NAME>` and whose values are
    one-argument extraction functions `lambda msg: msg.attr` / `msg.attr[i]` (a `**other_table` entry is merged in
    place), as `List (String × FieldRef)` in dict order;
  * the *extraction dispatch* (`_get_data_extraction_method` on the pinned tree): the function that selects a metric
    table by component category and never opens an API stream  =>  category -> table;
  * the *check dispatch* (`_check_requested_component_and_metrics` + its `_check_*_request` helpers): the function
    whose category branches (directly or through helpers of the same module) open an API stream `*_data(...)`
    =>  category -> (table the metrics are validated against, API stream method).
A category dispatch may be written as an `if`/`elif` chain (`==`, `is`, `in (…)`, `or`, either operand order,
`!=` with the branches swapped), as `match … case ComponentCategory.X [| …]:`, or as a dict literal
`{ComponentCategory.X: <table>, …}` (local or module level).  Anything that cannot be read this way makes the
extractor raise.
"""
from __future__ import annotations

import ast
import pathlib

NAME = "DataSourcing"
SOURCES = ["src/frequenz/sdk/microgrid/_data_sourcing/microgrid_api_source.py"]

FuncDef = (ast.FunctionDef, ast.AsyncFunctionDef)


class Unsupported(Exception):
    pass


def _lean_str(s: str) -> str:
    if not all(c.isalnum() or c in "_ -" for c in s):
        raise Unsupported(f"unexpected characters in identifier {s!r}")
    return '"' + s + '"'


def _enum_member(node: ast.expr, enum: str) -> str | None:
    if isinstance(node, ast.Attribute) and isinstance(node.value, ast.Name) and node.value.id == enum:
        return node.attr
    return None


# ---- metric tables ---------------------------------------------------------------------------------------------
def _field_ref(node: ast.expr, helpers: dict[str, ast.FunctionDef]) -> tuple[str, int | None]:
    """`lambda m: m.attr` / `lambda m: m.attr[i]`, or the name of a one-argument module function doing the same."""
    if isinstance(node, ast.Name) and node.id in helpers:
        fn = helpers[node.id]
        body = [s for s in fn.body if not (isinstance(s, ast.Expr) and isinstance(s.value, ast.Constant))]
        if len(fn.args.args) == 1 and len(body) == 1 and isinstance(body[0], ast.Return) and body[0].value is not None:
            return _attr_index(body[0].value, fn.args.args[0].arg)
        raise Unsupported(f"extraction helper {node.id} is not a single return of <arg>.<attr>[<int>]")
    if not isinstance(node, ast.Lambda) or len(node.args.args) != 1 or node.args.defaults or node.args.kwonlyargs:
        raise Unsupported("table value is not a one-argument lambda")
    return _attr_index(node.body, node.args.args[0].arg)


def _attr_index(body: ast.expr, arg: str) -> tuple[str, int | None]:
    def attr_of(n: ast.expr) -> str:
        if isinstance(n, ast.Attribute) and isinstance(n.value, ast.Name) and n.value.id == arg:
            return n.attr
        raise Unsupported(f"extraction body is not <arg>.<attr>[<int>]: {ast.dump(n)[:80]}")

    if isinstance(body, ast.Subscript):
        idx = body.slice
        if not (isinstance(idx, ast.Constant) and isinstance(idx.value, int) and not isinstance(idx.value, bool)
                and idx.value >= 0):
            raise Unsupported("subscript is not a non-negative integer literal")
        return attr_of(body.value), idx.value
    return attr_of(body), None


def _module_assignments(mod: ast.Module) -> list[tuple[str, ast.expr]]:
    out = []
    for st in mod.body:
        if isinstance(st, ast.AnnAssign) and isinstance(st.target, ast.Name) and st.value is not None:
            out.append((st.target.id, st.value))
        elif isinstance(st, ast.Assign) and len(st.targets) == 1 and isinstance(st.targets[0], ast.Name):
            out.append((st.targets[0].id, st.value))
    return out


def _tables(mod: ast.Module) -> dict[str, list[tuple[str, tuple[str, int | None]]]]:
    helpers = {st.name: st for st in mod.body if isinstance(st, ast.FunctionDef)}
    out: dict[str, list] = {}
    for target, value in _module_assignments(mod):
        if not isinstance(value, ast.Dict) or not value.keys:
            continue
        plain = [k for k in value.keys if k is not None]
        if not plain or not all(_enum_member(k, "ComponentMetricId") for k in plain):
            continue  # not a metric table
        rows: list[tuple[str, tuple[str, int | None]]] = []
        for k, v in zip(value.keys, value.values):
            if k is None:  # `**other_table`
                if isinstance(v, ast.Name) and v.id in out:
                    new = out[v.id]
                else:
                    raise Unsupported(f"{target}: `**` of something that is not an earlier metric table")
            else:
                new = [(_enum_member(k, "ComponentMetricId"), _field_ref(v, helpers))]
            for name, ref in new:  # a later duplicate key replaces the value and keeps the position
                pos = next((i for i, (n, _) in enumerate(rows) if n == name), None)
                if pos is None:
                    rows.append((name, ref))
                else:
                    rows[pos] = (name, ref)
        out[target] = rows
    if not out:
        raise Unsupported("no metric tables (dict literals keyed by ComponentMetricId.<NAME>) found")
    return out


# ---- category dispatch -----------------------------------------------------------------------------------------
def _cats_of_test(test: ast.expr) -> tuple[list[str], bool, str | None]:
    """(categories, negated, dump of the tested subject) of an `if` condition; ([], …) when it is not about categories."""
    if isinstance(test, ast.UnaryOp) and isinstance(test.op, ast.Not):
        cats, neg, subj = _cats_of_test(test.operand)
        return cats, not neg, subj
    if isinstance(test, ast.BoolOp) and isinstance(test.op, ast.Or):
        cats: list[str] = []
        subj = None
        for v in test.values:
            c, neg, s = _cats_of_test(v)
            if not c or neg or (subj is not None and s != subj):
                return [], False, None
            cats += c
            subj = s
        return cats, False, subj
    if isinstance(test, ast.Compare) and len(test.ops) == 1:
        op, left, right = test.ops[0], test.left, test.comparators[0]
        if isinstance(op, (ast.Eq, ast.Is, ast.NotEq, ast.IsNot)):
            neg = isinstance(op, (ast.NotEq, ast.IsNot))
            for a, b in ((left, right), (right, left)):
                c = _enum_member(b, "ComponentCategory")
                if c is not None and _enum_member(a, "ComponentCategory") is None:
                    return [c], neg, ast.dump(a)
        if isinstance(op, (ast.In, ast.NotIn)) and isinstance(right, (ast.Tuple, ast.List, ast.Set)):
            cs = [_enum_member(e, "ComponentCategory") for e in right.elts]
            if cs and all(cs):
                return list(cs), isinstance(op, ast.NotIn), ast.dump(left)  # type: ignore[arg-type]
    return [], False, None


def _cats_of_pattern(pat: ast.pattern) -> list[str] | None:
    """Categories of a `case` pattern; [] for the wildcard; None when unreadable."""
    if isinstance(pat, ast.MatchValue):
        c = _enum_member(pat.value, "ComponentCategory")
        return [c] if c else None
    if isinstance(pat, ast.MatchOr):
        out: list[str] = []
        for p in pat.patterns:
            c = _cats_of_pattern(p)
            if not c:
                return None
            out += c
        return out
    if isinstance(pat, ast.MatchAs) and pat.pattern is None:
        return []
    return None


def _branches(stmts: list[ast.stmt], subjects: set[str]) -> list[tuple[list[str], list[ast.stmt]]]:
    """Flatten the category dispatch found in `stmts` into [(categories, branch body)], in source order."""
    out: list[tuple[list[str], list[ast.stmt]]] = []
    for st in stmts:
        if isinstance(st, ast.If):
            cats, neg, subj = _cats_of_test(st.test)
            if cats:
                subjects.add(subj or "")
                if neg:   # `if cat != X: <rest> else: <branch>`
                    out.append((cats, st.orelse))
                    out += _branches(st.body, subjects)
                else:
                    out.append((cats, st.body))
                    out += _branches(st.orelse, subjects)
            else:         # a guard that is not about the category
                out += _branches(st.body, subjects) + _branches(st.orelse, subjects)
        elif isinstance(st, ast.Match):
            readable = [(_cats_of_pattern(c.pattern), c) for c in st.cases]
            if any(cs for cs, _ in readable):
                subjects.add(ast.dump(st.subject))
                for cs, case in readable:
                    if cs is None or case.guard is not None:
                        raise Unsupported("match on the category with a pattern/guard that cannot be read")
                    if cs:
                        out.append((cs, case.body))
            else:
                for _, case in readable:
                    out += _branches(case.body, subjects)
        elif isinstance(st, (ast.Try,)):
            out += _branches(st.body, subjects)
        elif isinstance(st, (ast.With, ast.AsyncWith, ast.For, ast.AsyncFor, ast.While)):
            out += _branches(st.body, subjects)
    return out


def _strip_doc(body: list[ast.stmt]) -> list[ast.stmt]:
    if body and isinstance(body[0], ast.Expr) and isinstance(body[0].value, ast.Constant) and isinstance(body[0].value.value, str):
        return body[1:]
    return body


def _functions(mod: ast.Module) -> dict[str, ast.AST]:
    """All functions/methods of the module by (unqualified) name, nested closures excluded."""
    out: dict[str, ast.AST] = {}
    for st in mod.body:
        if isinstance(st, FuncDef):
            out[st.name] = st
        elif isinstance(st, ast.ClassDef):
            for m in st.body:
                if isinstance(m, FuncDef):
                    out[m.name] = m
    return out


def _reach(nodes: list[ast.stmt], funcs: dict[str, ast.AST], tables: dict, seen: set[str]) -> tuple[list[str], list[str]]:
    """(metric tables referenced, `*_data` API calls) in `nodes`, following calls to functions of the same module."""
    tabs: list[str] = []
    apis: list[str] = []
    for st in nodes:
        for n in ast.walk(st):
            if isinstance(n, ast.Name) and n.id in tables and n.id not in tabs:
                tabs.append(n.id)
            if isinstance(n, ast.Call):
                f = n.func
                callee = None
                if isinstance(f, ast.Attribute):
                    if f.attr.endswith("_data") and f.attr not in funcs and f.attr not in apis:
                        apis.append(f.attr)
                    if isinstance(f.value, ast.Name) and f.value.id in ("self", "cls"):
                        callee = f.attr
                elif isinstance(f, ast.Name):
                    callee = f.id
                if callee in funcs and callee not in seen:
                    seen.add(callee)
                    t2, a2 = _reach(funcs[callee].body, funcs, tables, seen)  # type: ignore[attr-defined]
                    tabs += [t for t in t2 if t not in tabs]
                    apis += [a for a in a2 if a not in apis]
    return tabs, apis


def _category_dicts(scope: list[ast.stmt] | ast.Module, tables: dict) -> list[list[tuple[str, str]]]:
    """Dict literals `{ComponentCategory.X: <table name>, …}` inside `scope`."""
    nodes = scope.body if isinstance(scope, ast.Module) else scope
    out = []
    for st in nodes:
        if isinstance(scope, ast.Module) and isinstance(st, (ast.ClassDef, *FuncDef)):
            continue
        for n in ast.walk(st):
            if isinstance(n, ast.Dict) and n.keys and all(k is not None and _enum_member(k, "ComponentCategory") for k in n.keys):
                if all(isinstance(v, ast.Name) and v.id in tables for v in n.values):
                    out.append([(_enum_member(k, "ComponentCategory"), v.id) for k, v in zip(n.keys, n.values)])  # type: ignore[union-attr,arg-type]
    return out


def _dispatches(mod: ast.Module, tables: dict) -> tuple[list[tuple[str, str]], list[tuple[str, str, str]]]:
    funcs = _functions(mod)
    module_dicts: dict[str, list[tuple[str, str]]] = {}
    for target, value in _module_assignments(mod):
        if isinstance(value, ast.Dict):
            ds = _category_dicts([ast.Expr(value)], tables)
            if ds:
                module_dicts[target] = ds[0]
    extraction: list[tuple[str, list[tuple[str, str]]]] = []
    check: list[tuple[str, list[tuple[str, str, str]]]] = []
    for name, fn in funcs.items():
        body = _strip_doc(fn.body)  # type: ignore[attr-defined]
        subjects: set[str] = set()
        brs = _branches(body, subjects)
        if brs:
            if len(subjects) != 1:
                raise Unsupported(f"{name}: category tests on different expressions")
            rows_e: list[tuple[str, str]] = []
            rows_c: list[tuple[str, str, str]] = []
            kinds = set()
            for cats, bbody in brs:
                tabs, apis = _reach(bbody, funcs, tables, {name})
                if apis:
                    if len(tabs) != 1 or len(apis) != 1:
                        raise Unsupported(f"{name}: a category branch must use exactly one metric table and open "
                                          f"exactly one API stream, got {tabs} {apis}")
                    kinds.add("check")
                    rows_c += [(c, tabs[0], apis[0]) for c in cats]
                elif tabs:
                    if len(tabs) != 1:
                        raise Unsupported(f"{name}: a category branch refers to several metric tables {tabs}")
                    kinds.add("extract")
                    rows_e += [(c, tabs[0]) for c in cats]
                else:
                    kinds.add("other")   # e.g. a branch that only raises
            if kinds == {"check"} or kinds == {"check", "other"}:
                check.append((name, rows_c))
            elif kinds == {"extract"} or kinds == {"extract", "other"}:
                extraction.append((name, rows_e))
            elif "check" in kinds and "extract" in kinds:
                raise Unsupported(f"{name}: mixes stream-opening and table-selecting category branches")
            continue
        # dict-literal dispatch: `{ComponentCategory.X: table, …}[category][metric]`, local or module level
        ds = _category_dicts(body, tables)
        ds += [module_dicts[n.id] for st in body for n in ast.walk(st) if isinstance(n, ast.Name) and n.id in module_dicts]
        if ds:
            _, apis = _reach(body, funcs, tables, {name})
            if apis or len(ds) != 1:
                raise Unsupported(f"{name}: dict dispatch over categories that cannot be read")
            extraction.append((name, ds[0]))
    if len(extraction) != 1:
        raise Unsupported(f"expected exactly one function selecting a metric table by category, found "
                          f"{[n for n, _ in extraction]}")
    if len(check) != 1:
        raise Unsupported(f"expected exactly one function opening an API stream per category, found "
                          f"{[n for n, _ in check]}")
    fn = funcs[extraction[0][0]]
    params = {a.arg for a in fn.args.args}  # type: ignore[attr-defined]
    if not any(isinstance(n, ast.Subscript) and isinstance(n.slice, ast.Name) and n.slice.id in params
               for n in ast.walk(fn)):
        raise Unsupported(f"{extraction[0][0]}: the selected table is not subscripted by a parameter (the metric)")
    return extraction[0][1], check[0][1]


def _lean_name(table: str) -> str:
    core = table.strip("_")
    return "tbl_" + "".join(c if c.isalnum() else "_" for c in core)


def generate(repo: pathlib.Path) -> str:
    mod = ast.parse((repo / SOURCES[0]).read_text())
    tables = _tables(mod)
    ext, chk = _dispatches(mod, tables)
    out = [
        "/-! Metric tables and category dispatch of `MicrogridApiSource`. -/",
        "namespace Extracted.DataSourcing",
        "",
        "/-- `lambda msg: msg.<attr>` (`idx = none`) or `lambda msg: msg.<attr>[i]` (`idx = some i`). -/",
        "structure FieldRef where",
        "  attr : String",
        "  idx : Option Nat",
        "deriving DecidableEq, Repr",
        "",
    ]
    for name, rows in tables.items():
        out.append(f"/-- `{name}` in dict order: `ComponentMetricId` member name ↦ message field. -/")
        out.append(f"def {_lean_name(name)} : List (String × FieldRef) := [")
        body = []
        for metric, (attr, idx) in rows:
            i = "none" if idx is None else f"some {idx}"
            body.append(f"  ({_lean_str(metric)}, ⟨{_lean_str(attr)}, {i}⟩)")
        out.append(",\n".join(body))
        out.append("]")
        out.append("")
    out.append("/-- Extraction dispatch: `ComponentCategory` member name ↦ table, in source order. -/")
    out.append("def extractionDispatch : List (String × List (String × FieldRef)) := [")
    out.append(",\n".join(f"  ({_lean_str(c)}, {_lean_name(t)})" for c, t in ext))
    out.append("]")
    out.append("")
    out.append("/-- Check dispatch: category ↦ (table the metrics are validated against,")
    out.append("    API client method whose stream is opened). -/")
    out.append("def checkDispatch : List (String × List (String × FieldRef) × String) := [")
    out.append(",\n".join(f"  ({_lean_str(c)}, {_lean_name(t)}, {_lean_str(a)})" for c, t, a in chk))
    out.append("]")
    out.append("")
    out.append("end Extracted.DataSourcing")
    return "\n".join(out) + "\n"
