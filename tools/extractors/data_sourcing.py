"""`_data_sourcing/microgrid_api_source.py` -> Lean tables.

Extracted (pure `ast`):
  * the four `_<X>DataMethods` dicts: `ComponentMetricId.NAME -> lambda msg: msg.attr` / `msg.attr[i]`
    as `List (String × FieldRef)` in source (dict insertion) order;
  * the dispatch of `_get_data_extraction_method` (category -> table used to build the samples);
  * the dispatch of `_check_requested_component_and_metrics` / `_check_*_request`
    (category -> table the request is validated against, API stream method that is opened).
Anything that does not have exactly this shape makes the extractor raise.
"""
from __future__ import annotations

import ast
import pathlib

NAME = "DataSourcing"
SOURCES = ["src/frequenz/sdk/microgrid/_data_sourcing/microgrid_api_source.py"]


class Unsupported(Exception):
    pass


def _lean_str(s: str) -> str:
    if not all(c.isalnum() or c in "_ -" for c in s):
        raise Unsupported(f"unexpected characters in identifier {s!r}")
    return '"' + s + '"'


def _metric_name(node: ast.expr) -> str:
    if isinstance(node, ast.Attribute) and isinstance(node.value, ast.Name) and node.value.id == "ComponentMetricId":
        return node.attr
    raise Unsupported(f"table key is not ComponentMetricId.<NAME>: {ast.dump(node)[:80]}")


def _field_ref(node: ast.expr) -> tuple[str, int | None]:
    if not isinstance(node, ast.Lambda) or len(node.args.args) != 1 or node.args.defaults or node.args.kwonlyargs:
        raise Unsupported("table value is not a one-argument lambda")
    arg = node.args.args[0].arg
    body = node.body

    def attr_of(n: ast.expr) -> str:
        if isinstance(n, ast.Attribute) and isinstance(n.value, ast.Name) and n.value.id == arg:
            return n.attr
        raise Unsupported(f"lambda body is not <arg>.<attr>[<int>]: {ast.dump(n)[:80]}")

    if isinstance(body, ast.Subscript):
        idx = body.slice
        if not (isinstance(idx, ast.Constant) and isinstance(idx.value, int) and not isinstance(idx.value, bool)
                and idx.value >= 0):
            raise Unsupported("subscript is not a non-negative integer literal")
        return attr_of(body.value), idx.value
    return attr_of(body), None


def _tables(mod: ast.Module) -> dict[str, list[tuple[str, tuple[str, int | None]]]]:
    out: dict[str, list] = {}
    for st in mod.body:
        target = value = None
        if isinstance(st, ast.AnnAssign) and isinstance(st.target, ast.Name):
            target, value = st.target.id, st.value
        elif isinstance(st, ast.Assign) and len(st.targets) == 1 and isinstance(st.targets[0], ast.Name):
            target, value = st.targets[0].id, st.value
        if target and target.endswith("DataMethods"):
            if not isinstance(value, ast.Dict):
                raise Unsupported(f"{target} is not a dict literal")
            rows = []
            for k, v in zip(value.keys, value.values):
                if k is None:
                    raise Unsupported(f"{target}: dict unpacking")
                rows.append((_metric_name(k), _field_ref(v)))
            names = [r[0] for r in rows]
            if len(set(names)) != len(names):
                raise Unsupported(f"{target}: duplicate key (later entry silently wins in Python)")
            out[target] = rows
    if not out:
        raise Unsupported("no *DataMethods tables found")
    return out


def _category(node: ast.expr, var: str) -> str:
    """`<var> == ComponentCategory.X` -> "X"."""
    if (isinstance(node, ast.Compare) and len(node.ops) == 1 and isinstance(node.ops[0], ast.Eq)
            and isinstance(node.left, ast.Name) and node.left.id == var):
        c = node.comparators[0]
        if isinstance(c, ast.Attribute) and isinstance(c.value, ast.Name) and c.value.id == "ComponentCategory":
            return c.attr
    raise Unsupported(f"condition is not `{var} == ComponentCategory.<X>`: {ast.dump(node)[:100]}")


def _strip_doc(body: list[ast.stmt]) -> list[ast.stmt]:
    if body and isinstance(body[0], ast.Expr) and isinstance(body[0].value, ast.Constant) and isinstance(body[0].value.value, str):
        return body[1:]
    return body


def _if_chain(body: list[ast.stmt], var: str) -> list[tuple[str, list[ast.stmt]]]:
    """Flatten `if c1: b1` `if c2: b2` … / `if … elif … else` into [(category, branch body)]."""
    out: list[tuple[str, list[ast.stmt]]] = []

    def walk(stmts: list[ast.stmt]) -> None:
        for st in stmts:
            if isinstance(st, ast.If):
                if not any(isinstance(n, ast.Name) and n.id == var for n in ast.walk(st.test)):
                    continue  # a guard that does not look at the category (e.g. `if comp_id in self.comp_data_receivers`)
                out.append((_category(st.test, var), st.body))
                if st.orelse:
                    walk(st.orelse)
            # anything else (error logging / raise for unknown categories) is the fall-through branch

    walk(body)
    return out


def _find_method(mod: ast.Module, name: str) -> ast.AsyncFunctionDef | ast.FunctionDef:
    for node in ast.walk(mod):
        if isinstance(node, (ast.FunctionDef, ast.AsyncFunctionDef)) and node.name == name:
            return node
    raise Unsupported(f"method {name} not found")


def _extraction_dispatch(mod: ast.Module, tables: dict) -> list[tuple[str, str]]:
    fn = _find_method(mod, "_get_data_extraction_method")
    args = [a.arg for a in fn.args.args]
    if len(args) != 3:
        raise Unsupported("_get_data_extraction_method: expected (self, category, metric)")
    cat_var, metric_var = args[1], args[2]
    rows = []
    for cat, body in _if_chain(_strip_doc(fn.body), cat_var):
        if len(body) != 1 or not isinstance(body[0], ast.Return):
            raise Unsupported("_get_data_extraction_method: branch is not a single return")
        r = body[0].value
        if not (isinstance(r, ast.Subscript) and isinstance(r.value, ast.Name) and r.value.id in tables
                and isinstance(r.slice, ast.Name) and r.slice.id == metric_var):
            raise Unsupported("_get_data_extraction_method: branch does not return <table>[metric]")
        rows.append((cat, r.value.id))
    if not rows:
        raise Unsupported("_get_data_extraction_method: no category branches")
    return rows


def _check_dispatch(mod: ast.Module, tables: dict) -> list[tuple[str, str, str]]:
    fn = _find_method(mod, "_check_requested_component_and_metrics")
    args = [a.arg for a in fn.args.args]
    if len(args) != 4:
        raise Unsupported("_check_requested_component_and_metrics: expected (self, comp_id, category, requests)")
    rows = []
    for cat, body in _if_chain(_strip_doc(fn.body), args[2]):
        calls = [n for st in body for n in ast.walk(st)
                 if isinstance(n, ast.Call) and isinstance(n.func, ast.Attribute)
                 and isinstance(n.func.value, ast.Name) and n.func.value.id == "self"]
        if len(calls) != 1:
            raise Unsupported("_check_requested_component_and_metrics: branch is not one self._check_*_request call")
        helper = _find_method(mod, calls[0].func.attr)
        used_tables = sorted({n.id for n in ast.walk(helper) if isinstance(n, ast.Name) and n.id in tables})
        api = sorted({n.func.attr for n in ast.walk(helper)
                      if isinstance(n, ast.Call) and isinstance(n.func, ast.Attribute) and n.func.attr.endswith("_data")})
        if len(used_tables) != 1 or len(api) != 1:
            raise Unsupported(f"{helper.name}: expected exactly one table and one *_data call, got {used_tables} {api}")
        rows.append((cat, used_tables[0], api[0]))
    if not rows:
        raise Unsupported("_check_requested_component_and_metrics: no category branches")
    return rows


def _lean_name(table: str) -> str:
    core = table.strip("_")
    return core[0].lower() + core[1:]


def generate(repo: pathlib.Path) -> str:
    mod = ast.parse((repo / SOURCES[0]).read_text())
    tables = _tables(mod)
    ext = _extraction_dispatch(mod, tables)
    chk = _check_dispatch(mod, tables)
    out = [
        "/-! Metric tables and category dispatch of `MicrogridApiSource`. -/",
        "namespace Extracted.DataSourcing",
        "",
        "/-- `lambda msg: msg.<attr>` (`idx = none`) or `lambda msg: msg.<attr>[i]` (`idx = some i`). -/",
        "structure FieldRef where",
        "  attr : String",
        "  idx : Option Nat",
        "deriving DecidableEq, Repr",
        "",
    ]
    for name, rows in tables.items():
        out.append(f"/-- `{name}` in dict order: `ComponentMetricId` member name ↦ message field. -/")
        out.append(f"def {_lean_name(name)} : List (String × FieldRef) := [")
        body = []
        for metric, (attr, idx) in rows:
            i = "none" if idx is None else f"some {idx}"
            body.append(f"  ({_lean_str(metric)}, ⟨{_lean_str(attr)}, {i}⟩)")
        out.append(",\n".join(body))
        out.append("]")
        out.append("")
    out.append("/-- `_get_data_extraction_method`: `ComponentCategory` member name ↦ table, in source order. -/")
    out.append("def extractionDispatch : List (String × List (String × FieldRef)) := [")
    out.append(",\n".join(f"  ({_lean_str(c)}, {_lean_name(t)})" for c, t in ext))
    out.append("]")
    out.append("")
    out.append("/-- `_check_requested_component_and_metrics`: category ↦ (table the metrics are validated against,")
    out.append("    API client method whose stream is opened). -/")
    out.append("def checkDispatch : List (String × List (String × FieldRef) × String) := [")
    out.append(",\n".join(f"  ({_lean_str(c)}, {_lean_name(t)}, {_lean_str(a)})" for c, t, a in chk))
    out.append("]")
    out.append("")
    out.append("end Extracted.DataSourcing")
    return "\n".join(out) + "\n"
