"""`_data_sourcing/microgrid_api_source.py` -> Lean tables.

Extracted (pure `ast`), located by ROLE, not by name or statement position:
  * metric tables: every module-level dict literal whose keys are `ComponentMetricId.<NAME>` and whose values are
    one-argument extraction functions `lambda msg: msg.attr` / `msg.attr[i]` (a `**other_table` entry is merged in
    place), as `List (String × FieldRef)` in dict order;
  * the *extraction dispatch* (`_get_data_extraction_method` on the pinned tree): the function that selects a metric
    table by component category and never opens an API stream  =>  category -> table;
  * the *check dispatch* (`_check_requested_component_and_metrics` + its `_check_*_request` helpers): the function
    whose category branches (directly or through helpers of the same module) open an API stream `*_data(...)`
    =>  category -> (table the metrics are validated against, API stream method).
  * the *per-message path* of the streaming task (`_handle_data_stream` on the pinned tree): the one `async for <msg> in
    <API receiver>` loop of the module whose body hands the message to a function that `.send(...)`s on channel
    senders.  Established by a taint analysis of the loop body and of that function (message content = the loop
    variable and everything assigned / stored from it, in this or an EARLIER iteration — loop-carried state is found
    by iterating the analysis to a fixpoint):
      - `messagePath`: the stream iterated is the raw API receiver (no call wraps it, every store into its container is
        a direct `await <client>.<x>_data(...)`); the fan-out of the received object itself is scheduled exactly once,
        at the top level of the loop body (not under any branch / conditional expression); an unconditional `await`
        follows it in the same iteration; and the list of *guards* of the loop body — every `if` / `match` / `while` /
        `for` / `try`-handler / `continue` / `break` / `return` / `raise`, each with "its condition reads message
        content" and "it can skip or end the per-message path";
      - `fanoutBody`: inside the fan-out function one `send` per sender in the nested loops
        `for (extractor, senders) in <snapshot>: for sender in senders:`, the sample being
        `Sample(<msg>.timestamp, Quantity(extractor(<msg>)))` (positional or keyword), and its guards as above.
    Only these structural facts are emitted (no names, no source text), so renames, reorderings of independent
    statements, closures turned into methods, keyword arguments, … regenerate the same text, while a data-dependent
    skip (`if msg.timestamp <= last: continue`, a filter on the receiver, `if isnan(value): continue` in the
    fan-out, …) changes `readsMessage` / `canSkip` and `C20_message_path_unconditional` no longer checks.
  * the *channel name* of a request (`ComponentMetricRequest.get_channel_name`, `_component_metric_request.py`): the
    model identifies a request with its channel, i.e. assumes the name is a function of the CURRENT values of the four
    fields.  `channelName`: the fields (attribute paths of `self`) formatted into the returned string, in order, and
    `pure` = the value is recomputed on every call: the class is a plain `@dataclass`, `get_channel_name` and every
    `self.<method>()` / `@property` it returns through carry no other decorator (`cached_property`, `lru_cache`, `cache`, …),
    nothing in the class stores into `self.*` / `__dict__` / `object.__setattr__` (memo attributes) and there is no
    `__getattr__` / `__slots__` trickery.
A category dispatch may be written as an `if`/`elif` chain (`==`, `is`, `in (…)`, `or`, either operand order,
`!=` with the branches swapped), as `match … case ComponentCategory.X [| …]:`, or as a dict literal
`{ComponentCategory.X: <table>, …}` (local or module level).  Anything that cannot be read this way makes the
extractor raise.
"""
from __future__ import annotations

import ast
import pathlib

NAME = "DataSourcing"
SOURCES = ["src/frequenz/sdk/microgrid/_data_sourcing/microgrid_api_source.py",
           "src/frequenz/sdk/microgrid/_data_sourcing/_component_metric_request.py"]

FuncDef = (ast.FunctionDef, ast.AsyncFunctionDef)


class Unsupported(Exception):
    pass


def _lean_str(s: str) -> str:
    if not all(c.isalnum() or c in "_ -" for c in s):
        raise Unsupported(f"unexpected characters in identifier {s!r}")
    return '"' + s + '"'


def _lean_str_dotted(s: str) -> str:
    if not all(c.isalnum() or c in "_." for c in s):
        raise Unsupported(f"unexpected characters in attribute path {s!r}")
    return '"' + s + '"'


def _enum_member(node: ast.expr, enum: str) -> str | None:
    if isinstance(node, ast.Attribute) and isinstance(node.value, ast.Name) and node.value.id == enum:
        return node.attr
    return None


# ---- metric tables ---------------------------------------------------------------------------------------------
def _field_ref(node: ast.expr, helpers: dict[str, ast.FunctionDef]) -> tuple[str, int | None]:
    """`lambda m: m.attr` / `lambda m: m.attr[i]`, or the name of a one-argument module function doing the same."""
    if isinstance(node, ast.Name) and node.id in helpers:
        fn = helpers[node.id]
        body = [s for s in fn.body if not (isinstance(s, ast.Expr) and isinstance(s.value, ast.Constant))]
        if len(fn.args.args) == 1 and len(body) == 1 and isinstance(body[0], ast.Return) and body[0].value is not None:
            return _attr_index(body[0].value, fn.args.args[0].arg)
        raise Unsupported(f"extraction helper {node.id} is not a single return of <arg>.<attr>[<int>]")
    if not isinstance(node, ast.Lambda) or len(node.args.args) != 1 or node.args.defaults or node.args.kwonlyargs:
        raise Unsupported("table value is not a one-argument lambda")
    return _attr_index(node.body, node.args.args[0].arg)


def _attr_index(body: ast.expr, arg: str) -> tuple[str, int | None]:
    def attr_of(n: ast.expr) -> str:
        if isinstance(n, ast.Attribute) and isinstance(n.value, ast.Name) and n.value.id == arg:
            return n.attr
        raise Unsupported(f"extraction body is not <arg>.<attr>[<int>]: {ast.dump(n)[:80]}")

    if isinstance(body, ast.Subscript):
        idx = body.slice
        if not (isinstance(idx, ast.Constant) and isinstance(idx.value, int) and not isinstance(idx.value, bool)
                and idx.value >= 0):
            raise Unsupported("subscript is not a non-negative integer literal")
        return attr_of(body.value), idx.value
    return attr_of(body), None


def _module_assignments(mod: ast.Module) -> list[tuple[str, ast.expr]]:
    out = []
    for st in mod.body:
        if isinstance(st, ast.AnnAssign) and isinstance(st.target, ast.Name) and st.value is not None:
            out.append((st.target.id, st.value))
        elif isinstance(st, ast.Assign) and len(st.targets) == 1 and isinstance(st.targets[0], ast.Name):
            out.append((st.targets[0].id, st.value))
    return out


def _tables(mod: ast.Module) -> dict[str, list[tuple[str, tuple[str, int | None]]]]:
    helpers = {st.name: st for st in mod.body if isinstance(st, ast.FunctionDef)}
    out: dict[str, list] = {}
    for target, value in _module_assignments(mod):
        if not isinstance(value, ast.Dict) or not value.keys:
            continue
        plain = [k for k in value.keys if k is not None]
        if not plain or not all(_enum_member(k, "ComponentMetricId") for k in plain):
            continue  # not a metric table
        rows: list[tuple[str, tuple[str, int | None]]] = []
        for k, v in zip(value.keys, value.values):
            if k is None:  # `**other_table`
                if isinstance(v, ast.Name) and v.id in out:
                    new = out[v.id]
                else:
                    raise Unsupported(f"{target}: `**` of something that is not an earlier metric table")
            else:
                new = [(_enum_member(k, "ComponentMetricId"), _field_ref(v, helpers))]
            for name, ref in new:  # a later duplicate key replaces the value and keeps the position
                pos = next((i for i, (n, _) in enumerate(rows) if n == name), None)
                if pos is None:
                    rows.append((name, ref))
                else:
                    rows[pos] = (name, ref)
        out[target] = rows
    if not out:
        raise Unsupported("no metric tables (dict literals keyed by ComponentMetricId.<NAME>) found")
    return out


# ---- category dispatch -----------------------------------------------------------------------------------------
def _cats_of_test(test: ast.expr) -> tuple[list[str], bool, str | None]:
    """(categories, negated, dump of the tested subject) of an `if` condition; ([], …) when it is not about categories."""
    if isinstance(test, ast.UnaryOp) and isinstance(test.op, ast.Not):
        cats, neg, subj = _cats_of_test(test.operand)
        return cats, not neg, subj
    if isinstance(test, ast.BoolOp) and isinstance(test.op, ast.Or):
        cats: list[str] = []
        subj = None
        for v in test.values:
            c, neg, s = _cats_of_test(v)
            if not c or neg or (subj is not None and s != subj):
                return [], False, None
            cats += c
            subj = s
        return cats, False, subj
    if isinstance(test, ast.Compare) and len(test.ops) == 1:
        op, left, right = test.ops[0], test.left, test.comparators[0]
        if isinstance(op, (ast.Eq, ast.Is, ast.NotEq, ast.IsNot)):
            neg = isinstance(op, (ast.NotEq, ast.IsNot))
            for a, b in ((left, right), (right, left)):
                c = _enum_member(b, "ComponentCategory")
                if c is not None and _enum_member(a, "ComponentCategory") is None:
                    return [c], neg, ast.dump(a)
        if isinstance(op, (ast.In, ast.NotIn)) and isinstance(right, (ast.Tuple, ast.List, ast.Set)):
            cs = [_enum_member(e, "ComponentCategory") for e in right.elts]
            if cs and all(cs):
                return list(cs), isinstance(op, ast.NotIn), ast.dump(left)  # type: ignore[arg-type]
    return [], False, None


def _cats_of_pattern(pat: ast.pattern) -> list[str] | None:
    """Categories of a `case` pattern; [] for the wildcard; None when unreadable."""
    if isinstance(pat, ast.MatchValue):
        c = _enum_member(pat.value, "ComponentCategory")
        return [c] if c else None
    if isinstance(pat, ast.MatchOr):
        out: list[str] = []
        for p in pat.patterns:
            c = _cats_of_pattern(p)
            if not c:
                return None
            out += c
        return out
    if isinstance(pat, ast.MatchAs) and pat.pattern is None:
        return []
    return None


def _branches(stmts: list[ast.stmt], subjects: set[str]) -> list[tuple[list[str], list[ast.stmt]]]:
    """Flatten the category dispatch found in `stmts` into [(categories, branch body)], in source order."""
    out: list[tuple[list[str], list[ast.stmt]]] = []
    for st in stmts:
        if isinstance(st, ast.If):
            cats, neg, subj = _cats_of_test(st.test)
            if cats:
                subjects.add(subj or "")
                if neg:   # `if cat != X: <rest> else: <branch>`
                    out.append((cats, st.orelse))
                    out += _branches(st.body, subjects)
                else:
                    out.append((cats, st.body))
                    out += _branches(st.orelse, subjects)
            else:         # a guard that is not about the category
                out += _branches(st.body, subjects) + _branches(st.orelse, subjects)
        elif isinstance(st, ast.Match):
            readable = [(_cats_of_pattern(c.pattern), c) for c in st.cases]
            if any(cs for cs, _ in readable):
                subjects.add(ast.dump(st.subject))
                for cs, case in readable:
                    if cs is None or case.guard is not None:
                        raise Unsupported("match on the category with a pattern/guard that cannot be read")
                    if cs:
                        out.append((cs, case.body))
            else:
                for _, case in readable:
                    out += _branches(case.body, subjects)
        elif isinstance(st, (ast.Try,)):
            out += _branches(st.body, subjects)
        elif isinstance(st, (ast.With, ast.AsyncWith, ast.For, ast.AsyncFor, ast.While)):
            out += _branches(st.body, subjects)
    return out


def _strip_doc(body: list[ast.stmt]) -> list[ast.stmt]:
    if body and isinstance(body[0], ast.Expr) and isinstance(body[0].value, ast.Constant) and isinstance(body[0].value.value, str):
        return body[1:]
    return body


def _functions(mod: ast.Module) -> dict[str, ast.AST]:
    """All functions/methods of the module by (unqualified) name, nested closures excluded."""
    out: dict[str, ast.AST] = {}
    for st in mod.body:
        if isinstance(st, FuncDef):
            out[st.name] = st
        elif isinstance(st, ast.ClassDef):
            for m in st.body:
                if isinstance(m, FuncDef):
                    out[m.name] = m
    return out


def _reach(nodes: list[ast.stmt], funcs: dict[str, ast.AST], tables: dict, seen: set[str]) -> tuple[list[str], list[str]]:
    """(metric tables referenced, `*_data` API calls) in `nodes`, following calls to functions of the same module."""
    tabs: list[str] = []
    apis: list[str] = []
    for st in nodes:
        for n in ast.walk(st):
            if isinstance(n, ast.Name) and n.id in tables and n.id not in tabs:
                tabs.append(n.id)
            if isinstance(n, ast.Call):
                f = n.func
                callee = None
                if isinstance(f, ast.Attribute):
                    if f.attr.endswith("_data") and f.attr not in funcs and f.attr not in apis:
                        apis.append(f.attr)
                    if isinstance(f.value, ast.Name) and f.value.id in ("self", "cls"):
                        callee = f.attr
                elif isinstance(f, ast.Name):
                    callee = f.id
                if callee in funcs and callee not in seen:
                    seen.add(callee)
                    t2, a2 = _reach(funcs[callee].body, funcs, tables, seen)  # type: ignore[attr-defined]
                    tabs += [t for t in t2 if t not in tabs]
                    apis += [a for a in a2 if a not in apis]
    return tabs, apis


def _category_dicts(scope: list[ast.stmt] | ast.Module, tables: dict) -> list[list[tuple[str, str]]]:
    """Dict literals `{ComponentCategory.X: <table name>, …}` inside `scope`."""
    nodes = scope.body if isinstance(scope, ast.Module) else scope
    out = []
    for st in nodes:
        if isinstance(scope, ast.Module) and isinstance(st, (ast.ClassDef, *FuncDef)):
            continue
        for n in ast.walk(st):
            if isinstance(n, ast.Dict) and n.keys and all(k is not None and _enum_member(k, "ComponentCategory") for k in n.keys):
                if all(isinstance(v, ast.Name) and v.id in tables for v in n.values):
                    out.append([(_enum_member(k, "ComponentCategory"), v.id) for k, v in zip(n.keys, n.values)])  # type: ignore[union-attr,arg-type]
    return out


def _dispatches(mod: ast.Module, tables: dict) -> tuple[list[tuple[str, str]], list[tuple[str, str, str]]]:
    funcs = _functions(mod)
    module_dicts: dict[str, list[tuple[str, str]]] = {}
    for target, value in _module_assignments(mod):
        if isinstance(value, ast.Dict):
            ds = _category_dicts([ast.Expr(value)], tables)
            if ds:
                module_dicts[target] = ds[0]
    extraction: list[tuple[str, list[tuple[str, str]]]] = []
    check: list[tuple[str, list[tuple[str, str, str]]]] = []
    for name, fn in funcs.items():
        body = _strip_doc(fn.body)  # type: ignore[attr-defined]
        subjects: set[str] = set()
        brs = _branches(body, subjects)
        if brs:
            if len(subjects) != 1:
                raise Unsupported(f"{name}: category tests on different expressions")
            rows_e: list[tuple[str, str]] = []
            rows_c: list[tuple[str, str, str]] = []
            kinds = set()
            for cats, bbody in brs:
                tabs, apis = _reach(bbody, funcs, tables, {name})
                if apis:
                    if len(tabs) != 1 or len(apis) != 1:
                        raise Unsupported(f"{name}: a category branch must use exactly one metric table and open "
                                          f"exactly one API stream, got {tabs} {apis}")
                    kinds.add("check")
                    rows_c += [(c, tabs[0], apis[0]) for c in cats]
                elif tabs:
                    if len(tabs) != 1:
                        raise Unsupported(f"{name}: a category branch refers to several metric tables {tabs}")
                    kinds.add("extract")
                    rows_e += [(c, tabs[0]) for c in cats]
                else:
                    kinds.add("other")   # e.g. a branch that only raises
            if kinds == {"check"} or kinds == {"check", "other"}:
                check.append((name, rows_c))
            elif kinds == {"extract"} or kinds == {"extract", "other"}:
                extraction.append((name, rows_e))
            elif "check" in kinds and "extract" in kinds:
                raise Unsupported(f"{name}: mixes stream-opening and table-selecting category branches")
            continue
        # dict-literal dispatch: `{ComponentCategory.X: table, …}[category][metric]`, local or module level
        ds = _category_dicts(body, tables)
        ds += [module_dicts[n.id] for st in body for n in ast.walk(st) if isinstance(n, ast.Name) and n.id in module_dicts]
        if ds:
            _, apis = _reach(body, funcs, tables, {name})
            if apis or len(ds) != 1:
                raise Unsupported(f"{name}: dict dispatch over categories that cannot be read")
            extraction.append((name, ds[0]))
    if len(extraction) != 1:
        raise Unsupported(f"expected exactly one function selecting a metric table by category, found "
                          f"{[n for n, _ in extraction]}")
    if len(check) != 1:
        raise Unsupported(f"expected exactly one function opening an API stream per category, found "
                          f"{[n for n, _ in check]}")
    fn = funcs[extraction[0][0]]
    params = {a.arg for a in fn.args.args}  # type: ignore[attr-defined]
    if not any(isinstance(n, ast.Subscript) and isinstance(n.slice, ast.Name) and n.slice.id in params
               for n in ast.walk(fn)):
        raise Unsupported(f"{extraction[0][0]}: the selected table is not subscripted by a parameter (the metric)")
    return extraction[0][1], check[0][1]


# ---- per-message path of the streaming task ------------------------------------------------------------------
_CTRL = (ast.Continue, ast.Break, ast.Return, ast.Raise)
_SAMPLE_FIELDS = ("timestamp", "value")   # field order of the `Sample` dataclass (timeseries/_base_types.py)


def _walk_no_defs(node: ast.AST):
    """`ast.walk` that does not descend into nested function definitions / lambdas."""
    todo = [node]
    while todo:
        n = todo.pop()
        yield n
        for c in ast.iter_child_nodes(n):
            if not isinstance(c, (*FuncDef, ast.Lambda)):
                todo.append(c)


def _dotted(n: ast.expr) -> str | None:
    if isinstance(n, ast.Name):
        return n.id
    if isinstance(n, ast.Attribute):
        b = _dotted(n.value)
        return None if b is None else b + "." + n.attr
    return None


def _mentions(n: ast.AST, taint: set[str]) -> bool:
    for x in ast.walk(n):
        if isinstance(x, (ast.Name, ast.Attribute)):
            d = _dotted(x)
            if d is not None and d in taint:
                return True
    return False


def _targets(t: ast.expr) -> list[str]:
    if isinstance(t, (ast.Tuple, ast.List)):
        return [x for e in t.elts for x in _targets(e)]
    if isinstance(t, ast.Starred):
        return _targets(t.value)
    if isinstance(t, ast.Subscript):
        return _targets(t.value)          # `d[k] = tainted` taints the container
    d = _dotted(t)
    return [d] if d is not None else []


def _has_send(fn: ast.AST) -> bool:
    return any(isinstance(n, ast.Call) and isinstance(n.func, ast.Attribute) and n.func.attr == "send"
               for n in ast.walk(fn))


class _PathAnalysis:
    """Guards and taint of a statement list executed once per message."""

    def __init__(self, taint: set[str], skip_stmts: tuple[ast.stmt, ...] = ()):
        self.taint = set(taint)
        self.skip = skip_stmts          # statements whose effects are accounted for elsewhere (the scheduling)
        self.guards: list[tuple[bool, bool]] = []   # (readsMessage, canSkip), in source order
        self.record = True

    # -- taint ---------------------------------------------------------------------------------------------------
    def _assign(self, targets: list[ast.expr], value: ast.AST | None) -> None:
        if value is not None and _mentions(value, self.taint):
            for t in targets:
                self.taint.update(_targets(t))

    def _effects(self, st: ast.stmt) -> None:
        for n in _walk_no_defs(st):
            if isinstance(n, ast.NamedExpr):
                self._assign([n.target], n.value)
            elif isinstance(n, ast.Call) and isinstance(n.func, ast.Attribute):
                # `container.add(<message content>)` / `self.seen.append(...)`: the receiver now holds message content
                if any(_mentions(a, self.taint) for a in list(n.args) + [k.value for k in n.keywords]):
                    d = _dotted(n.func.value)
                    if d is not None and isinstance(st, ast.Expr):
                        self.taint.add(d)
        if isinstance(st, ast.Assign):
            self._assign(st.targets, st.value)
        elif isinstance(st, ast.AnnAssign):
            self._assign([st.target], st.value)
        elif isinstance(st, ast.AugAssign):
            self._assign([st.target], st.value)

    # -- guards --------------------------------------------------------------------------------------------------
    def _guard(self, cond: ast.AST | None, bodies: list[list[ast.stmt]], contains: ast.stmt | None) -> None:
        reads = cond is not None and _mentions(cond, self.taint)
        can_skip = any(isinstance(n, _CTRL) or (contains is not None and n is contains)
                       for b in bodies for st in b for n in _walk_no_defs(st))
        if self.record:
            self.guards.append((reads, can_skip))

    def block(self, stmts: list[ast.stmt], sched: ast.stmt | None = None) -> None:
        for st in stmts:
            if st in self.skip:
                continue
            if isinstance(st, FuncDef) or isinstance(st, (ast.Pass, ast.Global, ast.Nonlocal, ast.Import, ast.ImportFrom)):
                continue
            if isinstance(st, _CTRL):
                if self.record:
                    self.guards.append((isinstance(st, (ast.Return, ast.Raise)) and _mentions(st, self.taint), True))
                continue
            if isinstance(st, ast.If):
                self._guard(st.test, [st.body, st.orelse], sched)
                self.block(st.body, sched); self.block(st.orelse, sched)
            elif isinstance(st, ast.While):
                self._guard(st.test, [st.body, st.orelse], sched)
                self.block(st.body, sched); self.block(st.orelse, sched)
            elif isinstance(st, (ast.For, ast.AsyncFor)):
                self._guard(st.iter, [st.body, st.orelse], sched)
                self._assign([st.target], st.iter)
                self.block(st.body, sched); self.block(st.orelse, sched)
            elif isinstance(st, ast.Match):
                self._guard(ast.Tuple(elts=[st.subject] + [c.guard for c in st.cases if c.guard is not None],
                                      ctx=ast.Load()), [c.body for c in st.cases], sched)
                for c in st.cases:
                    if _mentions(st.subject, self.taint):
                        for n in ast.walk(c.pattern):
                            if isinstance(n, (ast.MatchAs, ast.MatchStar)) and n.name:
                                self.taint.add(n.name)
                    self.block(c.body, sched)
            elif isinstance(st, (ast.Try, getattr(ast, "TryStar", ast.Try))):
                self.block(st.body, sched)
                if st.handlers or st.orelse:
                    self._guard(None, [h.body for h in st.handlers] + [st.orelse], sched)
                for h in st.handlers:
                    self.block(h.body, sched)
                self.block(st.orelse, sched); self.block(st.finalbody, sched)
            elif isinstance(st, (ast.With, ast.AsyncWith)):
                for it in st.items:
                    if it.optional_vars is not None:
                        self._assign([it.optional_vars], it.context_expr)
                self.block(st.body, sched)
            elif isinstance(st, (ast.Assign, ast.AnnAssign, ast.AugAssign, ast.Expr, ast.Assert, ast.Delete)):
                if isinstance(st, ast.Assert):
                    self._guard(st.test, [[ast.Raise()]], None)
                # conditional expressions / short-circuit operators are branches as well
                for n in _walk_no_defs(st):
                    if isinstance(n, ast.IfExp):
                        self._guard(n.test, [], None)
                    elif isinstance(n, (ast.ListComp, ast.SetComp, ast.DictComp, ast.GeneratorExp)):
                        for gen in n.generators:
                            for cond in gen.ifs:
                                self._guard(cond, [], None)
                self._effects(st)
            else:
                raise Unsupported(f"per-message path: statement {type(st).__name__} cannot be read")

    def fixpoint(self, stmts: list[ast.stmt], sched: ast.stmt | None = None) -> None:
        """Iterate so that content stored in one iteration is seen by the guards of the next one."""
        self.record = False
        for _ in range(8):
            before = set(self.taint)
            self.block(stmts, sched)
            if self.taint == before:
                break
        else:
            raise Unsupported("per-message path: taint analysis does not stabilise")
        self.record = True
        self.guards = []
        self.block(stmts, sched)


def _local_defs(fn: ast.AST) -> dict[str, ast.AST]:
    return {n.name: n for n in ast.walk(fn) if isinstance(n, FuncDef) and n is not fn}


def _resolve_callee(call: ast.Call, local: dict[str, ast.AST], funcs: dict[str, ast.AST]) -> tuple[ast.AST, int] | None:
    """(function definition, number of leading parameters bound implicitly) of a call to a function of this module."""
    f = call.func
    if isinstance(f, ast.Name):
        if f.id in local:
            return local[f.id], 0
        if f.id in funcs:
            return funcs[f.id], 0
    if isinstance(f, ast.Attribute) and isinstance(f.value, ast.Name) and f.value.id in ("self", "cls") and f.attr in funcs:
        return funcs[f.attr], 1
    return None


def _bind(call: ast.Call, fn: ast.AST, skip: int) -> dict[str, ast.expr]:
    a = fn.args  # type: ignore[attr-defined]
    params = [x.arg for x in a.posonlyargs + a.args][skip:]
    if any(isinstance(x, ast.Starred) for x in call.args) or any(k.arg is None for k in call.keywords) or a.vararg or a.kwarg:
        raise Unsupported("per-message path: star arguments in the call of the fan-out function")
    if len(call.args) > len(params):
        raise Unsupported("per-message path: too many arguments for the fan-out function")
    out = dict(zip(params, call.args))
    for k in call.keywords:
        out[k.arg] = k.value  # type: ignore[index]
    return out


def _single_assignments(stmts: list[ast.stmt]) -> dict[str, ast.expr]:
    """Local names assigned exactly once (anywhere below `stmts`, nested defs excluded) -> the assigned expression."""
    seen: dict[str, list[ast.expr | None]] = {}
    for st in stmts:
        for n in _walk_no_defs(st):
            if isinstance(n, ast.Assign) and len(n.targets) == 1 and isinstance(n.targets[0], ast.Name):
                seen.setdefault(n.targets[0].id, []).append(n.value)
            elif isinstance(n, ast.AnnAssign) and isinstance(n.target, ast.Name) and n.value is not None:
                seen.setdefault(n.target.id, []).append(n.value)
            elif isinstance(n, (ast.Assign, ast.AugAssign, ast.AnnAssign, ast.For, ast.AsyncFor, ast.NamedExpr)):
                tg = n.targets if isinstance(n, ast.Assign) else [n.target]
                for t in tg:
                    for name in _targets(t):
                        seen.setdefault(name, []).append(None)
    return {k: v[0] for k, v in seen.items() if len(v) == 1 and v[0] is not None}


def _sample_expr(e: ast.expr | None, msg: str, extractor: str) -> str:
    if e is None:
        return ".other"
    if isinstance(e, ast.Attribute) and isinstance(e.value, ast.Name) and e.value.id == msg:
        return f".msgAttr {_lean_str(e.attr)}"
    if (isinstance(e, ast.Call) and isinstance(e.func, ast.Name) and e.func.id == "Quantity" and len(e.args) == 1
            and not e.keywords):
        inner = e.args[0]
        if (isinstance(inner, ast.Call) and isinstance(inner.func, ast.Name) and inner.func.id == extractor
                and len(inner.args) == 1 and not inner.keywords and isinstance(inner.args[0], ast.Name)
                and inner.args[0].id == msg):
            return ".quantityOfExtractor"
    return ".other"


def _fanout_body(fn: ast.AST, msg: str, tainted_params: set[str]) -> dict:
    """Structure of the fan-out function (`process_msg`)."""
    body = _strip_doc(fn.body)  # type: ignore[attr-defined]
    sends = [n for st in body for n in _walk_no_defs(st)
             if isinstance(n, ast.Call) and isinstance(n.func, ast.Attribute) and n.func.attr == "send"]
    if len(sends) != 1:
        raise Unsupported(f"fan-out function {fn.name}: expected exactly one `.send(...)`, found {len(sends)}")  # type: ignore[attr-defined]
    send = sends[0]

    # the chain of enclosing statements of the send
    def chain(stmts: list[ast.stmt]) -> list[ast.stmt] | None:
        for st in stmts:
            if any(n is send for n in _walk_no_defs(st)):
                inner = None
                for fld in ("body", "orelse", "finalbody"):
                    sub = getattr(st, fld, None)
                    if isinstance(sub, list) and sub and isinstance(sub[0], ast.stmt):
                        inner = inner or chain(sub)
                for h in getattr(st, "handlers", []):
                    inner = inner or chain(h.body)
                for c in getattr(st, "cases", []):
                    inner = inner or chain(c.body)
                return [st] + (inner or [])
        return None

    ch = chain(body) or []
    loops = [st for st in ch if isinstance(st, (ast.For, ast.AsyncFor, ast.While))]
    transparent = all(isinstance(st, (ast.With, ast.AsyncWith, ast.For, ast.Expr, ast.Assign, ast.AnnAssign)) for st in ch)
    one_per_sender = False
    extractor = ""
    if transparent and len(loops) == 2 and all(isinstance(l, ast.For) and not l.orelse for l in loops):
        outer, inner = loops
        if (isinstance(outer.target, ast.Tuple) and len(outer.target.elts) == 2
                and all(isinstance(e, ast.Name) for e in outer.target.elts)
                and isinstance(inner.target, ast.Name) and isinstance(inner.iter, ast.Name)
                and inner.iter.id == outer.target.elts[1].id            # type: ignore[attr-defined]
                and isinstance(send.func.value, ast.Name) and send.func.value.id == inner.target.id  # type: ignore[attr-defined]
                and isinstance(outer.iter, (ast.Name, ast.Attribute))
                and not _mentions(outer.iter, {msg} | tainted_params)):
            extractor = outer.target.elts[0].id  # type: ignore[attr-defined]
            # the send statement itself: `await s.send(x)` or `<group>.create_task(s.send(x), …)` as a plain statement
            last = ch[-1]
            ok_stmt = isinstance(last, ast.Expr) and _plain_path(last, send)
            one_per_sender = bool(ok_stmt) and len(send.args) == 1 and not send.keywords
    ts_e = val_e = ".other"
    if one_per_sender:
        arg = send.args[0]
        if isinstance(arg, ast.Name):
            arg = _single_assignments(loops[1].body).get(arg.id, arg)
        if isinstance(arg, ast.Call) and isinstance(arg.func, ast.Name) and arg.func.id == "Sample":
            if len(arg.args) <= len(_SAMPLE_FIELDS) and all(k.arg in _SAMPLE_FIELDS for k in arg.keywords):
                fields: dict[str, ast.expr] = dict(zip(_SAMPLE_FIELDS, arg.args))
                for k in arg.keywords:
                    fields[k.arg] = k.value  # type: ignore[index]
                ts_e = _sample_expr(fields.get("timestamp"), msg, extractor)
                val_e = _sample_expr(fields.get("value"), msg, extractor)
    pa = _PathAnalysis({msg} | tainted_params)
    # the two loops over the snapshot are the expected structure, not guards: analyse around them
    if one_per_sender:
        expected = set(map(id, loops))

        class _PA(_PathAnalysis):
            def _guard(self, cond, bodies, contains):  # type: ignore[no-untyped-def]
                if cond is not None and any(id(l) in expected and l.iter is cond for l in loops):
                    return
                super()._guard(cond, bodies, contains)

        pa = _PA({msg} | tainted_params)
    pa.fixpoint(body)
    return {"onePerSender": one_per_sender, "ts": ts_e, "value": val_e, "guards": pa.guards}


def _plain_path(root: ast.AST, target: ast.AST) -> bool:
    """`target` is reached from `root` through calls / awaits / plain assignment only (no conditional evaluation)."""
    def rec(n: ast.AST) -> bool | None:
        if n is target:
            return True
        for c in ast.iter_child_nodes(n):
            if isinstance(c, (*FuncDef, ast.Lambda)):
                continue
            r = rec(c)
            if r is not None:
                return r and isinstance(n, (ast.Expr, ast.Assign, ast.AnnAssign, ast.Await, ast.Call, ast.keyword,
                                            ast.Attribute))
        return None
    return bool(rec(root))


def _message_path(mod: ast.Module) -> tuple[dict, dict]:
    funcs = _functions(mod)
    found = []
    for fname, fn in funcs.items():
        local = _local_defs(fn)
        for loop in (n for n in _walk_no_defs(fn) if isinstance(n, ast.AsyncFor)):
            calls = []
            for st in loop.body:
                for n in _walk_no_defs(st):
                    if isinstance(n, ast.Call):
                        r = _resolve_callee(n, local, funcs)
                        if r is not None and _has_send(r[0]):
                            calls.append((n, r))
            if calls:
                found.append((fname, fn, loop, calls))
    if len(found) != 1:
        raise Unsupported("expected exactly one `async for` loop handing messages to a sending function, found "
                          f"{[f[0] for f in found]}")
    fname, fn, loop, calls = found[0]
    if not isinstance(loop.target, ast.Name):
        raise Unsupported(f"{fname}: the message loop does not bind the message to a single name")
    msg = loop.target.id
    body = loop.body

    # -- the stream that is iterated ---------------------------------------------------------------------------------
    fbody = _strip_doc(fn.body)  # type: ignore[attr-defined]
    single = _single_assignments(fbody)
    it: ast.expr = loop.iter
    for _ in range(4):
        if isinstance(it, ast.Name) and it.id in single:
            it = single[it.id]
    unfiltered = not any(isinstance(n, (ast.Call, ast.Lambda, ast.IfExp, ast.Await)) for n in ast.walk(it)) \
        and not isinstance(it, ast.Name)
    if isinstance(it, ast.Subscript):
        container = _dotted(it.value)
        stores = [n for n in ast.walk(mod) if isinstance(n, (ast.Assign, ast.AnnAssign, ast.AugAssign))
                  for t in (n.targets if isinstance(n, ast.Assign) else [n.target])
                  if isinstance(t, ast.Subscript) and container is not None and _dotted(t.value) == container]
        for n in stores:
            v = n.value
            if not (isinstance(n, (ast.Assign, ast.AnnAssign)) and isinstance(v, ast.Await) and isinstance(v.value, ast.Call)
                    and isinstance(v.value.func, ast.Attribute) and v.value.func.attr.endswith("_data")):
                unfiltered = False
        if not stores:
            unfiltered = False
    else:
        unfiltered = False

    # -- where the fan-out is scheduled ------------------------------------------------------------------------------
    coro_names: set[str] = set()
    loop_single = _single_assignments(body)
    for name, val in loop_single.items():
        if any(val is c for c, _ in calls):
            coro_names.add(name)

    def schedules(st: ast.stmt) -> list[ast.AST]:
        """Nodes in `st` that start the fan-out: `create_task(<coro>)` / `ensure_future(<coro>)` / `await <coro>`."""
        out: list[ast.AST] = []
        for n in _walk_no_defs(st):
            operand = None
            if isinstance(n, ast.Await):
                operand = n.value
            elif isinstance(n, ast.Call) and n.args:
                f = n.func
                fn_name = f.attr if isinstance(f, ast.Attribute) else f.id if isinstance(f, ast.Name) else ""
                if fn_name in ("create_task", "ensure_future", "start_soon"):
                    operand = n.args[0]
            if operand is None:
                continue
            if any(operand is c for c, _ in calls) or (isinstance(operand, ast.Name) and operand.id in coro_names):
                out.append(n)
        return out

    top = [(st, schedules(st)) for st in body]
    top_sched = [(st, ns) for st, ns in top if ns]
    everywhere = [n for st in body for n in schedules(st)]
    sched_stmt = top_sched[0][0] if top_sched else None
    schedules_once = (len(calls) == 1 and len(everywhere) == 1 and len(top_sched) == 1
                      and isinstance(sched_stmt, (ast.Expr, ast.Assign, ast.AnnAssign))
                      and _plain_path(sched_stmt, everywhere[0]))
    call, (pfn, nskip) = calls[0]
    binding = _bind(call, pfn, nskip)
    msg_params = [p for p, a in binding.items() if isinstance(a, ast.Name) and a.id == msg]
    reassigned = any(msg in _targets(t)
                     for st in body for n in _walk_no_defs(st)
                     if isinstance(n, (ast.Assign, ast.AugAssign, ast.AnnAssign, ast.NamedExpr, ast.For, ast.AsyncFor))
                     for t in (n.targets if isinstance(n, ast.Assign) else [n.target]))
    passes_received = len(msg_params) == 1 and not reassigned
    # an unconditional await after the scheduling statement, in the same iteration
    awaits_after = False
    if sched_stmt is not None and sched_stmt in body:
        for st in body[body.index(sched_stmt) + 1:]:
            if isinstance(st, (ast.Expr, ast.Assign, ast.AnnAssign)) and any(
                    isinstance(n, ast.Await) and _plain_path(st, n) for n in _walk_no_defs(st)):
                awaits_after = True

    # -- guards of the loop body (message content incl. content kept from earlier iterations) --------------------------
    # the assignment of the fan-out coroutine to a local and the scheduling statement do not store message content
    skip = tuple(st for st in body if st is sched_stmt or (
        isinstance(st, (ast.Assign, ast.AnnAssign)) and any(st.value is c for c, _ in calls)))
    pa = _PathAnalysis({msg}, skip)
    pa.fixpoint(body, sched_stmt)
    # a scheduling nested in a branch is a guard that can skip (already recorded through `contains`)
    path = {"streamUnfiltered": unfiltered, "schedulesOnce": schedules_once, "passesReceivedMessage": passes_received,
            "awaitsAfterScheduling": awaits_after, "guards": pa.guards}

    # -- the fan-out function ----------------------------------------------------------------------------------------
    if not msg_params:
        raise Unsupported(f"{fname}: the received message is not an argument of the fan-out function")
    tainted_params = {p for p, a in binding.items() if p != msg_params[0] and _mentions(a, pa.taint)}
    fan = _fanout_body(pfn, msg_params[0], tainted_params)
    return path, fan


# ---- channel name of a request -----------------------------------------------------------------------------------
def _channel_name(repo: pathlib.Path) -> tuple[list[str], bool]:
    mod = ast.parse((repo / SOURCES[1]).read_text())
    classes = [c for c in mod.body if isinstance(c, ast.ClassDef)
               and any(isinstance(f, FuncDef) and f.name == "get_channel_name" for f in c.body)]
    if len(classes) != 1:
        raise Unsupported("expected one class with a get_channel_name method")
    cls = classes[0]
    methods = {f.name: f for f in cls.body if isinstance(f, FuncDef)}
    pure = True
    decos = [ast.unparse(d) for d in cls.decorator_list]
    if not decos or any(d.split("(")[0].split(".")[-1] != "dataclass" for d in decos):
        pure = False
    if any(isinstance(st, ast.Assign) and any(isinstance(t, ast.Name) and t.id == "__slots__" for t in st.targets)
           for st in cls.body) or any(n in methods for n in ("__getattr__", "__getattribute__", "__setattr__")):
        pure = False
    # nothing in the class memoises on the instance
    for n in ast.walk(cls):
        tg: list[ast.expr] = []
        if isinstance(n, ast.Assign):
            tg = list(n.targets)
        elif isinstance(n, (ast.AugAssign, ast.AnnAssign)) and not (isinstance(n, ast.AnnAssign) and n.value is None):
            tg = [n.target]
        for t in tg:
            for x in ast.walk(t):
                if isinstance(x, ast.Attribute) and isinstance(x.value, ast.Name) and x.value.id == "self" \
                        and isinstance(x.ctx, ast.Store):
                    pure = False
                if isinstance(x, ast.Subscript) and "__dict__" in ast.unparse(x.value):
                    pure = False
        if isinstance(n, ast.Call) and ast.unparse(n.func) in ("object.__setattr__", "setattr"):
            pure = False
    seen: set[str] = set()

    def follow(name: str, as_property: bool) -> ast.expr:
        nonlocal pure
        if name in seen or name not in methods:
            raise Unsupported(f"channel name: cannot follow {name}")
        seen.add(name)
        fn = methods[name]
        ds = [ast.unparse(d) for d in fn.decorator_list]
        if ds != (["property"] if as_property else []):
            pure = False          # cached_property / lru_cache / cache / anything that may keep a value
            if as_property and not any(d.split(".")[-1] in ("property", "cached_property") for d in ds):
                raise Unsupported(f"channel name: {name} is not a property")
        if len(fn.args.args) != 1 or fn.args.vararg or fn.args.kwarg or fn.args.kwonlyargs:
            raise Unsupported(f"channel name: {name} takes arguments")
        body = _strip_doc(fn.body)
        if len(body) != 1 or not isinstance(body[0], ast.Return) or body[0].value is None:
            raise Unsupported(f"channel name: {name} is not a single return")
        v = body[0].value
        if isinstance(v, ast.Call) and not v.args and not v.keywords and isinstance(v.func, ast.Attribute) \
                and isinstance(v.func.value, ast.Name) and v.func.value.id == "self":
            return follow(v.func.attr, False)
        if isinstance(v, ast.Attribute) and isinstance(v.value, ast.Name) and v.value.id == "self" and v.attr in methods:
            return follow(v.attr, True)
        return v

    v = follow("get_channel_name", False)
    parts: list[ast.expr] = []
    if isinstance(v, ast.JoinedStr):
        parts = [x.value for x in v.values if isinstance(x, ast.FormattedValue)]
        if any(x.format_spec is not None or x.conversion not in (-1, 115)
               for x in v.values if isinstance(x, ast.FormattedValue)):
            raise Unsupported("channel name: format specs")
    elif isinstance(v, ast.Call) and isinstance(v.func, ast.Attribute) and v.func.attr == "format" \
            and isinstance(v.func.value, ast.Constant) and not v.keywords:
        parts = list(v.args)
    else:
        raise Unsupported("channel name: not an f-string / str.format of the fields")
    fields: list[str] = []
    for e in parts:
        d = _dotted(e)
        if d is None or not d.startswith("self."):
            raise Unsupported(f"channel name: formatted value {ast.unparse(e)} is not a field of the request")
        fields.append(d[len("self."):])
    return fields, pure


def _lean_name(table: str) -> str:
    core = table.strip("_")
    return "tbl_" + "".join(c if c.isalnum() else "_" for c in core)


def generate(repo: pathlib.Path) -> str:
    mod = ast.parse((repo / SOURCES[0]).read_text())
    tables = _tables(mod)
    ext, chk = _dispatches(mod, tables)
    path, fan = _message_path(mod)
    name_fields, name_pure = _channel_name(repo)
    out = [
        "/-! Metric tables and category dispatch of `MicrogridApiSource`. -/",
        "namespace Extracted.DataSourcing",
        "",
        "/-- `lambda msg: msg.<attr>` (`idx = none`) or `lambda msg: msg.<attr>[i]` (`idx = some i`). -/",
        "structure FieldRef where",
        "  attr : String",
        "  idx : Option Nat",
        "deriving DecidableEq, Repr",
        "",
    ]
    for name, rows in tables.items():
        out.append(f"/-- `{name}` in dict order: `ComponentMetricId` member name ↦ message field. -/")
        out.append(f"def {_lean_name(name)} : List (String × FieldRef) := [")
        body = []
        for metric, (attr, idx) in rows:
            i = "none" if idx is None else f"some {idx}"
            body.append(f"  ({_lean_str(metric)}, ⟨{_lean_str(attr)}, {i}⟩)")
        out.append(",\n".join(body))
        out.append("]")
        out.append("")
    out.append("/-- Extraction dispatch: `ComponentCategory` member name ↦ table, in source order. -/")
    out.append("def extractionDispatch : List (String × List (String × FieldRef)) := [")
    out.append(",\n".join(f"  ({_lean_str(c)}, {_lean_name(t)})" for c, t in ext))
    out.append("]")
    out.append("")
    out.append("/-- Check dispatch: category ↦ (table the metrics are validated against,")
    out.append("    API client method whose stream is opened). -/")
    out.append("def checkDispatch : List (String × List (String × FieldRef) × String) := [")
    out.append(",\n".join(f"  ({_lean_str(c)}, {_lean_name(t)}, {_lean_str(a)})" for c, t, a in chk))
    out.append("]")
    out.append("")
    def b(x: bool) -> str:
        return "true" if x else "false"

    def guards(gs: list[tuple[bool, bool]]) -> str:
        return "[" + ", ".join(f"⟨{b(r)}, {b(k)}⟩" for r, k in gs) + "]"

    out += [
        "/-- A branch or early exit on the path of one message (`if` / `match` / `while` / `for` / `try` handler /",
        "    conditional expression / `continue` / `break` / `return` / `raise`): does its condition read message content",
        "    (of this or an earlier message), and can it skip or end the path (or does it enclose the fan-out)? -/",
        "structure Guard where",
        "  readsMessage : Bool",
        "  canSkip : Bool",
        "deriving DecidableEq, Repr",
        "",
        "inductive SampleExpr where",
        "  | msgAttr (attr : String)      -- `<message>.<attr>`",
        "  | quantityOfExtractor          -- `Quantity(<extractor of the metric>(<message>))`",
        "  | other",
        "deriving DecidableEq, Repr",
        "",
        "/-- The body of the `async for <message> in <API receiver>` loop of the streaming task. -/",
        "structure MessagePath where",
        "  /-- the iterated stream is the receiver handed out by the API client, unwrapped -/",
        "  streamUnfiltered : Bool",
        "  /-- the fan-out is scheduled exactly once, at the top level of the loop body -/",
        "  schedulesOnce : Bool",
        "  /-- with the received object itself as the message -/",
        "  passesReceivedMessage : Bool",
        "  /-- and an unconditional `await` follows in the same iteration -/",
        "  awaitsAfterScheduling : Bool",
        "  guards : List Guard",
        "deriving DecidableEq, Repr",
        "",
        "/-- The fan-out function: `for (extractor, senders) in snapshot: for sender in senders: send(Sample(ts, value))`. -/",
        "structure FanoutBody where",
        "  onePerSender : Bool",
        "  sampleTimestamp : SampleExpr",
        "  sampleValue : SampleExpr",
        "  guards : List Guard",
        "deriving DecidableEq, Repr",
        "",
        f"def messagePath : MessagePath := ⟨{b(path['streamUnfiltered'])}, {b(path['schedulesOnce'])}, "
        f"{b(path['passesReceivedMessage'])}, {b(path['awaitsAfterScheduling'])}, {guards(path['guards'])}⟩",
        "",
        f"def fanoutBody : FanoutBody := ⟨{b(fan['onePerSender'])}, {fan['ts']}, {fan['value']}, {guards(fan['guards'])}⟩",
        "",
    ]
    out += [
        "/-- `ComponentMetricRequest.get_channel_name()`: the fields formatted into the name, in order, and whether the",
        "    name is recomputed from the current field values on every call (no cache decorator, no memo attribute). -/",
        "structure ChannelName where",
        "  fields : List String",
        "  pure : Bool",
        "deriving DecidableEq, Repr",
        "",
        "def channelName : ChannelName := ⟨[" + ", ".join(_lean_str_dotted(f) for f in name_fields) + "], "
        + ("true" if name_pure else "false") + "⟩",
        "",
    ]
    out.append("end Extracted.DataSourcing")
    return "\n".join(out) + "\n"
