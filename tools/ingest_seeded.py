#!/usr/bin/env python3
"""Ingest the seeded changes a fresh sub-agent left in /tmp/mut-<Cxx>/ (patchN.diff, demoN.py):
confirm each independently (tools/confirm_seeded.sh), run the check(s) against it (tools/try_seeded.sh) and store
seeded/<Cxx>-N/{patch.diff,demo.py,meta.json}.   Usage: ingest_seeded.py Cxx desc.json [extra checks…]
desc.json: {"1": {"change": …, "needs": …}, …}"""
import json, pathlib, shutil, subprocess, sys

V = pathlib.Path(__file__).resolve().parent.parent
prop, desc_file, *extra = sys.argv[1:]
desc = json.loads(pathlib.Path(desc_file).read_text())
import os
ROUND = os.environ.get("ROUND", "")            # ROUND=2: /tmp/mut2-<prop>, ids <prop>-r2-N
src = pathlib.Path(f"/tmp/mut{ROUND}-{prop}")
TAG = f"r{ROUND}-" if ROUND else ""
head = subprocess.run(["git", "-C", "/repo", "rev-parse", "--short", "HEAD"], capture_output=True, text=True).stdout.strip()
for n, d in sorted(desc.items()):
    patch, demo = src / f"patch{n}.diff", src / f"demo{n}.py"
    if not patch.exists():  # re-run of an already ingested change
        patch, demo = V / "seeded" / f"{prop}-{TAG}{n}" / "patch.diff", V / "seeded" / f"{prop}-{TAG}{n}" / "demo.py"
    conf = subprocess.run([str(V / "tools/confirm_seeded.sh"), str(patch), str(demo)], capture_output=True, text=True).stdout
    tr = subprocess.run([str(V / "tools/try_seeded.sh"), str(patch), prop, *extra], capture_output=True, text=True, cwd=V).stdout
    lines = [l for l in tr.splitlines() if l.startswith(("VIOLATION", "check ", "KNOWN"))]
    out = V / "seeded" / f"{prop}-{TAG}{n}"
    out.mkdir(parents=True, exist_ok=True)
    if patch.parent != out:
        shutil.copy(patch, out / "patch.diff"); shutil.copy(demo, out / "demo.py")
    detected = [l for l in lines if l.startswith("VIOLATION")]
    old = json.loads((out / "meta.json").read_text()) if (out / "meta.json").exists() else {}
    hist = old.get("history", [])
    if old.get("outcome") and old.get("detected") is not None and not (old.get("detected") and old.get("with_failing_input")):
        hist = hist + [{"earlier_outcome": old["outcome"], "note": "machinery strengthened afterwards"}]
    meta = {"history": hist, "id": f"{prop}-{TAG}{n}", "property": prop, "change": d["change"], "needs_to_manifest": d["needs"],
            "written_by": "fresh sub-agent given only the property text and its own worktree (nothing from /verif)",
            "confirmed": conf.strip().splitlines()[0] if conf.strip() else "confirmation failed",
            "ran": f"tools/try_seeded.sh seeded/{prop}-{TAG}{n}/patch.diff {' '.join([prop, *extra])}",
            "outcome": [l[:300] for l in lines], "base_commit": head,
            "detected": bool(detected), "with_failing_input": any("no-failing-input-found" not in l for l in detected)}
    (out / "meta.json").write_text(json.dumps(meta, indent=1))
    print(prop, n, "| confirm:", meta["confirmed"][:120], "| detected:", meta["detected"], "failing-input:", meta["with_failing_input"])
