#!/usr/bin/env python3
"""Regenerate MANIFEST.json from harness/props.json + tools/manifest_texts.json (keeps it valid by construction)."""
import json
import pathlib

V = pathlib.Path(__file__).resolve().parent.parent
props = {p.stem: json.loads(p.read_text()) for p in sorted((V / "harness" / "props.d").glob("C*.json"))}
texts = {p.stem: json.loads(p.read_text()) for p in sorted((V / "tools" / "manifest.d").glob("C*.json"))}
accepted = set(json.loads((V / "tools" / "accepted.json").read_text()))  # checks the coordinator has reviewed
props = {k: v for k, v in props.items() if k in texts and k in accepted}
all_ids = [json.loads(l)["id"] for l in (V / "properties.jsonl").read_text().splitlines() if l.strip()]
BASE = ("cd /repo && /venv/bin/python -m pytest -ra -q -p no:cacheprovider --timeout=900 "
        "--continue-on-collection-errors")
m = {
    "version": 1,
    "setup_cmd": "python3 tools/extract.py; cd lean && lake build",
    "hooks": {"guard": "FREQUENZ_SDK_PYTHON_VERIF", "enable": "checks export FREQUENZ_SDK_PYTHON_VERIF=1 (no hook is currently needed; add-only if one appears)",
              "baseline_off_cmd": BASE, "source_commits": [], "add_only": True},
    "engines": [{"name": "lean4-models", "path": "lean/", "serves_properties": sorted(props),
                 "kind_free_text": "Lean 4 models + theorems (lake lib, no require); Extracted/*.lean regenerated from /repo by tools/extract.py"},
                {"name": "harness", "path": "harness/", "serves_properties": sorted(props),
                 "kind_free_text": "Python correspondence check: real code vs Lean driver vs property oracle"}],
    "checks": [],
    "notes": "See DESIGN.md. Every check: extract -> lake build Props/<id> -> #print axioms audit -> harness -> evidence.",
    "not_applicable": [],
}
for pid in all_ids:
    if pid in props:
        t = texts[pid]
        m["checks"].append({
            "property_id": pid,
            "quick_cmd": f"./check {pid} --tier quick",
            "thorough_cmd": f"./check {pid} --tier thorough",
            "evidence_file": f"evidence/{pid}.json",
            "replay_cmd_template": f"./check {pid} --replay {{path}}",
            "engine": "lean4-models",
            "level_claimed": {"category": props[pid].get("level", "proof"), "text": t["text"], "design_ref": t.get("design_ref", f"DESIGN.md §4 {pid}")},
            "level_note": t["note"],
            "technique": t.get("technique", "Lean 4 theorems over an executable model + model/implementation correspondence check"),
        })
    else:
        m["not_applicable"].append({"property_id": pid, "reason": texts.get(pid, {}).get("na_reason", "check not built yet in this snapshot (planned in DESIGN.md §4); not claimed")})
(V / "MANIFEST.json").write_text(json.dumps(m, indent=1) + "\n")
print("checks:", [c["property_id"] for c in m["checks"]])
