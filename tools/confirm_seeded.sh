#!/bin/bash
# Usage: tools/confirm_seeded.sh <patch.diff> <demo.py>
# Confirms independently: demo exits 0 on HEAD, non-zero with the patch; full test-suite still 332 passed with the patch.
PATCH="$(readlink -f "$1")"; DEMO="$(readlink -f "$2")"
WT="/tmp/confirm-wt-$$"
git -C /repo worktree add -q "$WT" HEAD || exit 2
cd "$WT"
PYTHONPATH="$WT/src" timeout 300 /venv/bin/python "$DEMO" >/dev/null 2>&1; a=$?
git apply "$PATCH" || { echo "patch does not apply"; git -C /repo worktree remove --force "$WT"; exit 2; }
PYTHONPATH="$WT/src" timeout 300 /venv/bin/python "$DEMO" >/tmp/confirm-demo-$$.out 2>&1; b=$?
t=$(PYTHONPATH="$WT/src" /venv/bin/python -m pytest -q -p no:cacheprovider --timeout=900 2>&1 | tail -1)
echo "demo on HEAD: exit $a ; demo with patch: exit $b ; tests with patch: $t"
tail -2 /tmp/confirm-demo-$$.out | cut -c1-300; rm -f /tmp/confirm-demo-$$.out
cd /; git -C /repo worktree remove --force "$WT"
