"""A small Python -> Lean 4 translator for the *pure, loop-free* functions of the repo.

Supported subset (enough for `_bounds.py` and similar helpers):
  * statements: docstring, `return e`, `x = e`, `a, b = e`, `if/elif/else`, `match e:` with tuple-of-literal
    patterns (fall-through when no case matches or a case body does not return);
  * expressions: names, numeric/bool/None literals, tuples, `x.attr`, comparisons (chained),
    `and`/`or`/`not`, `+ - * /`, unary minus, `max`/`min`, calls to other translated functions,
    `Power.zero()`, `v.isclose(Power.zero())` (== 0 with the default abs_tol of 0), `x is None`,
    `x is not None`;
  * Optional narrowing: `if x is None: return …` / `if x is not None [and c]: …` become a Lean
    `match x with | none | some x_v`, and `x.attr` below refers to `x_v`.

Statement sequences are translated in continuation-passing style: the statements after an
`if`/`match` are copied into every branch that falls through.  Anything outside the subset raises
`Unsupported`, which the caller reports (the property then goes to the failing-input search).
"""
from __future__ import annotations

import ast
from dataclasses import dataclass, field


class Unsupported(Exception):
    pass


TYPE_MAP = {
    "Power": "Rat",
    "float": "Rat",
    "int": "Int",
    "bool": "Bool",
    "Bounds[Power]": "Bounds",
    "timeseries.Bounds[Power]": "Bounds",
}


def lean_type(node: ast.expr) -> str:
    src = ast.unparse(node)
    return _lean_type_src(src)


def _lean_type_src(src: str) -> str:
    src = src.strip()
    if src in TYPE_MAP:
        return TYPE_MAP[src]
    if src.endswith("| None"):
        inner = _lean_type_src(src[: -len("| None")])
        return f"(Option {inner})"
    if src.startswith("tuple[") and src.endswith("]"):
        parts = _split_top(src[len("tuple["):-1])
        return "(" + " × ".join(_lean_type_src(p) for p in parts) + ")"
    raise Unsupported(f"type {src!r}")


def _split_top(s: str) -> list[str]:
    out, depth, cur = [], 0, ""
    for ch in s:
        if ch == "[":
            depth += 1
        elif ch == "]":
            depth -= 1
        if ch == "," and depth == 0:
            out.append(cur)
            cur = ""
        else:
            cur += ch
    if cur.strip():
        out.append(cur)
    return out


@dataclass
class Env:
    narrowed: dict[str, str] = field(default_factory=dict)  # option var -> unwrapped name
    funcs: dict[str, str] = field(default_factory=dict)  # python callee src -> lean name
    optional: set[str] = field(default_factory=set)  # names with Option type
    known_none: frozenset = frozenset()  # option vars known to be None on this path

    def narrow(self, var: str) -> "Env":
        e = Env(dict(self.narrowed), self.funcs, self.optional, self.known_none)
        e.narrowed[var] = var + "_v"
        return e

    def is_none(self, var: str) -> "Env":
        return Env(dict(self.narrowed), self.funcs, self.optional, self.known_none | {var})


def _is_none_test(node: ast.expr) -> tuple[str, bool] | None:
    """Return (var, is_none) for `var is None` / `var is not None`."""
    if (
        isinstance(node, ast.Compare)
        and len(node.ops) == 1
        and isinstance(node.ops[0], (ast.Is, ast.IsNot))
        and isinstance(node.comparators[0], ast.Constant)
        and node.comparators[0].value is None
        and isinstance(node.left, ast.Name)
    ):
        return node.left.id, isinstance(node.ops[0], ast.Is)
    return None


class _Subst(ast.NodeTransformer):
    def __init__(self, mapping: dict):
        self.mapping = mapping

    def visit_Name(self, node: ast.Name):
        if isinstance(node.ctx, ast.Load) and node.id in self.mapping:
            return self.mapping[node.id]
        return node


class Translator:
    def __init__(self, funcs: dict[str, str]):
        self.funcs = funcs
        self.tmp = 0
        self.params: dict[str, list[str]] = {}  # callee source -> parameter names (for keyword arguments)
        self.helpers: dict[str, ast.FunctionDef] = {}  # module-level `def f(…): return <expr>` helpers, inlined at call sites
        self.depth = 0

    def _bind(self, what: str, names: list[str], n: ast.Call) -> list[ast.expr]:
        if len(n.args) > len(names):
            raise Unsupported(f"too many arguments for {what}")
        given = dict(zip(names, n.args))
        for kw in n.keywords:
            if kw.arg is None or kw.arg not in names or kw.arg in given:
                raise Unsupported(f"keyword argument of {what}")
            given[kw.arg] = kw.value
        if set(given) != set(names):
            raise Unsupported(f"missing argument of {what}")
        return [given[p] for p in names]

    def _inlined(self, n: ast.expr) -> ast.expr | None:
        """`helper(a, b)` -> the helper's returned expression with the arguments substituted (pure, loop-free)."""
        if not (isinstance(n, ast.Call) and isinstance(n.func, ast.Name) and n.func.id in self.helpers):
            return None
        fn = self.helpers[n.func.id]
        body = [st for st in fn.body if not (isinstance(st, ast.Expr) and isinstance(st.value, ast.Constant))]
        if len(body) != 1 or not isinstance(body[0], ast.Return) or body[0].value is None or self.depth > 6:
            raise Unsupported(f"helper {fn.name} is not a single `return <expression>`")
        a = fn.args
        if a.vararg or a.kwarg or a.kwonlyargs or a.defaults or a.posonlyargs:
            raise Unsupported(f"signature of helper {fn.name}")
        args = self._bind(fn.name, [p.arg for p in a.args], n)
        import copy
        return _Subst(dict(zip([p.arg for p in a.args], args))).visit(copy.deepcopy(body[0].value))

    # ---------------------------------------------------------------- expressions
    def expr(self, n: ast.expr, env: Env) -> str:
        if isinstance(n, ast.Name):
            return n.id
        if isinstance(n, ast.Constant):
            if n.value is None:
                return "none"
            if n.value is True:
                return "true"
            if n.value is False:
                return "false"
            if isinstance(n.value, int):
                return f"({n.value})"
            if isinstance(n.value, float):
                from fractions import Fraction

                fr = Fraction(repr(n.value))
                return f"(({fr.numerator} : Rat) / {fr.denominator})"
            raise Unsupported(f"constant {n.value!r}")
        if isinstance(n, ast.Tuple):
            return "(" + ", ".join(self.expr(e, env) for e in n.elts) + ")"
        if isinstance(n, ast.Attribute):
            if isinstance(n.value, ast.Name):
                base = n.value.id
                if base in env.optional:
                    if base not in env.narrowed:
                        raise Unsupported(f"attribute of un-narrowed optional {base}")
                    base = env.narrowed[base]
                return f"{base}.{n.attr}"
            raise Unsupported(f"attribute {ast.unparse(n)}")
        if isinstance(n, ast.UnaryOp):
            if isinstance(n.op, ast.USub):
                return f"(-{self.expr(n.operand, env)})"
            if isinstance(n.op, ast.Not):
                return f"(!{self.bexpr(n.operand, env)})"
            raise Unsupported("unary op")
        if isinstance(n, ast.BinOp):
            ops = {ast.Add: "+", ast.Sub: "-", ast.Mult: "*", ast.Div: "/"}
            for k, v in ops.items():
                if isinstance(n.op, k):
                    return f"({self.expr(n.left, env)} {v} {self.expr(n.right, env)})"
            raise Unsupported("binop")
        if isinstance(n, (ast.Compare, ast.BoolOp)):
            return self.bexpr(n, env)
        if isinstance(n, ast.Call):
            inl = self._inlined(n)
            if inl is not None:
                self.depth += 1
                try:
                    return self.expr(inl, env)
                finally:
                    self.depth -= 1
            src = ast.unparse(n.func)
            if src == "bool" and len(n.args) == 1 and not n.keywords and isinstance(n.args[0], (ast.Compare, ast.BoolOp)):
                return self.bexpr(n.args[0], env)  # bool() of a comparison is the comparison
            if src == "Power.zero" and not n.args:
                return "(0 : Rat)"
            if src in ("max", "min") and len(n.args) == 2:
                # Python: max(a, b) returns a unless b > a;  min(a, b) returns a unless b < a.
                a, b = (self.expr(x, env) for x in n.args)
                return f"(py{src.capitalize()} {a} {b})"
            if src in self.funcs:
                actual = self._bind(src, self.params[src], n) if n.keywords and src in self.params else list(n.args)
                args = " ".join(self._atom(self.expr(a, env)) for a in actual)
                return f"({self.funcs[src]} {args})"
            raise Unsupported(f"call {src}")
        raise Unsupported(f"expression {ast.dump(n)[:80]}")

    @staticmethod
    def _atom(s: str) -> str:
        return s if (s.isidentifier() or s.startswith("(")) else f"({s})"

    def bexpr(self, n: ast.expr, env: Env) -> str:
        """Boolean-valued expression as a Lean `Bool` term (via `decide`)."""
        return f"decide ({self.prop(n, env)})"

    def prop(self, n: ast.expr, env: Env) -> str:
        """Boolean-valued expression as a decidable Lean `Prop`."""
        if isinstance(n, ast.Compare):
            nt = _is_none_test(n)
            if nt is not None:
                var, is_none = nt
                return f"{var} = none" if is_none else f"{var} ≠ none"
            ops = {ast.Lt: "<", ast.LtE: "≤", ast.Gt: ">", ast.GtE: "≥", ast.Eq: "=", ast.NotEq: "≠"}
            parts = []
            left = n.left
            for op, right in zip(n.ops, n.comparators):
                for k, v in ops.items():
                    if isinstance(op, k):
                        parts.append(f"{self.expr(left, env)} {v} {self.expr(right, env)}")
                        break
                else:
                    raise Unsupported("compare op")
                left = right
            return " ∧ ".join(parts) if len(parts) > 1 else parts[0]
        if isinstance(n, ast.BoolOp):
            j = " ∧ " if isinstance(n.op, ast.And) else " ∨ "
            return "(" + j.join(f"({self.prop(v, env)})" for v in n.values) + ")"
        if isinstance(n, ast.UnaryOp) and isinstance(n.op, ast.Not):
            return f"¬ ({self.prop(n.operand, env)})"
        inl = self._inlined(n)
        if inl is not None:
            self.depth += 1
            try:
                return "(" + self.prop(inl, env) + ")"
            finally:
                self.depth -= 1
        if isinstance(n, ast.Call) and isinstance(n.func, ast.Attribute) and n.func.attr == "isclose":
            if len(n.args) == 1 and ast.unparse(n.args[0]) == "Power.zero()" and not n.keywords:
                return f"{self.expr(n.func.value, env)} = 0"
            raise Unsupported("isclose with tolerance")
        if isinstance(n, ast.Constant) and isinstance(n.value, bool):
            return "True" if n.value else "False"
        if isinstance(n, ast.Name):
            return f"{n.id} = true"
        raise Unsupported(f"condition {ast.unparse(n)}")

    # ---------------------------------------------------------------- statements (CPS)
    def block(self, stmts: list[ast.stmt], env: Env, ind: str) -> str:
        if not stmts:
            raise Unsupported("function may fall off its end")
        s, rest = stmts[0], stmts[1:]
        if isinstance(s, ast.Expr) and isinstance(s.value, ast.Constant) and isinstance(s.value.value, str):
            return self.block(rest, env, ind)
        if isinstance(s, ast.Return):
            if s.value is None:
                raise Unsupported("bare return")
            return ind + self.expr(s.value, env)
        if isinstance(s, ast.Assign) and len(s.targets) == 1:
            t = s.targets[0]
            if isinstance(t, ast.Name):
                return f"{ind}let {t.id} := {self.expr(s.value, env)}\n" + self.block(rest, env, ind)
            if isinstance(t, ast.Tuple) and all(isinstance(e, ast.Name) for e in t.elts):
                names = ", ".join(e.id for e in t.elts)  # type: ignore[attr-defined]
                return (
                    f"{ind}match {self.expr(s.value, env)} with\n{ind}| ({names}) =>\n"
                    + self.block(rest, env, ind + "  ")
                )
            raise Unsupported("assignment target")
        if isinstance(s, ast.If):
            return self._if(s, rest, env, ind)
        if isinstance(s, ast.Match):
            return self._match(s, rest, env, ind)
        raise Unsupported(f"statement {type(s).__name__}")

    def _if(self, s: ast.If, rest: list[ast.stmt], env: Env, ind: str) -> str:
        test = s.test
        # Optional narrowing
        nt = _is_none_test(test)
        extra: ast.expr | None = None
        if nt is None and isinstance(test, ast.BoolOp) and isinstance(test.op, ast.And):
            nt0 = _is_none_test(test.values[0])
            if nt0 is not None and not nt0[1]:
                nt = nt0
                others = test.values[1:]
                extra = others[0] if len(others) == 1 else ast.BoolOp(op=ast.And(), values=others)
        if nt is not None and nt[0] in env.optional:
            var, is_none = nt
            # the test is already decided on this path: pick the branch statically
            if var in env.narrowed or var in env.known_none:
                holds = (var in env.known_none) == is_none
                if holds and extra is not None:
                    return (
                        f"{ind}if {self.prop(extra, env)} then\n"
                        + self.block(s.body + rest, env, ind + "  ")
                        + f"\n{ind}else\n"
                        + self.block(s.orelse + rest, env, ind + "  ")
                    )
                return self.block((s.body if holds else s.orelse) + rest, env, ind)
            env_some = env.narrow(var)
            env = env.is_none(var)
            if is_none:
                none_body = self.block(s.body + rest, env, ind + "  ")
                some_body = self.block(s.orelse + rest, env_some, ind + "  ")
            else:
                if extra is None:
                    some_body = self.block(s.body + rest, env_some, ind + "  ")
                else:
                    some_body = (
                        f"{ind}  if {self.prop(extra, env_some)} then\n"
                        + self.block(s.body + rest, env_some, ind + "    ")
                        + f"\n{ind}  else\n"
                        + self.block(s.orelse + rest, env_some, ind + "    ")
                    )
                none_body = self.block(s.orelse + rest, env, ind + "  ")
            return (
                f"{ind}match {var} with\n{ind}| none =>\n{none_body}\n"
                f"{ind}| some {var}_v =>\n{some_body}"
            )
        return (
            f"{ind}if {self.prop(test, env)} then\n"
            + self.block(s.body + rest, env, ind + "  ")
            + f"\n{ind}else\n"
            + self.block(s.orelse + rest, env, ind + "  ")
        )

    def _match(self, s: ast.Match, rest: list[ast.stmt], env: Env, ind: str) -> str:
        self.tmp += 1
        m = f"m{self.tmp}"
        out = f"{ind}let {m} := {self.expr(s.subject, env)}\n"
        # chain of if / else if; final else = fall through
        chain = ""
        cur = ind
        for case in s.cases:
            pat = case.pattern
            if not (
                isinstance(pat, ast.MatchSequence)
                and all(isinstance(p, ast.MatchSingleton) and isinstance(p.value, bool) for p in pat.patterns)
            ):
                raise Unsupported("match pattern")
            lit = "(" + ", ".join("true" if p.value else "false" for p in pat.patterns) + ")"  # type: ignore[attr-defined]
            # `case <literals> if <guard>:` — taken when the pattern matches AND the guard holds, else the next case
            test = f"{m} = {lit}" if case.guard is None else f"{m} = {lit} ∧ ({self.prop(case.guard, env)})"
            chain += (
                f"{cur}if {test} then\n"
                + self.block(case.body + rest, env, cur + "  ")
                + f"\n{cur}else\n"
            )
            cur += "  "
        chain += self.block(rest, env, cur)
        return out + chain

    # ---------------------------------------------------------------- functions
    def function(self, fn: ast.FunctionDef, lean_name: str) -> str:
        params = []
        env = Env(funcs=self.funcs)
        for a in fn.args.args:
            if a.annotation is None:
                raise Unsupported("missing annotation")
            ty = lean_type(a.annotation)
            if ty.startswith("(Option"):
                env.optional.add(a.arg)
            params.append(f"({a.arg} : {ty})")
        if fn.returns is None:
            raise Unsupported("missing return annotation")
        ret = lean_type(fn.returns)
        body = self.block(fn.body, env, "  ")
        return f"def {lean_name} {' '.join(params)} : {ret} :=\n{body}\n"


def translate_module(source: str, wanted: dict[str, str], callee_names: dict[str, str]) -> dict[str, str]:
    """Translate the functions named in `wanted` (python name -> lean name).

    `callee_names` maps the source text of a callee (e.g. `_bounds.clamp_to_bounds` or
    `check_exclusion_bounds_overlap`) to its Lean name.
    """
    tree = ast.parse(source)
    tr = Translator(callee_names)
    for node in tree.body:
        if isinstance(node, ast.FunctionDef):
            if node.name in wanted:
                for src, lean in callee_names.items():
                    if lean == wanted[node.name]:
                        tr.params[src] = [a.arg for a in node.args.args]
            else:
                tr.helpers[node.name] = node
    out: dict[str, str] = {}
    for node in tree.body:
        if isinstance(node, ast.FunctionDef) and node.name in wanted:
            out[node.name] = tr.function(node, wanted[node.name])
    missing = set(wanted) - set(out)
    if missing:
        raise Unsupported(f"functions not found: {sorted(missing)}")
    return out
