-- Root of the `Frequenz` library: every accepted module is imported here.
import Frequenz.Model.Prelude
import Frequenz.Extracted.Bounds
import Frequenz.Model.Matryoshka
import Frequenz.Model.JsonUtil
import Frequenz.Props.C03
import Frequenz.Props.C04
import Frequenz.Props.C11
import Frequenz.Props.C07
import Frequenz.Props.C08
import Frequenz.Props.C16
import Frequenz.Props.C19
import Frequenz.Props.C20
import Frequenz.Props.C14
import Frequenz.Props.C15
import Frequenz.Props.C01
import Frequenz.Props.C02
