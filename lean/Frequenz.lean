-- Root of the `Frequenz` library: every accepted module is imported here.
import Frequenz.Model.Prelude
import Frequenz.Extracted.Bounds
import Frequenz.Model.Matryoshka
import Frequenz.Model.JsonUtil
import Frequenz.Props.C03
import Frequenz.Props.C04
import Frequenz.Props.C11
