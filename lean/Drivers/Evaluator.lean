/-
Line-protocol driver for the formula evaluator model (C06).
Input line : {"kind":"single","n":n,"nz":[bool…],"events":[["D",i,tick,val|null] | ["attach"]]}
           | {"kind":"3phase","phases":[{"n":n,"nz":[bool…]} ×3],"events":[["D",p,i,tick,val|null] | ["attach"]]}
The formula is the sum of the streams, a missing value counting as zero where `nz[i]` (nones_are_zeros) and making
the result missing otherwise.  The driver is the *eager scheduler* of the real system: nothing is evaluated before
`attach` (the engine task is created by the first `new_receiver()`); from then on, after every event, `eval`
(and `zip`) events are issued while they are enabled.  The 3-phase round is the one the current source implements
(`Evaluator.sourceResyncs`, extracted: resynchronising after fixes/C06-3phase-resync.patch, plain zip before).  Everything else is the model's `step`.
Output line: {"out": [[tick,val|null]…]}   resp.  {"out": [[tick,v1,v2,v3]…]}
-/
import Frequenz.Model.Evaluator
import Frequenz.Model.JsonUtil

open Lean JsonUtil Evaluator

def sumFormula (nz : List Bool) (vals : List (Option Rat)) : Option Rat :=
  let pairs := nz.zip vals
  if pairs.any (fun (z, v) => !z && v.isNone) then none
  else some (pairs.foldl (fun acc (_, v) => acc + v.getD 0) 0)

def parseVal (j : Json) : Except String (Option Rat) :=
  match j with
  | .null => pure none
  | .str s => (parseRat s).map some
  | .num n => if n.exponent = 0 then pure (some (n.mantissa : Rat)) else throw "bad num"
  | _ => throw "bad value"

def getBools (j : Json) (k : String) : Except String (List Bool) := do
  let a ← getArr j k
  a.toList.mapM (fun x => x.getBool?)

/-- issue `eval` while enabled (`fuel` bounds the loop: every eval consumes a sample of every stream) -/
def driveSingle (n : Nat) (f : List (Option Rat) → Option Rat) : Nat → St → St
  | 0, σ => σ
  | k + 1, σ => if enabled n f σ then driveSingle n f k (step n f σ (.eval 0)) else σ

def optJ (v : Option Rat) : Json := optRatJ v

def runSingle (j : Json) : Except String Json := do
  let n ← getNat j "n"
  let nz ← getBools j "nz"
  let f := sumFormula nz
  let evs ← getArr j "events"
  let mut σ := St.init
  let mut attached := false
  let mut delivered := 0
  for e in evs do
    let a ← e.getArr?
    let k ← a[0]!.getStr?
    match k with
    | "D" =>
      let i ← a[1]!.getNat?
      let ts ← a[2]!.getInt?
      let v ← parseVal a[3]!
      σ := step n f σ (.deliver i ⟨ts, v⟩)
      delivered := delivered + 1
    | "attach" => attached := true
    | _ => throw s!"unknown event {k}"
    if attached then σ := driveSingle n f (delivered + 1) σ
  return Json.mkObj [("out", Json.arr (σ.out.map (fun s => Json.arr #[Json.num (JsonNumber.fromInt s.ts), optJ s.val])).toArray)]

def drive3 (P1 P2 P3 : Phase) : Nat → St3 → St3
  | 0, σ => σ
  | k + 1, σ =>
    if enabled P1.n P1.f σ.s1 then drive3 P1 P2 P3 k (step3 sourceResyncs P1 P2 P3 σ (.ph 0 (.eval 0)))
    else if enabled P2.n P2.f σ.s2 then drive3 P1 P2 P3 k (step3 sourceResyncs P1 P2 P3 σ (.ph 1 (.eval 0)))
    else if enabled P3.n P3.f σ.s3 then drive3 P1 P2 P3 k (step3 sourceResyncs P1 P2 P3 σ (.ph 2 (.eval 0)))
    else if (zipStep sourceResyncs σ).isSome then drive3 P1 P2 P3 k (step3 sourceResyncs P1 P2 P3 σ .zip)
    else σ

def parsePhase (j : Json) : Except String Phase := do
  let n ← getNat j "n"
  let nz ← getBools j "nz"
  return { n := n, f := sumFormula nz }

def run3phase (j : Json) : Except String Json := do
  let ps ← getArr j "phases"
  if ps.size ≠ 3 then throw "expected 3 phases"
  let P1 ← parsePhase ps[0]!
  let P2 ← parsePhase ps[1]!
  let P3 ← parsePhase ps[2]!
  let evs ← getArr j "events"
  let mut σ := St3.init
  let mut attached := false
  let mut delivered := 0
  for e in evs do
    let a ← e.getArr?
    let k ← a[0]!.getStr?
    match k with
    | "D" =>
      let p ← a[1]!.getNat?
      let i ← a[2]!.getNat?
      let ts ← a[3]!.getInt?
      let v ← parseVal a[4]!
      σ := step3 sourceResyncs P1 P2 P3 σ (.ph p (.deliver i ⟨ts, v⟩))
      delivered := delivered + 1
    | "attach" => attached := true
    | _ => throw s!"unknown event {k}"
    if attached then σ := drive3 P1 P2 P3 (4 * delivered + 4) σ
  return Json.mkObj [("out", Json.arr (σ.out.map (fun s =>
    Json.arr #[Json.num (JsonNumber.fromInt s.ts), optJ s.v1, optJ s.v2, optJ s.v3])).toArray)]

/-- Engine with fallback terms: replay of the OBSERVED trace.  Events: ["D",i,tick,val|null] (primary of term i),
["F",i,tick,val|null] (fallback source of term i), ["fetch",i] (a `fetch_next()` of term i completed in the real run),
["attach"] (the consumer attached: the engine task exists from here on), ["quiet"] (the real loop was run until no
task could advance).  The model must be able to take every observed
`fetch` (else its index goes to "bad") and must not be able to advance at a `quiet` point (else "bad" too).
Output: {"out": [[tick,val]…], "fetched": [[i,tick,val]…], "bad": [event index…]} -/
def runFb (j : Json) : Except String Json := do
  let n ← getNat j "n"
  let nz ← getBools j "nz"
  let fb ← getBools j "fb"
  let f := sumFormula nz
  let hasFb : Nat → Bool := fun i => fb.getD i false
  let evs ← getArr j "events"
  let mut σ := FSt.init
  let mut fetched : Array Json := #[]
  let mut bad : Array Json := #[]
  let mut idx := 0
  let mut attached := false
  for e in evs do
    let a ← e.getArr?
    let k ← a[0]!.getStr?
    match k with
    | "D" =>
      let i ← a[1]!.getNat?
      let ts ← a[2]!.getInt?
      let v ← parseVal a[3]!
      σ := stepF n f hasFb σ (.dP i ⟨ts, v⟩)
    | "F" =>
      let i ← a[1]!.getNat?
      let ts ← a[2]!.getInt?
      let v ← parseVal a[3]!
      σ := stepF n f hasFb σ (.dF i ⟨ts, v⟩)
    | "fetch" =>
      let i ← a[1]!.getNat?
      match tryFetch n f hasFb 0 σ i with
      | some (σ', s) =>
        σ := σ'
        fetched := fetched.push (Json.arr #[Json.num (JsonNumber.fromNat i), Json.num (JsonNumber.fromInt s.ts), optJ s.val])
      | none => bad := bad.push (Json.num (JsonNumber.fromNat idx))
    | "attach" => attached := true
    | "quiet" =>
      -- the real evaluator awaits all first fetches concurrently, but fetches one lagging term after the other
      -- while synchronising (in the iteration order of a set): there it is blocked on SOME lagging term
      let ps := (List.range n).filter (fun i => permitted σ i)
      let es := ps.filter (fun i => (tryFetch n f hasFb 0 σ i).isSome)
      let couldAdvance := if σ.sync.isNone then !es.isEmpty else (!ps.isEmpty && es.length == ps.length)
      if attached && couldAdvance then
        bad := bad.push (Json.num (JsonNumber.fromNat idx))
    | _ => throw s!"unknown event {k}"
    idx := idx + 1
  return Json.mkObj [
    ("out", Json.arr (σ.out.map (fun s => Json.arr #[Json.num (JsonNumber.fromInt s.ts), optJ s.val])).toArray),
    ("fetched", Json.arr fetched),
    ("bad", Json.arr bad)]

def runCase (j : Json) : Except String Json := do
  let kind ← getStr j "kind"
  match kind with
  | "single" => runSingle j
  | "3phase" => run3phase j
  | "fb" => runFb j
  | _ => throw s!"unknown kind {kind}"

def main : IO Unit := serve runCase
