/-
Line-protocol driver for the battery status tracker model (C16).  Times are integer microseconds.

common fields: "maxAge","maxBlk","ts0","t0"
  ev  = {"k":"bat"|"inv","now":int,"ts":int,"state":str,"relay":str,"errs":[str],"nan":bool}
      | {"k":"batT"|"invT","now":int} | {"k":"sp","now":int,"succ":bool,"fail":bool}
{"mode":"sync","events":[ev…]}
    -> {"out":[status|null…],"final":fin}            one select-loop iteration per event (`step`)
{"mode":"actor","actions":[{"t":int,"ev":ev-without-now|null}…]}
    -> {"notes":[[t,status]…],"log":[[t,kind]…],"final":fin}
       the data timers are simulated (`astep`): ticks strictly before an action fire first, ticks due at the
       action's instant fire after it (if still due); "ev":null only observes.
{"mode":"exh","alphabet":[letter…],"prefix":[int…],"depth":int}
    letter = ev-without-now/ts + {"dt":int,"delay":int}   (now += dt, ts = now - delay)
    -> {"out":string}   pre-order walk of all extensions of the prefix up to total length `depth`;
                        one char per node: '-' nothing sent, 'N','U','W' the status sent
{"mode":"pool","ops":[{"id":nat,"st":status} | {"get":[nat…]} | {"cur":true}]}
    -> {"out":[{"w":[…],"u":[…]} | [ids…]]}
fin = {"last":status,"batOk":bool,"invOk":bool,"until":int|null,"dur":int,"batReset":int,"invReset":int}
-/
import Frequenz.Model.BatteryStatus
import Frequenz.Model.JsonUtil

open Lean JsonUtil Extracted.BatteryStatus BatteryStatus

def statusStr : Status → String
  | .notWorking => "NOT_WORKING"
  | .uncertain => "UNCERTAIN"
  | .working => "WORKING"

def statusJ : Option Status → Json
  | none => Json.null
  | some s => Json.str (statusStr s)

def parseStatus (s : String) : Except String Status :=
  match s with
  | "NOT_WORKING" => .ok .notWorking
  | "UNCERTAIN" => .ok .uncertain
  | "WORKING" => .ok .working
  | _ => .error s!"bad status {s}"

def intJ (i : Int) : Json := Json.num (JsonNumber.fromInt i)

def finJ (s : Tracker) : Json :=
  Json.mkObj [("last", Json.str (statusStr s.lastStatus)), ("batOk", Json.bool s.battery.lastMsgCorrect),
    ("invOk", Json.bool s.inverter.lastMsgCorrect),
    ("until", match s.blocking.blockedUntil with | none => Json.null | some u => intJ u),
    ("dur", intJ s.blocking.lastBlockingDuration),
    ("batReset", intJ s.battery.timerResetAt), ("invReset", intJ s.inverter.timerResetAt)]

def parseMsgFacts (j : Json) (ts : Int) : Except String Msg := do
  let errs ← getArr j "errs"
  let mut ls : List String := []
  for e in errs do
    ls := ls ++ [← e.getStr?]
  return { timestamp := ts, componentState := ← getStr j "state",
           relayState := (getStr j "relay").toOption.getD "", errorLevels := ls,
           capacityIsNaN := (getBool j "nan").toOption.getD false }

/-- Build an event from its JSON, with the time/timestamp supplied by the caller. -/
def mkEvent (j : Json) (now ts : Int) : Except String Event := do
  let k ← getStr j "k"
  match k with
  | "bat" => return .bat now (← parseMsgFacts j ts)
  | "inv" => return .inv now (← parseMsgFacts j ts)
  | "batT" => return .batTimer now
  | "invT" => return .invTimer now
  | "sp" => return .setPower now { succeeded := ← getBool j "succ", failed := ← getBool j "fail" }
  | _ => throw s!"unknown event kind {k}"

def parseEvent (j : Json) : Except String Event := do
  let now ← getInt j "now"
  let ts := (getInt j "ts").toOption.getD now
  mkEvent j now ts

def newTracker (j : Json) : Except String Tracker := do
  return Tracker.new (← getInt j "maxAge") (← getInt j "maxBlk") (← getInt j "ts0") (← getInt j "t0")

def runSync (j : Json) : Except String Json := do
  let mut s ← newTracker j
  let mut outs : Array Json := #[]
  for ej in ← getArr j "events" do
    let e ← parseEvent ej
    let r := step s e
    s := r.1
    outs := outs.push (statusJ r.2)
  return Json.mkObj [("out", Json.arr outs), ("final", finJ s)]

structure Sim where
  s : Tracker
  notes : Array Json := #[]
  log : Array Json := #[]

def Sim.apply (m : Sim) (e : Event) (kind : String) : Sim :=
  let r := astep m.s e
  { s := r.1,
    notes := match r.2 with
      | none => m.notes
      | some st => m.notes.push (Json.arr #[intJ e.now, Json.str (statusStr st)]),
    log := m.log.push (Json.arr #[intJ e.now, Json.str kind]) }

/-- Fire the data timers whose tick is due before `t` (or at `t` when `incl`), earliest first. -/
partial def Sim.fire (m : Sim) (t : Int) (incl : Bool) : Sim :=
  let db := batDue m.s
  let di := invDue m.s
  let due (d : Int) : Bool := if incl then d ≤ t else d < t
  if m.s.maxDataAge ≤ 0 then m
  else if db ≤ di ∧ due db then (m.apply (.batTimer db) "batT").fire t incl
  else if due di then (m.apply (.invTimer di) "invT").fire t incl
  else m

def runActor (j : Json) : Except String Json := do
  let mut m : Sim := { s := ← newTracker j }
  for aj in ← getArr j "actions" do
    let t ← getInt aj "t"
    m := m.fire t false
    if !(isNull aj "ev") then
      let ej ← aj.getObjVal? "ev"
      let delay := (getInt ej "delay").toOption.getD 0
      let e ← mkEvent ej t (t - delay)
      m := m.apply e (← getStr ej "k")
    m := m.fire t true
  return Json.mkObj [("notes", Json.arr m.notes), ("log", Json.arr m.log), ("final", finJ m.s)]

def statusChar : Option Status → Char
  | none => '-'
  | some .notWorking => 'N'
  | some .uncertain => 'U'
  | some .working => 'W'

partial def walk (letters : Array Json) (depth : Nat) (s : Tracker) (now : Int) (d : Nat) (acc : String) :
    Except String String := do
  if d ≥ depth then return acc
  let mut acc := acc
  for l in letters do
    let now' := now + (← getInt l "dt")
    let delay := (getInt l "delay").toOption.getD 0
    let e ← mkEvent l now' (now' - delay)
    let r := step s e
    acc := acc.push (statusChar r.2)
    acc ← walk letters depth r.1 now' (d + 1) acc
  return acc

def runExh (j : Json) : Except String Json := do
  let letters ← getArr j "alphabet"
  let depth ← getNat j "depth"
  let mut s ← newTracker j
  let mut now ← getInt j "t0"
  let mut d := 0
  for pj in ← getArr j "prefix" do
    let i ← pj.getNat?
    let l := letters[i]!
    now := now + (← getInt l "dt")
    let delay := (getInt l "delay").toOption.getD 0
    let e ← mkEvent l now (now - delay)
    s := (step s e).1
    d := d + 1
  let out ← walk letters depth s now d ""
  return Json.mkObj [("out", Json.str out)]

def sortedNats (xs : List Nat) : Json :=
  Json.arr ((xs.toArray.qsort (· < ·)).map (fun n => Json.num (JsonNumber.fromNat n)))

def runPool (j : Json) : Except String Json := do
  let mut p := Pool.new
  let mut outs : Array Json := #[]
  for oj in ← getArr j "ops" do
    match oj.getObjVal? "get" with
    | .ok g =>
      let arr ← g.getArr?
      let mut req : List Nat := []
      for a in arr do
        req := req ++ [← a.getNat?]
      outs := outs.push (sortedNats (Pool.getWorkingComponents p req))
    | .error _ =>
     if (oj.getObjVal? "cur").isOk then
      outs := outs.push (Json.mkObj [("w", sortedNats p.currentStatus.working), ("u", sortedNats p.currentStatus.uncertain)])
     else
      let id ← getNat oj "id"
      let st ← parseStatus (← getStr oj "st")
      let r := Pool.updateStatus p 0 { componentId := id, value := st }
      p := r.1
      outs := outs.push (match r.2 with
        | none => Json.null
        | some ps => Json.mkObj [("w", sortedNats ps.working), ("u", sortedNats ps.uncertain)])
  return Json.mkObj [("out", Json.arr outs)]

def runCase (j : Json) : Except String Json := do
  let mode ← getStr j "mode"
  match mode with
  | "sync" => runSync j
  | "actor" => runActor j
  | "exh" => runExh j
  | "pool" => runPool j
  | _ => throw s!"unknown mode {mode}"

def main : IO Unit := serve runCase
