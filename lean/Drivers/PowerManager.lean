/-
Line-protocol driver for the PowerManagingActor model (C11).
Input : {"prios":[int,…], "events":[ev,…]}
  ev = {"ev":"proposal","p":proposal,"op":bool} | {"ev":"bounds","sb":sb} | {"ev":"result","kind":"success|partial|error"}
     | {"ev":"drop","now":rat}
Output: {"out":[{"req":rat|null,"reg":rat|null,"op":rat|null,"regRep":[[lo,hi]|null,…],"opRep":[…]},…]}
(reports are listed per priority in "prios"; null for an event that sends no reports)
Optional input "regPrios" / "opPrios" (harness/powerpath*.py: a pool subscribes to the reports of ITS group only):
the priorities for which "regRep" / "opRep" are listed; each defaults to "prios".
-/
import Frequenz.Model.PowerManager
import Frequenz.Model.JsonUtil

open Lean JsonUtil Matryoshka PowerManager

def parseBounds (j : Json) (k : String) : Except String (Option Bounds) := do
  if isNull j k then return none
  let a ← getArr j k
  if a.size ≠ 2 then throw "bounds: expected [lo, hi]"
  let lo ← match a[0]! with | .str s => parseRat s | _ => throw "bounds lo"
  let hi ← match a[1]! with | .str s => parseRat s | _ => throw "bounds hi"
  return some { lower := lo, upper := hi }

def parseSb (j : Json) : Except String SystemBounds := do
  let sb ← j.getObjVal? "sb"
  return { incl := ← parseBounds sb "incl", excl := ← parseBounds sb "excl" }

def parseProposal (j : Json) : Except String Proposal := do
  return { prio := ← getInt j "prio", src := ← getStr j "src", pref := ← getOptRat j "pref",
           lo := ← getOptRat j "lo", hi := ← getOptRat j "hi", created := ← getRat j "created" }

def parseEvent (j : Json) : Except String (Event × Bool) := do
  let ev ← getStr j "ev"
  match ev with
  | "proposal" =>
    let pj ← j.getObjVal? "p"
    return (.proposal (← parseProposal pj) (← getBool j "op"), true)
  | "bounds" => return (.bounds (← parseSb j), true)
  | "result" =>
    let k ← getStr j "kind"
    match k with
    | "success" => return (.result .success, true)
    | "partial" => return (.result .partialFailure, true)
    | "error" => return (.result .error, true)
    | _ => throw s!"unknown result kind {k}"
  | "drop" => return (.drop (← getRat j "now"), false)
  | _ => throw s!"unknown event {ev}"

def boundsJ : Option Bounds → Json
  | none => Json.null
  | some b => Json.arr #[ratJ b.lower, ratJ b.upper]

def runCase (j : Json) : Except String Json := do
  let evs ← getArr j "events"
  let priosJ ← getArr j "prios"
  let prios ← priosJ.toList.mapM (fun p => p.getInt?)
  let optPrios (k : String) : Except String (List Int) :=
    match j.getObjVal? k with
    | .ok (.arr a) => a.toList.mapM (fun p => p.getInt?)
    | _ => pure prios
  let regPrios ← optPrios "regPrios"
  let opPrios ← optPrios "opPrios"
  -- the harness subscribes to the report channels first, which installs the bounds tracker
  let mut st := { State.init with sb := some noBounds }
  let mut outs : Array Json := #[]
  for e in evs do
    let (ev, reports) ← parseEvent e
    let (st', req) := step st ev
    st := st'
    let reps : List (String × Json) :=
      match (if reports then st.sb else none) with
      | none => [("regRep", Json.null), ("opRep", Json.null)]
      | some sb =>
        [("regRep", Json.arr (regPrios.map (fun p => boundsJ (regReport st sb p).2)).toArray),
         ("opRep", Json.arr (opPrios.map (fun p => boundsJ (opReport st sb p).2)).toArray)]
    outs := outs.push (Json.mkObj ([("req", optRatJ req), ("reg", optRatJ st.reg.last),
      ("op", optRatJ st.op.last)] ++ reps))
  return Json.mkObj [("out", Json.arr outs)]

def main : IO Unit := serve runCase
