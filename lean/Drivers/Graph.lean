/-
Line-protocol driver for the component-graph / formula-generator model (C12).
Input line : {"grid":id, "succ":[node,…], "bat":[battery ids]|null, "pv":[inverter ids]|null, "ev":[ids]|null}
  node = {"k":"meter","id":n,"c":[node,…]} | {"k":"batInv","id":n,"bats":[n,…]} | {"k":"pvInv","id":n}
       | {"k":"ev","id":n} | {"k":"chp","id":n}
  "bat"/"pv"/"ev" = an explicit (sub-)pool; null = not requested.
Output line: {"grid":F,"consumer":F,"producer":F,"battery":F,"pv_dfs":F,"pv":F,"ev":F,"chp":F,
              "battery_sub":F|null,"pv_sub":F|null,"ev_sub":F|null,"regimes":{…}}
  F = {"err":"ComponentNotFound"|"FormulaGenerationError"}
    | {"terms":[[sign,id,nones_are_zeros,[[fallback id,nones_are_zeros],…]],…]}   (sorted)
-/
import Frequenz.Model.Graph
import Frequenz.Model.JsonUtil

open Lean JsonUtil Graph

partial def parseNode (j : Json) : Except String Node := do
  let k ← getStr j "k"
  let id ← getNat j "id"
  match k with
  | "meter" =>
    let cs ← getArr j "c"
    let cs ← cs.toList.mapM parseNode
    return .meter id cs
  | "batInv" =>
    let bs ← getArr j "bats"
    let bs ← bs.toList.mapM (fun b => b.getNat?)
    return .batInv id bs
  | "pvInv" => return .pvInv id
  | "ev" => return .ev id
  | "chp" => return .chp id
  | _ => throw s!"unknown node kind {k}"

def optIds (j : Json) (k : String) : Except String (Option (List Nat)) := do
  if isNull j k then return none
  let a ← getArr j k
  let l ← a.toList.mapM (fun b => b.getNat?)
  return some l

def termLt (a b : Graph.Term) : Bool := a.id < b.id || (a.id == b.id && (!a.neg && b.neg))

def termJ (t : Graph.Term) : Json :=
  let fb := (t.fb.toArray.qsort (fun a b => a.1 < b.1)).map (fun p => Json.arr #[toJson p.1, Json.bool p.2])
  Json.arr #[toJson (if t.neg then (-1 : Int) else 1), toJson t.id, Json.bool t.naz, Json.arr fb]

def formulaJ : Formula → Json
  | .error .componentNotFound => Json.mkObj [("err", "ComponentNotFound")]
  | .error .formulaGenerationError => Json.mkObj [("err", "FormulaGenerationError")]
  | .ok ts => Json.mkObj [("terms", Json.arr ((ts.toArray.qsort termLt).map termJ))]

def runCase (j : Json) : Except String Json := do
  let gid ← getNat j "grid"
  let succ ← getArr j "succ"
  let succ ← succ.toList.mapM parseNode
  let g : Grid := ⟨gid, succ⟩
  let bat ← optIds j "bat"
  let pv ← optIds j "pv"
  let ev ← optIds j "ev"
  let allBats := allBatsL g.succ
  let allPv := idsWhereL Node.isPv g.succ
  let allEv := idsWhereL Node.isEv g.succ
  let sub (o : Option (List Nat)) (f : List Nat → Formula) : Json :=
    match o with | none => Json.null | some ids => formulaJ (f ids)
  return Json.mkObj [
    ("grid", formulaJ (gridFormula g)),
    ("consumer", formulaJ (consumerFormula g)),
    ("producer", formulaJ (producerFormula g)),
    ("battery", formulaJ (batteryFormula g allBats)),
    ("pv_dfs", formulaJ (pvFormula g none)),
    ("pv", formulaJ (pvFormula g (some allPv))),
    ("ev", formulaJ (evFormula allEv)),
    ("chp", formulaJ (chpFormula g)),
    ("battery_sub", sub bat (batteryFormula g)),
    ("pv_sub", sub pv (fun ids => pvFormula g (some ids))),
    ("ev_sub", sub ev evFormula),
    ("regimes", Json.mkObj [
      ("grid_meters", Json.bool (areGridMeters g)),
      ("admissible", Json.bool g.admissible),
      ("NoGridMeterMixedMeter", Json.bool (noGridMeterMixedMeter g)),
      ("bat_shared", match bat with | none => Json.null | some ids => Json.bool (subPoolSharedMeter (batSel ids) g)),
      ("pv_shared", match pv with | none => Json.null | some ids => Json.bool (subPoolSharedMeter (pvSel ids) g))])]

def main : IO Unit := serve runCase
