/-
Line-protocol driver for the fallback metric fetcher model (C19).
Input line : {"credits0": n, "events": [["P",tick,val|null] | ["cP"] | ["F",tick,val|null] | ["cF"] | ["req"]]}
The driver is the *eager scheduler* of the real system: a `req` grants one more `fetch_next()` call (the evaluator
only calls again once the other terms of the formula have their sample); after every event `round` events are
issued while a call is granted and can complete.  Everything else is the model's `step`.
Output line: {"rounds": [[tick,val|null] | "None" | "ReceiverError"], "running": bool}
-/
import Frequenz.Model.Fallback
import Frequenz.Model.JsonUtil

open Lean JsonUtil Fallback

def parseSample (a : Array Json) : Except String Sample := do
  if a.size < 3 then throw "sample event: expected [kind, tick, val]"
  let ts ← a[1]!.getInt?
  let v ← match a[2]! with
    | .null => pure none
    | .str s => (parseRat s).map some
    | .num n => if n.exponent = 0 then pure (some (n.mantissa : Rat)) else throw "bad num"
    | _ => throw "bad value"
  return { ts := ts, val := v }

def resJ : Res → Json
  | .sample s => Json.arr #[Json.num (JsonNumber.fromInt s.ts), optRatJ s.val]
  | .none => Json.str "None"
  | .raised => Json.str "ReceiverError"

/-- Issue `round` while a call is granted and can complete (`fuel` = granted calls). -/
def drive : Nat → St → St × Nat
  | 0, σ => (σ, 0)
  | n + 1, σ => if enabled σ then drive n (step σ .round) else (σ, n + 1)

def runCase (j : Json) : Except String Json := do
  let evs ← getArr j "events"
  let mut σ := St.init
  let mut credits ← getNat j "credits0"
  for e in evs do
    let a ← e.getArr?
    let k ← a[0]!.getStr?
    match k with
    | "P" => σ := step σ (.dP (← parseSample a))
    | "F" => σ := step σ (.dF (← parseSample a))
    | "cP" => σ := step σ .cP
    | "cF" => σ := step σ .cF
    | "req" => credits := credits + 1
    | _ => throw s!"unknown event {k}"
    let (σ', c') := drive credits σ
    σ := σ'
    credits := c'
  return Json.mkObj [("rounds", Json.arr (σ.out.map resJ).toArray), ("running", Json.bool σ.running)]

def main : IO Unit := serve runCase
