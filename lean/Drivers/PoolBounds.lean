/-
Line-protocol driver for the pool-bounds model (C17).
Input line : {"groups":[{"bats":[bat,…],"invs":[inv,…]},…], "powers":[rat,…]}
  bat = {"id":n,"working":bool,"has":bool,"soc_ok":bool,"il":rat|null,"el":…,"eu":…,"iu":…}     (null = NaN)
  inv = {"id":n,"has":bool,"il":rat|null,"el":…,"eu":…,"iu":…}
Output line: {"adv": bounds|null,            advertised SystemBounds (null = no bounds)
              "contains":[bool,…],           `Power(p) in system_bounds` per power
              "enf": bounds|null|"unmodelled",  `_get_bounds` of the manager (null = no usable battery set)
              "req":[[a,b],…],               answer per power for adjust_power = true / false: "ok"|"oob"|"error"
              "minp":[consume,supply]|null,  Σ min_power of the pairs, both directions
              "dist":[a,…]}                  answer of the whole `_get_distribution` for every 5th power (adjust = even index)
  bounds = {"il":rat,"el":rat,"eu":rat,"iu":rat}
-/
import Frequenz.Model.PoolBounds
import Frequenz.Model.JsonUtil

open Lean JsonUtil PoolBounds Extracted.Pool

def parseBat (j : Json) : Except String RawBattery := do
  return { id := ← getNat j "id", working := ← getBool j "working", has := ← getBool j "has",
           socOk := ← getBool j "soc_ok",
           il := ← getOptRat j "il", el := ← getOptRat j "el", eu := ← getOptRat j "eu", iu := ← getOptRat j "iu" }

def parseInv (j : Json) : Except String RawInverter := do
  return { id := ← getNat j "id", has := ← getBool j "has",
           il := ← getOptRat j "il", el := ← getOptRat j "el", eu := ← getOptRat j "eu", iu := ← getOptRat j "iu" }

def parseGroup (j : Json) : Except String RawGroup := do
  let bs ← (← getArr j "bats").toList.mapM parseBat
  let is ← (← getArr j "invs").toList.mapM parseInv
  return { bats := bs, invs := is }

def boundsJ (b : PowerBounds) : Json :=
  Json.mkObj [("il", ratJ b.inclusion_lower), ("el", ratJ b.exclusion_lower),
              ("eu", ratJ b.exclusion_upper), ("iu", ratJ b.inclusion_upper)]

def answerJ : Answer → Json
  | .error => "error"
  | .ok => "ok"
  | .outOfBounds => "oob"

def runCase (j : Json) : Except String Json := do
  let gs ← (← getArr j "groups").toList.mapM parseGroup
  let powers ← (← getArr j "powers").toList.mapM fun p =>
    match p with
    | .str s => parseRat s
    | _ => throw "power: expected a rational string"
  let adv := advertisedRaw gs
  let advJ := match adv with | none => Json.null | some b => boundsJ b
  let contains := powers.map fun p => Json.bool (advertisedContains adv p)
  match pairsRaw gs with
  | .error _ =>
    return Json.mkObj [("adv", advJ), ("contains", Json.arr contains.toArray), ("enf", "unmodelled"),
                       ("req", Json.arr #[]), ("minp", Json.null), ("dist", Json.arr #[])]
  | .ok pairs =>
    let enfJ := if pairs.length = 0 then Json.null else boundsJ (getBounds (plain pairs))
    let req := powers.map fun p => Json.arr #[answerJ (answer (plain pairs) p true), answerJ (answer (plain pairs) p false)]
    let minp := if pairs.length = 0 then Json.null
                else Json.arr #[ratJ (sumMinPowerIds false pairs), ratJ (sumMinPowerIds true pairs)]
    let dist := (powers.zipIdx.filter fun (_, k) => k % 5 = 0).map fun (p, k) => answerJ (answer (plain pairs) p (k % 2 = 0))
    return Json.mkObj [("adv", advJ), ("contains", Json.arr contains.toArray), ("enf", enfJ),
                       ("req", Json.arr req.toArray), ("minp", minp), ("dist", Json.arr dist.toArray)]

def main : IO Unit := serve runCase
