/-
Line-protocol driver for the Matryoshka model (C03, C04).
Input line : {"ops":[op,…]}            (a fresh manager per line)
  op = {"op":"calc","p":proposal|null,"sb":sb,"must":bool}  -> target | null
     | {"op":"drop","now":rat,"maxAge":rat}                 -> null
     | {"op":"status","prio":int,"sb":sb}                   -> {"target":…,"lo":…,"hi":…} (lo/hi null without inclusion bounds)
     | {"op":"adjust","prio":int,"sb":sb,"power":rat}       -> [lo|null, hi|null]
     | {"op":"get"}                                         -> last target | null
  sb = {"incl":[lo,hi]|null,"excl":[lo,hi]|null}
  proposal = {"prio":int,"src":str,"pref":rat|null,"lo":rat|null,"hi":rat|null,"created":rat}
Output line: {"out":[…]}
-/
import Frequenz.Model.Matryoshka
import Frequenz.Model.JsonUtil

open Lean JsonUtil Matryoshka

def parseBounds (j : Json) (k : String) : Except String (Option Bounds) := do
  if isNull j k then return none
  let a ← getArr j k
  if a.size ≠ 2 then throw "bounds: expected [lo, hi]"
  let lo ← match a[0]! with | .str s => parseRat s | _ => throw "bounds lo"
  let hi ← match a[1]! with | .str s => parseRat s | _ => throw "bounds hi"
  return some { lower := lo, upper := hi }

def parseSb (j : Json) : Except String SystemBounds := do
  let sb ← j.getObjVal? "sb"
  return { incl := ← parseBounds sb "incl", excl := ← parseBounds sb "excl" }

def parseProposal (j : Json) : Except String Proposal := do
  return { prio := ← getInt j "prio", src := ← getStr j "src", pref := ← getOptRat j "pref",
           lo := ← getOptRat j "lo", hi := ← getOptRat j "hi", created := ← getRat j "created" }

def runOp (m : Mgr) (j : Json) : Except String (Mgr × Json) := do
  let op ← getStr j "op"
  match op with
  | "calc" =>
    let p ← if isNull j "p" then pure none else (do let pj ← j.getObjVal? "p"; pure (some (← parseProposal pj)))
    let sb ← parseSb j
    let must ← getBool j "must"
    let (m', r) := m.calc p sb must
    return (m', optRatJ r)
  | "drop" =>
    return (m.drop (← getRat j "maxAge") (← getRat j "now"), Json.null)
  | "status" =>
    let sb ← parseSb j
    let prio ← getInt j "prio"
    let rb := reportBounds sb (m.bucket.getD []) prio
    return (m, Json.mkObj [("target", optRatJ m.last),
      ("lo", optRatJ (rb.map (·.lower))), ("hi", optRatJ (rb.map (·.upper)))])
  | "adjust" =>
    let sb ← parseSb j
    let prio ← getInt j "prio"
    let rb := reportBounds sb (m.bucket.getD []) prio
    let r := adjustToBounds rb sb.excl (← getRat j "power")
    return (m, Json.arr #[optRatJ r.1, optRatJ r.2])
  | "get" => return (m, optRatJ m.last)
  | _ => throw s!"unknown op {op}"

def runCase (j : Json) : Except String Json := do
  let ops ← getArr j "ops"
  let mut m := Mgr.init
  let mut outs : Array Json := #[]
  for o in ops do
    let (m', r) ← runOp m o
    m := m'
    outs := outs.push r
  return Json.mkObj [("out", Json.arr outs)]

def main : IO Unit := serve runCase
