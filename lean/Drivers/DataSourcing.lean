/-
Line-protocol driver for the DataSourcing model (C20).
Input line : {"components":[[cid,"CATEGORY"],…], "events":[ev,…], "channels":[chan,…]}
  ev   = {"e":"request","ns":str,"cid":nat,"metric":str,"start":str|null}     (start = str(start_time), as in the channel name)
       | {"e":"message","cid":nat,"ts":int,"fields":[[attr,[rat|null,…]],…]}
       | {"e":"start","cid":nat} | {"e":"take","cid":nat}
  chan = {"ns":str,"cid":nat,"metric":str,"start":str|null}
Output line: {"delivered":[[[ts,value|null],…] per channel of "channels"],
              "stuck":n,                       (events whose guard was false)
              "subs":[[cid,[[metric,[[ns,start],…]],…]],…]   per listed component, registration order
              "queued":[[cid,n],…]}            messages still buffered per listed component
-/
import Frequenz.Model.DataSourcing
import Frequenz.Model.JsonUtil

open Lean JsonUtil DataSourcing

def parseOptStr (j : Json) (k : String) : Except String (Option String) :=
  if isNull j k then pure none else do return some (← getStr j k)

def parseChan (j : Json) : Except String Chan := do
  return { ns := ← getStr j "ns", cid := ← getNat j "cid", metric := ← getStr j "metric",
           start := ← parseOptStr j "start" }

def parseVal : Json → Except String (Option Rat)
  | .null => pure none
  | .str s => do return some (← parseRat s)
  | _ => throw "field value: expected rational string or null"

def parseField (j : Json) : Except String (String × List (Option Rat)) := do
  let a ← j.getArr?
  if a.size ≠ 2 then throw "field: expected [attr, values]"
  let name ← a[0]!.getStr?
  let vs ← a[1]!.getArr?
  return (name, (← vs.toList.mapM parseVal))

def parseEvent (j : Json) : Except String Event := do
  let e ← getStr j "e"
  match e with
  | "request" => return .request (← parseChan j)
  | "message" =>
    let fs ← getArr j "fields"
    return .message (← getNat j "cid") { ts := ← getInt j "ts", fields := ← fs.toList.mapM parseField }
  | "start" => return .start (← getNat j "cid")
  | "take" => return .take (← getNat j "cid")
  | _ => throw s!"unknown event {e}"

def parseComponent (j : Json) : Except String (Nat × String) := do
  let a ← j.getArr?
  if a.size ≠ 2 then throw "component: expected [cid, category]"
  return (← a[0]!.getNat?, ← a[1]!.getStr?)

def sampleJ (s : Sample) : Json := Json.arr #[Json.num (JsonNumber.fromInt s.ts), optRatJ s.value]

def optStrJ : Option String → Json
  | none => Json.null
  | some s => Json.str s

def subsJ (g : Subs) : Json :=
  Json.arr (g.map fun p =>
    Json.arr #[Json.str p.1, Json.arr (p.2.map fun c => Json.arr #[Json.str c.ns, optStrJ c.start]).toArray]).toArray

def runCase (j : Json) : Except String Json := do
  let comps ← (← getArr j "components").toList.mapM parseComponent
  let evs ← (← getArr j "events").toList.mapM parseEvent
  let chans ← (← getArr j "channels").toList.mapM parseChan
  let cfg : Config := ⟨comps⟩
  let r := exec cfg State.init evs
  let deliveredJ := chans.map fun ch => Json.arr ((delivered ch r.2).map sampleJ).toArray
  let cids := comps.map (·.1)
  return Json.mkObj [
    ("delivered", Json.arr deliveredJ.toArray),
    ("stuck", Json.num (JsonNumber.fromNat (stuck cfg State.init evs))),
    ("subs", Json.arr (cids.map fun c => Json.arr #[Json.num (JsonNumber.fromNat c), subsJ (r.1.comps c).subs]).toArray),
    ("queued", Json.arr (cids.map fun c =>
      Json.arr #[Json.num (JsonNumber.fromNat c), Json.num (JsonNumber.fromNat (r.1.comps c).queue.length)]).toArray)]

def main : IO Unit := serve runCase
