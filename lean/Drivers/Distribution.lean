/-
Line-protocol driver for the battery distribution model (C01, C02).
Input line : {"power":rat,"exp":nat,"failed":rat|null,
              "groups":[{"bats":[{"id":int,"cap":rat,"soc":rat,"soc_lo":rat,"soc_hi":rat,"il":rat,"el":rat,"eu":rat,"iu":rat}],
                         "invs":[{"id":int,"il":rat,"el":rat,"eu":rat,"iu":rat}]}]}     (invs in frozenset iteration order)
Output line: {"dist":{"<inverter id>":rat},"rem":rat,"flags":[str],"consistent":bool,"admitted":bool (pool-advertised bounds),
              "manager_admits":bool (BatteryManager._check_request), "mgr":{"succeeded":rat,"failed":rat,"excess":rat}}
           | {"error":"ValueError","consistent":bool,"admitted":bool}
-/
import Frequenz.Model.Distribution
import Frequenz.Model.JsonUtil

open Lean JsonUtil Dist

def parseBat (j : Json) : Except String Bat := do
  return { id := ← getInt j "id", cap := ← getRat j "cap", soc := ← getRat j "soc", socLo := ← getRat j "soc_lo",
           socHi := ← getRat j "soc_hi", il := ← getRat j "il", el := ← getRat j "el", eu := ← getRat j "eu",
           iu := ← getRat j "iu" }

def parseInv (j : Json) : Except String Inv := do
  return { id := ← getInt j "id", il := ← getRat j "il", el := ← getRat j "el", eu := ← getRat j "eu",
           iu := ← getRat j "iu" }

def parseGroup (j : Json) : Except String Group := do
  let bs ← (← getArr j "bats").toList.mapM parseBat
  let is ← (← getArr j "invs").toList.mapM parseInv
  if bs.isEmpty || is.isEmpty then throw "empty battery or inverter set"
  return { bats := bs, invs := is }

def flagNames (f : Flags) : List String :=
  (if f.adjust then ["adjust"] else []) ++ (if f.splitInfeasible then ["split_infeasible"] else []) ++
  (if f.overcommit then ["overcommit"] else []) ++ (if f.iscloseCover then ["isclose_cover"] else []) ++
  (if f.exp0 then ["exp0"] else []) ++ (if f.zeroRatioMin then ["zero_ratio_min"] else [])

def runCase (j : Json) : Except String Json := do
  let gs ← (← getArr j "groups").toList.mapM parseGroup
  let inp : Input := { power := ← getRat j "power", exp := ← getNat j "exp", groups := gs }
  let failed ← getOptRat j "failed"
  let dom := [("consistent", Json.bool (decide (Consistent inp))), ("admitted", Json.bool (decide (Admitted inp))),
    ("manager_admits", Json.bool (decide (ManagerAdmits inp)))]
  match distribute inp with
  | none => return Json.mkObj ([("error", Json.str "ValueError")] ++ dom)
  | some o =>
    let r := report inp.power o.rem failed
    return Json.mkObj ([
      ("dist", Json.mkObj (o.setpoints.map fun x => (toString x.1.id, ratJ x.2))),
      ("rem", ratJ o.rem),
      ("flags", Json.arr ((flagNames o.flags).map Json.str).toArray),
      ("mgr", Json.mkObj [("succeeded", ratJ r.succeeded), ("failed", ratJ r.failed), ("excess", ratJ r.excess)])] ++ dom)

def main : IO Unit := serve runCase
