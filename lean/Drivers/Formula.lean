/-
Line-protocol driver for the formula-engine model (C05, C13).

Input line (one JSON object), by "kind":
  "tokenize": {"s": str}                                   -> {"toks":[["m",digits]|["o",char],…]} | {"err":"ValueError"}
  "build"   : {"toks":[tok,…]}                             -> {"steps":[str,…]}
  "run"     : {"toks":[tok,…], "rounds":[round,…]}         -> {"steps":[…], "out":[[ts, rat|null],…]}
  "string"  : {"s": str, "z": bool, "zids":[id,…], "rounds":[…]}   (flag of id = z, flipped for ids in zids)
                                                           -> {"steps":[…], "out":[…]} | {"err":"ValueError"}
  "ho"      : {"tree": ho, "z": bool, "rounds":[…]}        -> {"toks":[str,…], "steps":[…], "out":[…]}
  tok   = {"t":"m","n":nat,"z":bool} | {"t":"c","c":rat} | {"t":"o","o":opstr} | {"t":"clip","lo":rat|null,"hi":rat|null}
  round = {"ts": int, "env": {"<id>": null | "nan" | "inf" | "-inf" | rat}}   (ids not listed: null)
  ho    = {"start":n} | {"b":ho,"o":opstr,"eng":n} | {"b":ho,"o":opstr,"const":rat} | {"b":ho,"o":opstr,"r":ho} | {"b":ho,"un":opstr}
A round in which an exception escapes the steps emits nothing (the engine loop swallows it).
Steps are printed as  "#n" / "#n:z" (nones_are_zeros) , "c:<rat>", the operator string, "clip(<lo>,<hi>)".
-/
import Frequenz.Model.Shunting
import Frequenz.Model.JsonUtil

open Lean JsonUtil Formula

def opStr : Op → String
  | .max => "max" | .min => "min" | .cons => "consumption" | .prod => "production" | .lp => "("
  | .div => "/" | .mul => "*" | .sub => "-" | .add => "+" | .rp => ")"

def parseOp (s : String) : Except String Op :=
  match s with
  | "max" => .ok .max | "min" => .ok .min | "consumption" => .ok .cons | "production" => .ok .prod
  | "(" => .ok .lp | "/" => .ok .div | "*" => .ok .mul | "-" => .ok .sub | "+" => .ok .add | ")" => .ok .rp
  | _ => .error s!"unknown operator {s}"

def parseBinOp (s : String) : Except String BinOp :=
  match s with
  | "max" => .ok .max | "min" => .ok .min | "/" => .ok .div | "*" => .ok .mul | "-" => .ok .sub | "+" => .ok .add
  | _ => .error s!"not a binary operator {s}"

def parseUnOp (s : String) : Except String UnOp :=
  match s with
  | "consumption" => .ok .cons | "production" => .ok .prod
  | _ => .error s!"not a unary operator {s}"

def optRatStr : Option Rat → String
  | none => "None"
  | some r => ratStr r

def stepStr : Step → String
  | .metric n z => if z then s!"#{n}:z" else s!"#{n}"
  | .const c => s!"c:{ratStr c}"
  | .op o => opStr o
  | .clip lo hi => s!"clip({optRatStr lo},{optRatStr hi})"

def tokStr : Tok → String
  | .metric n _ => s!"#{n}"
  | .const c => s!"c:{ratStr c}"
  | .oper o => opStr o
  | .clip lo hi => s!"clip({optRatStr lo},{optRatStr hi})"

def parseTok (j : Json) : Except String Tok := do
  match ← getStr j "t" with
  | "m" => return .metric (← getNat j "n") (← getBool j "z")
  | "c" => return .const (← getRat j "c")
  | "o" => return .oper (← parseOp (← getStr j "o"))
  | "clip" => return .clip (← getOptRat j "lo") (← getOptRat j "hi")
  | t => throw s!"unknown token kind {t}"

def parseInp (j : Json) : Except String Inp :=
  match j with
  | .null => .ok .none
  | .str "nan" => .ok .nan
  | .str "inf" => .ok (.inf false)
  | .str "-inf" => .ok (.inf true)
  | .str s => (parseRat s).map Inp.val
  | _ => .error "bad input value"

def parseRound (j : Json) : Except String (Int × Env) := do
  let ts ← getInt j "ts"
  let envJ ← j.getObjVal? "env"
  let obj ← envJ.getObj?
  let mut tab : List (Nat × Inp) := []
  for ⟨k, v⟩ in obj.toList do
    match k.toNat? with
    | some n => tab := (n, ← parseInp v) :: tab
    | none => throw s!"bad id {k}"
  let t := tab
  return (ts, fun n => (t.lookup n).getD .none)

def parseRounds (j : Json) : Except String (List (Int × Env)) := do
  let a ← getArr j "rounds"
  a.toList.mapM parseRound

def samplesJ (ss : List Sample) : Json :=
  Json.arr (ss.map fun s => Json.arr #[Json.num (JsonNumber.fromInt s.ts), optRatJ s.value]).toArray

def stepsJ (ss : List Step) : Json := Json.arr (ss.map fun s => Json.str (stepStr s)).toArray

partial def parseHO (j : Json) : Except String HO := do
  match j.getObjVal? "start" with
  | .ok v => return .start (← v.getNat?)
  | .error _ =>
    let b ← parseHO (← j.getObjVal? "b")
    match j.getObjVal? "un" with
    | .ok u => return .un b (← parseUnOp (← u.getStr?))
    | .error _ =>
      let o ← parseBinOp (← getStr j "o")
      match j.getObjVal? "eng" with
      | .ok n => return .pushEng b o (← n.getNat?)
      | .error _ =>
        match j.getObjVal? "const" with
        | .ok _ => return .pushConst b o (← getRat j "const")
        | .error _ => return .pushB b o (← parseHO (← j.getObjVal? "r"))

def rawJ : RawTok → Json
  | .metric ds => Json.arr #[Json.str "m", Json.str (String.ofList ds)]
  | .oper c => Json.arr #[Json.str "o", Json.str (String.singleton c)]

def runCase (j : Json) : Except String Json := do
  match ← getStr j "kind" with
  | "tokenize" =>
    let s ← getStr j "s"
    match tokenize s.toList with
    | none => return Json.mkObj [("err", Json.str "ValueError")]
    | some ts => return Json.mkObj [("toks", Json.arr (ts.map rawJ).toArray)]
  | "build" =>
    let toks ← (← getArr j "toks").toList.mapM parseTok
    return Json.mkObj [("steps", stepsJ (build toks))]
  | "run" =>
    let toks ← (← getArr j "toks").toList.mapM parseTok
    let rounds ← parseRounds j
    let steps := build toks
    return Json.mkObj [("steps", stepsJ steps), ("out", samplesJ (engineRun steps rounds))]
  | "string" =>
    let s ← getStr j "s"
    let z ← getBool j "z"
    let zids ← (← getArr j "zids").toList.mapM (·.getNat?)
    let zf : Nat → Bool := fun n => if zids.contains n then !z else z
    let rounds ← parseRounds j
    match fromString s.toList zf with
    | none => return Json.mkObj [("err", Json.str "ValueError")]
    | some steps => return Json.mkObj [("steps", stepsJ steps), ("out", samplesJ (engineRun steps rounds))]
  | "ho" =>
    let h ← parseHO (← j.getObjVal? "tree")
    let z ← getBool j "z"
    let rounds ← parseRounds j
    let steps := hoBuild h z
    return Json.mkObj [("toks", Json.arr ((h.toks z).map fun t => Json.str (tokStr t)).toArray),
      ("steps", stepsJ steps), ("out", samplesJ (engineRun steps rounds))]
  | k => throw s!"unknown kind {k}"

def main : IO Unit := serve runCase
