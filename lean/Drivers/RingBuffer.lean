/-
Line-protocol driver for the ring-buffer model (C09).
Input line : {"cap":n,"period":µs,"align":µs,"init":[rat|null,…  (len = cap)],
              "ops":[{"ts":µs,"v":rat|null}, …],          (a fresh buffer per line; v = null: None / NaN)
              "q":[query, …]}                             (evaluated on the final state)
  query = {"k":"widx","i":int|null,"j":int|null,"fill":F}  -> [rat|null, …]      window(i, j, fill_value=F)
        | {"k":"wts","a":µs,"b":µs,"fill":F}               -> [rat|null, …]      window(dt a, dt b, fill_value=F)
        | {"k":"ati","i":int}                              -> rat | null | "IndexError"   MovingWindow.at(i)
        | {"k":"att","t":µs}                               -> rat | null | "IndexError"   MovingWindow.at(dt t)
  F = null (NaN, the default) | "raw" (fill_value=None) | rat
Output line: {"steps":[{"rej":bool,"gaps":[[µs,µs],…],"cv":int,"cc":int,"old":µs|null,"new":µs|null}, …],"q":[…]}
-/
import Frequenz.Model.RingBufferQuery
import Frequenz.Model.JsonUtil

open Lean JsonUtil RingBuffer

def optIntJ : Option Int → Json
  | none => Json.null
  | some i => Json.num (JsonNumber.fromInt i)

def intJ (i : Int) : Json := Json.num (JsonNumber.fromInt i)

def getOptInt (j : Json) (k : String) : Except String (Option Int) :=
  match j.getObjVal? k with
  | .error _ => .ok none
  | .ok .null => .ok none
  | .ok v => (v.getInt?).map some

def parseFill (j : Json) : Except String (Option (Option Rat)) :=
  match j.getObjVal? "fill" with
  | .error _ => .ok (some none)
  | .ok .null => .ok (some none)
  | .ok (.str "raw") => .ok none
  | .ok (.str s) => (parseRat s).map (fun r => some (some r))
  | .ok _ => .error "fill"

def valsJ (l : List (Option Rat)) : Json := Json.arr (l.map optRatJ).toArray

def atJ : AtResult Rat → Json
  | .indexError => Json.str "IndexError"
  | .value v => optRatJ v

def observe (c : Cfg) (s : State Rat) (rej : Bool) : Json :=
  Json.mkObj [
    ("rej", Json.bool rej),
    ("gaps", Json.arr (s.gaps.map (fun g => Json.arr #[intJ (slotTime c g.1), intJ (slotTime c g.2)])).toArray),
    ("cv", intJ (countValid s)),
    ("cc", intJ (countCovered s)),
    ("old", optIntJ ((oldestTs s).map (slotTime c))),
    ("new", optIntJ ((newestTs s).map (slotTime c)))]

def runQuery (c : Cfg) (s : State Rat) (q : Json) : Except String Json := do
  let k ← getStr q "k"
  match k with
  | "widx" => return valsJ (windowIdx c s (← getOptInt q "i") (← getOptInt q "j") (← parseFill q))
  | "wts" => return valsJ (windowTs c s (← getInt q "a") (← getInt q "b") (← parseFill q))
  | "ati" => return atJ (atIndex s (← getInt q "i"))
  | "att" => return atJ (atTs c s (← getInt q "t"))
  | _ => throw s!"unknown query {k}"

def runCase (j : Json) : Except String Json := do
  let c : Cfg := { align := ← getInt j "align", period := ← getInt j "period" }
  let initJ ← getArr j "init"
  let mut buf : List (Option Rat) := []
  for x in initJ do
    match x with
    | .null => buf := buf ++ [none]
    | .str t => buf := buf ++ [some (← parseRat t)]
    | _ => throw "init"
  let cap ← getNat j "cap"
  if buf.length ≠ cap ∨ cap = 0 then throw "init length"
  let mut s : State Rat := State.init buf
  let mut steps : Array Json := #[]
  for o in (← getArr j "ops") do
    let (s', rej) := update c s (← getInt o "ts") (← getOptRat o "v")
    s := s'
    steps := steps.push (observe c s rej)
  let mut qs : Array Json := #[]
  for q in (← getArr j "q") do
    qs := qs.push (← runQuery c s q)
  return Json.mkObj [("steps", Json.arr steps), ("q", Json.arr qs)]

def main : IO Unit := serve runCase
