/-
Line-protocol driver for the request-scheduling model (C14).
Input line : {"groups":[g,…], "events":[ev,…]}        (a fresh actor per line)
  ev = {"e":"arrive","g":nat,"r":nat,"p":int,"adj":bool} | {"e":"complete","g":nat,"o":"ok"|"exc"} | {"e":"snap"}
       (a request = identity `r` of the Request object + its fields: power `p` in W, adjust_power `adj`)
Output line: {"starts":[[g,r,p,adj],…]      all `start` outputs (whole requests), in order
              "snaps":[{"processing":[r|null per group],"pending":[[r,p,adj]|null per group]},…]   one per "snap"
              "inflight":[n per group]}   observable count (starts − completions) at the end
-/
import Frequenz.Model.Distributor
import Frequenz.Model.JsonUtil

open Lean JsonUtil Distributor

def optIdJ : Option Req → Json
  | none => Json.null
  | some r => Json.num (r.id : Int)

def optReqJ : Option Req → Json
  | none => Json.null
  | some r => Json.arr #[Json.num (r.id : Int), Json.num r.power, Json.bool r.adjust]

def outJ : Out → Json
  | .start g r => Json.arr #[Json.num (g : Int), Json.num (r.id : Int), Json.num r.power, Json.bool r.adjust]

def runCase (j : Json) : Except String Json := do
  let groupsJ ← getArr j "groups"
  let groups ← groupsJ.toList.mapM (fun x => x.getNat?)
  let evs ← getArr j "events"
  let mut s := init
  let mut done : List Event := []
  let mut outs : Array Json := #[]
  let mut snaps : Array Json := #[]
  for ev in evs do
    let kind ← getStr ev "e"
    match kind with
    | "arrive" =>
      let e := Event.arrive (← getNat ev "g")
        { id := (← getNat ev "r"), power := (← getInt ev "p"), adjust := (← getBool ev "adj") }
      let r := step s e
      s := r.1
      done := done ++ [e]
      outs := outs ++ (r.2.map outJ).toArray
    | "complete" =>
      let o ← getStr ev "o"
      let oc ← match o with
        | "ok" => pure Outcome.ok
        | "exc" => pure Outcome.exc
        | _ => throw s!"unknown outcome {o}"
      let e := Event.complete (← getNat ev "g") oc
      let r := step s e
      s := r.1
      done := done ++ [e]
      outs := outs ++ (r.2.map outJ).toArray
    | "snap" =>
      snaps := snaps.push (Json.mkObj [
        ("processing", Json.arr (groups.map (fun g => optIdJ (s.processing g))).toArray),
        ("pending", Json.arr (groups.map (fun g => optReqJ (s.pending g))).toArray)])
    | _ => throw s!"unknown event {kind}"
  let t := trace done
  return Json.mkObj [("starts", Json.arr outs), ("snaps", Json.arr snaps),
    ("inflight", Json.arr (groups.map (fun g => Json.num (inFlight g t))).toArray)]

def main : IO Unit := serve runCase
