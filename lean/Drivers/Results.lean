/-
Line-protocol driver for the result-accounting model (C15).
Input line (batteries):
  {"kind":"battery","P":rat,"remaining":rat,"timeout":int µs,
   "dist":[[inverter,rat],…]            set-points in dict order
   "inv_bats":[[inverter,[battery,…]],…]
   "calls":[{"kind":"ok|outOfRange|clientError|exception|timeout","delay":int µs},…]   one per entry of dist}
Input line (PV):
  {"kind":"pv","P":rat,"timeout":int µs,
   "invs":[[id,lowerBound],…]           working inverters in iteration order (before the sort)
   "calls":[[id,{"kind":…,"delay":…}],…]}
Output line:
  {"calls":[[component,rat],…],          the `set_power` calls, in order
   "result":"Success"|"PartialFailure"|null,   null = no result is sent
   "succeeded_power":rat,"succeeded":[ids sorted],"failed_power":rat|null,"failed":[ids sorted]|null,"excess":rat}
-/
import Frequenz.Model.Results
import Frequenz.Model.JsonUtil

open Lean JsonUtil Results Extracted.Distributor

def parseOutcome (s : String) : Except String Outcome :=
  match s with
  | "ok" => pure .ok
  | "outOfRange" => pure .outOfRange
  | "clientError" => pure .clientError
  | "exception" => pure .exception
  | "timeout" => pure .timeout
  | _ => throw s!"unknown outcome {s}"

def parseCall (j : Json) : Except String Call := do
  return { kind := ← parseOutcome (← getStr j "kind"), delay := ← getInt j "delay" }

def elemRat (j : Json) : Except String Rat :=
  match j with
  | .str s => parseRat s
  | .num n => if n.exponent = 0 then pure (n.mantissa : Rat) else throw "bad number"
  | _ => throw "rational expected"

def sortedIds (l : List Nat) : Json :=
  Json.arr ((l.eraseDups.mergeSort (fun a b => decide (a ≤ b))).map (fun (n : Nat) => Json.num (Int.ofNat n))).toArray

def callsJ (l : List (Nat × Rat)) : Json :=
  Json.arr (l.map (fun c => Json.arr #[Json.num (Int.ofNat c.1), ratJ c.2])).toArray

def resultJ (calls : List (Nat × Rat)) : Option Result → Json
  | none => Json.mkObj [("calls", callsJ calls), ("result", Json.null)]
  | some r =>
    Json.mkObj [("calls", callsJ calls),
      ("result", Json.str (if r.partialFailure then "PartialFailure" else "Success")),
      ("succeeded_power", ratJ r.succeededPower), ("succeeded", sortedIds r.succeeded),
      ("failed_power", if r.partialFailure then ratJ r.failedPower else Json.null),
      ("failed", if r.partialFailure then sortedIds r.failed else Json.null),
      ("excess", ratJ r.excess)]

def runCase (j : Json) : Except String Json := do
  let kind ← getStr j "kind"
  let P ← getRat j "P"
  let timeout ← getInt j "timeout"
  match kind with
  | "battery" =>
    let remaining ← getRat j "remaining"
    let distJ ← getArr j "dist"
    let callsA ← getArr j "calls"
    if distJ.size ≠ callsA.size then throw "dist and calls differ in length"
    let ibJ ← getArr j "inv_bats"
    let ibList ← ibJ.toList.mapM (fun e => do
      let a ← e.getArr?
      let inv ← a[0]!.getNat?
      let bs ← (← a[1]!.getArr?).toList.mapM (fun b => b.getNat?)
      pure (inv, bs))
    let ib : Nat → List Nat := fun i => (ibList.lookup i).getD []
    let mut sps : List SetPoint := []
    for k in [0:distJ.size] do
      let a ← distJ[k]!.getArr?
      let c ← parseCall callsA[k]!
      sps := sps ++ [{ inv := ← a[0]!.getNat?, power := ← elemRat a[1]!, outcome := effective timeout c }]
    return resultJ (sps.map (fun sp => (sp.inv, sp.power))) (batResult P remaining ib sps)
  | "pv" =>
    let invsJ ← getArr j "invs"
    let invs ← invsJ.toList.mapM (fun e => do
      let a ← e.getArr?
      pure ({ id := ← a[0]!.getNat?, bound := ← elemRat a[1]! } : PvInv))
    let callsA ← getArr j "calls"
    let callList ← callsA.toList.mapM (fun e => do
      let a ← e.getArr?
      pure (← a[0]!.getNat?, ← parseCall a[1]!))
    let oc : Nat → Outcome := fun i => match callList.lookup i with
      | some c => effective timeout c
      | none => Outcome.ok
    match pvDistribute P invs oc with
    | none => return Json.mkObj [("calls", Json.arr #[]), ("result", Json.null)]
    | some (calls, r) => return resultJ calls r
  | _ => throw s!"unknown kind {kind}"

def main : IO Unit := serve runCase
