/-
Line-protocol driver for the resampler models (C07, C08).

{"kind":"loop","period":µs,"align":µs|null,"now":wall µs at creation,"loop0":loop µs at creation,
 "actions":[{"t":loop µs,"op":"add","s":id,"d":sink latency µs} | {"t":…,"op":"remove","s":id}
            | {"t":…,"op":"lat","s":id,"d":µs} | {"t":…,"op":"hog","d":µs} | {"t":…,"op":"fail","s":id,…}
            | {"t":…,"op":"send",…} (ignored)],
 "end":loop µs}
   -> {"w0":…, "first_due":…, "ticks":[[fire, timestamp, [series…]], …] (ticks with at least one recipient), "dead":bool,
       "restarts": number of ResamplingErrors recovered the way the resampling actor does}

{"kind":"helper","period":µs,"max_age":"n/d","init_len":n,"max_len":n,
 "events":[{"op":"recv"|"add","ts":µs,"id":n,"none":bool,"nan":bool,"inf":bool} | {"op":"tick","T":µs,"est":µs|null}]}
   -> {"ticks":[{"rel":[id…],"none":bool,"err":bool,"maxlen":n,"ip":µs|null}, …], "buf":[id…]}
-/
import Frequenz.Model.Resampler
import Frequenz.Model.ResamplingHelper
import Frequenz.Model.JsonUtil

open Lean JsonUtil

def getOptInt (j : Json) (k : String) : Except String (Option Int) :=
  match j.getObjVal? k with
  | .error _ => .ok none
  | .ok .null => .ok none
  | .ok v => v.getInt?.map some

def intJ (i : Int) : Json := Json.num (JsonNumber.fromInt i)

def optIntJ : Option Int → Json
  | none => Json.null
  | some i => intJ i

def parseAction (j : Json) : Except String (Option (Int × Resampler.Action)) := do
  let t ← getInt j "t"
  let op ← getStr j "op"
  match op with
  | "add" => return some (t, .add (← getNat j "s") ((← getOptInt j "d").getD 0))
  | "remove" => return some (t, .remove (← getNat j "s"))
  | "lat" => return some (t, .lat (← getNat j "s") (← getInt j "d"))
  | "hog" => return some (t, .hog (← getInt j "d"))
  | "fail" => return some (t, .fail (← getNat j "s"))
  | "send" => return none
  | _ => throw s!"unknown action {op}"

def runLoop (j : Json) : Except String Json := do
  let period ← getInt j "period"
  if period ≤ 0 then throw "period must be positive"
  let align ← getOptInt j "align"
  let now ← getInt j "now"
  let loop0 ← getInt j "loop0"
  let endT ← getInt j "end"
  let mut acts : List (Int × Resampler.Action) := []
  for a in (← getArr j "actions") do
    match ← parseAction a with
    | some ta => acts := acts ++ [ta]
    | none => pure ()
  let we := Extracted.Resampling.calculateWindowEnd now period align
  let sim := Resampler.simulate period align now loop0 acts endT
  let ticks := sim.out.filter (fun r => !r.tick.recipients.isEmpty)
  return Json.mkObj [
    ("w0", intJ we.1),
    ("first_due", intJ (Extracted.Resampling.firstTickTime loop0 period we.2)),
    ("ticks", Json.arr (ticks.map (fun r => Json.arr #[intJ r.fire, intJ r.tick.ts,
        Json.arr (r.tick.recipients.map (fun s => intJ (s : Nat))).toArray])).toArray),
    ("dead", Json.bool sim.st.dead),
    ("restarts", intJ (sim.restarts : Nat))]

open ResamplingHelper in
def parseSample (j : Json) : Except String Sample := do
  return { ts := ← getInt j "ts", id := ← getNat j "id",
           isNone := (j.getObjValAs? Bool "none").toOption.getD false,
           isNaN := (j.getObjValAs? Bool "nan").toOption.getD false,
           isInf := (j.getObjValAs? Bool "inf").toOption.getD false }

open ResamplingHelper in
def runHelper (j : Json) : Except String Json := do
  let cfg : Cfg := { period := ← getInt j "period", maxAge := ← getRat j "max_age",
                     initLen := ← getNat j "init_len", maxLen := ← getNat j "max_len",
                     warnLen := (j.getObjValAs? Nat "warn_len").toOption.getD (min 128 ((← getNat j "max_len") - 1)) }
  let mut h := init cfg
  let mut outs : Array Json := #[]
  for e in (← getArr j "events") do
    let op ← getStr e "op"
    match op with
    | "recv" => h := recv h (← parseSample e)
    | "add" => h := addSample h (← parseSample e)
    | "tick" =>
      let T ← getInt e "T"
      let est := (← getOptInt e "est").getD (-1)
      let r := tick cfg h T est
      h := r.1
      outs := outs.push (Json.mkObj [
        ("rel", Json.arr (r.2.rel.map (fun x => intJ (x.id : Nat))).toArray),
        ("none", Json.bool ((emitted (fun _ => 0) r.2).isNone && !r.2.err)),
        ("err", Json.bool r.2.err),
        ("maxlen", intJ (h.maxlen : Nat)),
        ("ip", optIntJ h.inputPeriod)])
    | _ => throw s!"unknown event {op}"
  return Json.mkObj [("ticks", Json.arr outs), ("buf", Json.arr (h.buf.map (fun x => intJ (x.id : Nat))).toArray)]

def runCase (j : Json) : Except String Json := do
  match ← getStr j "kind" with
  | "loop" => runLoop j
  | "helper" => runHelper j
  | k => throw s!"unknown kind {k}"

def main : IO Unit := serve runCase
