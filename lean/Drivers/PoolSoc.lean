/-
Line-protocol driver for the pool SoC / capacity model (C18).
Input line : {"batteries":[id,…], "working":[id,…], "ops":[op,…]}      (two fresh `SendOnUpdate` caches per line:
                                                                        one for the SoC, one for the capacity calculator)
  op = {"op":"data","id":n,"ts":int,"capacity":rat|null,"lo":rat|null,"hi":rat|null,"soc":rat|null}   (null = NaN)
     | {"op":"silent","id":n,"ts":int}          fetcher timeout: empty metrics cached
     | {"op":"working","ids":[id,…]}            update_working_batteries
     | {"op":"calc"}                            -> {"soc": {"ts":int,"v":rat}|null, "cap": {"ts":int,"v":rat}|null}
Output line: {"out":[result of every calc op]}
-/
import Frequenz.Model.PoolSoc
import Frequenz.Model.JsonUtil

open Lean JsonUtil PoolSoc Extracted.Pool

def natList (j : Json) (k : String) : Except String (List Nat) := do
  (← getArr j k).toList.mapM fun x => x.getNat?

def sampleJ : Option (Int × Rat) → Json
  | none => Json.null
  | some (t, v) => Json.mkObj [("ts", Json.num (JsonNumber.fromInt t)), ("v", ratJ v)]

def parseEv (j : Json) : Except String (Option Ev) := do
  match ← getStr j "op" with
  | "data" =>
    return some (.data (← getNat j "id")
      { ts := ← getInt j "ts", capacity := ← getOptRat j "capacity", soc_lower_bound := ← getOptRat j "lo",
        soc_upper_bound := ← getOptRat j "hi", soc := ← getOptRat j "soc" })
  | "silent" => return some (.silent (← getNat j "id") (← getInt j "ts"))
  | "working" => return some (.working (← natList j "ids"))
  | "calc" => return none
  | op => throw s!"unknown op {op}"

def runCase (j : Json) : Except String Json := do
  let batteries ← natList j "batteries"
  let w0 ← natList j "working"
  let working := batteries.filter fun b => w0.contains b
  let mut ps : Pool := { batteries := batteries, working := working, cached := [] }
  let mut pc : Pool := ps
  let mut outs : Array Json := #[]
  for o in ← getArr j "ops" do
    match ← parseEv o with
    | some ev =>
      ps := ps.step socRequired ev
      pc := pc.step capRequired ev
    | none =>
      outs := outs.push (Json.mkObj [("soc", sampleJ (socCalc ps.view)), ("cap", sampleJ (capCalc pc.view))])
  return Json.mkObj [("out", Json.arr outs)]

def main : IO Unit := serve runCase
