/-
Line-protocol driver for the actor / background-service model (C10).

Input line (all times integer µs):
  {"limits":[null|n,…],                       restart limit per actor
   "actors":[{"runs":[RS,…]},…],              script of `_run()` per invocation number (last entry repeats)
   "ctl":[{"t":T,"a":actor,"ops":[OP,…]},…],  control groups at strictly increasing instants; the ops of a group are
                                              issued synchronously (no yield in between)
   "end":T}                                   horizon (observation stops here)
  RS = {"aw":[d,…],"end":O,"oc":{"d":d,"end":O}}   awaits, final outcome, reaction to a delivered cancellation
  OP = {"op":"start"} | {"op":"cancel"} | {"op":"stop"} | {"op":"wait"} | {"op":"run","as":[actor,…]}
     | {"op":"add","label":L,"dur":d,"end":O,"oc":{"d":d,"end":O},"spawn":null|{"dur":d,"end":O,"oc":{…}}}
  O  = "ret" | "exc" | "base" | "cancelled" | "sysexit" | "kbdint" (custom BaseException subclasses: kind "base")
     | "excgroup" | "bgroup_of_exc" (kind "excgroup") | "basegroup" | "mixedgroup" (kind "basegroup")
     observations name the KIND of an outcome: "ret" | "exc" | "base" | "cancelled" | "excgroup" | "basegroup"
Output line: {"hist":…, "calls":…, "runs":…, "samples":…}  — see harness/c10.py (`observe`).

The driver contains the *scheduler* of the correspondence check: it turns the scripted behaviour of the tasks and
the control groups into one event list (`SysEvent`s) in the order the asyncio loop produces them, and folds the
model's `Sys.step` over it.  It is not part of any theorem: the theorems hold for every event list.
-/
import Frequenz.Model.Actor
import Frequenz.Model.JsonUtil

open Lean JsonUtil Actor

structure RunScript where
  aw : Array Int
  fin : Outcome
  ocD : Int
  ocEnd : Outcome
deriving Inhabited

structure ExtraSpec where
  label : String
  dur : Int
  fin : Outcome
  ocD : Int
  ocEnd : Outcome
  spawn : Option (Int × Outcome × Int × Outcome)
deriving Inhabited

structure TInfo where
  label : String
  isLoop : Bool
  spec : ExtraSpec
  started : Bool := false
  queued : Bool := false      -- a step of this task sits in the ready queue
  idx : Nat := 0
  cleanup : Bool := false
  wake : Option Int := none
  regs : List Nat := []       -- calls that registered a done-callback on this task, in order
deriving Inhabited

/-- Entries of the event loop's ready queue (FIFO). -/
inductive Item
  | step (a i : Nat)                      -- task `i` of actor `a` runs one step
  | callFirst (a : Nat) (k : CallKind)    -- first step of a stop()/wait() issued by the control script
  | runFirst (actors : List Nat)          -- first step of run(*actors)
  | runWait (r : Nat)                     -- first step of one wait() task created by run()
  | doneCb (a i : Nat) (cs : List Nat)    -- done-callbacks of task `i` registered by the calls `cs`
  | wake (a c : Nat)                      -- call `c` resumes from `asyncio.wait`
deriving Inhabited

structure Sim where
  sys : Sys
  scripts : Array (Array RunScript)
  info : Array (Array TInfo)
  queue : Array Item := #[]
  rem : Array (Array Nat)                 -- per actor, per call: batch members whose callback has not run yet
  ctlCalls : Array (Array Nat)
  nLoops : Array Nat

def parseOutcome (s : String) : Except String Outcome :=
  match s with
  | "ret" => pure .ret | "exc" => pure .exc | "base" => pure .baseExc | "cancelled" => pure .cancelled
  -- custom `BaseException` subclasses shaped like SystemExit / KeyboardInterrupt: plain BaseExceptions
  | "sysexit" => pure .baseExc | "kbdint" => pure .baseExc
  -- groups: an `ExceptionGroup`; a `BaseExceptionGroup(...)` built from Exceptions only (Python makes it an
  -- `ExceptionGroup`); a `BaseExceptionGroup` of non-Exceptions only; one with both kinds of members
  | "excgroup" => pure .excGroup | "bgroup_of_exc" => pure .excGroup
  | "basegroup" => pure .baseGroup | "mixedgroup" => pure .baseGroup
  | _ => throw s!"bad outcome {s}"

def outcomeStr : Outcome → String
  | .ret => "ret" | .exc => "exc" | .baseExc => "base" | .cancelled => "cancelled"
  | .excGroup => "excgroup" | .baseGroup => "basegroup"

def parseOc (j : Json) : Except String (Int × Outcome) := do
  let oc ← j.getObjVal? "oc"
  return (← getInt oc "d", ← parseOutcome (← getStr oc "end"))

def parseRunScript (j : Json) : Except String RunScript := do
  let aw ← (← getArr j "aw").mapM (fun x => x.getInt?)
  let (d, e) ← parseOc j
  return { aw := aw, fin := ← parseOutcome (← getStr j "end"), ocD := d, ocEnd := e }

def parseExtra (j : Json) : Except String ExtraSpec := do
  let (d, e) ← parseOc j
  let spawn ← if isNull j "spawn" then pure none else (do
    let sj ← j.getObjVal? "spawn"
    let (d2, e2) ← parseOc sj
    pure (some (← getInt sj "dur", ← parseOutcome (← getStr sj "end"), d2, e2)))
  return { label := ← getStr j "label", dur := ← getInt j "dur", fin := ← parseOutcome (← getStr j "end"),
           ocD := d, ocEnd := e, spawn := spawn }

namespace Sim

def svc (m : Sim) (a : Nat) : Svc := m.sys.svcs[a]!
def task (m : Sim) (a i : Nat) : Tsk := (m.svc a).tasks[i]!
def now (m : Sim) : Int := m.sys.now

def emit (m : Sim) (e : SysEvent) : Sim := { m with sys := m.sys.step e }
def push (m : Sim) (it : Item) : Sim := { m with queue := m.queue.push it }

def setInfo (m : Sim) (a i : Nat) (f : TInfo → TInfo) : Sim :=
  { m with info := m.info.modify a (fun arr => arr.modify i f) }

def script (m : Sim) (a n : Nat) : RunScript :=
  let sc := m.scripts[a]!
  if sc.size = 0 then { aw := #[], fin := .ret, ocD := 0, ocEnd := .cancelled } else sc[min n (sc.size - 1)]!

/-- Bookkeeping for tasks the model created since `before` (ids are positions); their first step is queued. -/
def noteNewTasks (m : Sim) (a : Nat) (before : Nat) (mk : Sim → TInfo) : Sim := Id.run do
  let mut m := m
  let n := (m.svc a).tasks.length
  for i in [before:n] do
    let ti := { mk m with queued := true }
    m := { m with info := m.info.modify a (·.push ti) }
    m := m.push (.step a i)
  return m

/-- Run an event that may create run-loop tasks (start / runCall) and note them. -/
def emitStarting (m : Sim) (ev : SysEvent) : Sim := Id.run do
  let before := m.sys.svcs.map (·.tasks.length)
  let mut m := m.emit ev
  for b in [0:m.sys.svcs.length] do
    let nb := before[b]!
    if (m.svc b).tasks.length > nb then
      m := m.noteNewTasks b nb (fun m => { label := s!"L{m.nLoops[b]!}", isLoop := true, spec := default })
      m := { m with nLoops := m.nLoops.modify b (· + 1) }
  return m

/-- `task.cancel()` was called on the owned live tasks of actor `a`: wake those that are suspended. -/
def queueCancelled (m : Sim) (a : Nat) : Sim := Id.run do
  let mut m := m
  for i in [0:(m.svc a).tasks.length] do
    let t := m.task a i
    if t.cancelReq && !t.isDone && !(m.info[a]![i]!.queued) then
      m := (m.setInfo a i (fun ti => { ti with queued := true })).push (.step a i)
  return m

def blockedBatch (m : Sim) (a c : Nat) : Option (List Nat) :=
  match (m.svc a).callers[c]? with
  | some cl => (match cl.st with | .blocked b => some b | _ => none)
  | none => none

/-- Call `c` has just entered `asyncio.wait(batch)`: callbacks on finished members fire on the next iteration. -/
def registerCall (m : Sim) (a c : Nat) : Sim := Id.run do
  let mut m := m
  while m.rem[a]!.size ≤ c do
    m := { m with rem := m.rem.modify a (·.push 0) }
  match m.blockedBatch a c with
  | none => return m
  | some batch =>
    let members := (m.svc a).tasks.filter (fun t => batch.contains t.id)
    m := { m with rem := m.rem.modify a (·.set! c members.length) }
    for t in members do
      if t.isDone then m := m.push (.doneCb a t.id [c])
      else m := m.setInfo a t.id (fun ti => { ti with regs := ti.regs ++ [c] })
    return m

/-- Task `i` has just finished: schedule the callbacks of the calls that wait for it. -/
def taskFinished (m : Sim) (a i : Nat) : Sim :=
  let cs := m.info[a]![i]!.regs.filter (fun c =>
    c < m.rem[a]!.size && (match m.blockedBatch a c with | some b => b.contains i | none => false))
  let m := m.setInfo a i (fun ti => { ti with wake := none })
  if cs.isEmpty then m else m.push (.doneCb a i cs)

/-- Position the run-loop task after the model moved it: derive its next timer from the phase. -/
def settleLoop (m : Sim) (a i : Nat) : Sim :=
  match (m.task a i).phase with
  | .delay _ u => m.setInfo a i (fun ti => { ti with wake := some u, cleanup := false, idx := 0 })
  | .running n =>
    let sc := m.script a n
    if sc.aw.size = 0 then
      -- `_run()` ends without awaiting: same scheduler step
      let m := m.emit (.svc a (.taskStep i (.fin sc.fin)))
      match (m.task a i).phase with
      | .delay _ u => m.setInfo a i (fun ti => { ti with wake := some u, cleanup := false, idx := 0 })
      | .done _ => m.taskFinished a i
      | _ => m.setInfo a i (fun ti => { ti with wake := none })   -- restart without delay: not simulated further
    else m.setInfo a i (fun ti => { ti with idx := 0, cleanup := false, wake := some (m.now + sc.aw[0]!) })
  | .done _ => m.taskFinished a i
  | _ => m

def stepTask (m : Sim) (a i : Nat) : Sim :=
  let m := m.setInfo a i (fun ti => { ti with queued := false })
  let t := m.task a i
  let ti := m.info[a]![i]!
  if t.isDone then m
  else if !ti.started then
    let m := m.setInfo a i (fun ti => { ti with started := true })
    if ti.isLoop then (m.emit (.svc a (.taskStep i .cont))).settleLoop a i
    else if t.cancelReq then (m.emit (.svc a (.taskStep i (.fin .cancelled)))).taskFinished a i
    else if ti.spec.dur = 0 then
      -- `await asyncio.sleep(0)` is a bare yield: the next step is queued at once
      (m.setInfo a i (fun ti => { ti with wake := some m.now, queued := true })).push (.step a i)
    else m.setInfo a i (fun ti => { ti with wake := some (m.now + ti.spec.dur) })
  else if t.cancelReq then
    match t.phase with
    | .running n =>
      let sc := m.script a n
      if ti.cleanup then (m.emit (.svc a (.taskStep i (.fin .cancelled)))).settleLoop a i
      else if sc.ocD = 0 then (m.emit (.svc a (.taskStep i (.fin sc.ocEnd)))).settleLoop a i
      else (m.emit (.svc a (.taskStep i .cont))).setInfo a i
             (fun ti => { ti with cleanup := true, wake := some (m.now + sc.ocD) })
    | .extra =>
      if ti.cleanup then (m.emit (.svc a (.taskStep i (.fin .cancelled)))).taskFinished a i
      else
        let m := match ti.spec.spawn with
          | some (d, e, d2, e2) =>
            let before := (m.svc a).tasks.length
            let m := m.emit (.svc a .addTask)
            m.noteNewTasks a before (fun _ =>
              { label := ti.label ++ "c", isLoop := false,
                spec := { label := ti.label ++ "c", dur := d, fin := e, ocD := d2, ocEnd := e2, spawn := none } })
          | none => m
        if ti.spec.ocD = 0 then (m.emit (.svc a (.taskStep i (.fin ti.spec.ocEnd)))).taskFinished a i
        else (m.emit (.svc a (.taskStep i .cont))).setInfo a i
               (fun ti => { ti with cleanup := true, wake := some (m.now + ti.spec.ocD) })
    | _ => (m.emit (.svc a (.taskStep i .cont))).settleLoop a i     -- in `_delay_if_restart`: ends cancelled
  else
    match ti.wake with
    | none => m
    | some w =>
      if w > m.now then m
      else match t.phase with
        | .delay _ _ => (m.emit (.svc a (.taskStep i .cont))).settleLoop a i
        | .running n =>
          let sc := m.script a n
          if ti.cleanup then (m.emit (.svc a (.taskStep i (.fin sc.ocEnd)))).settleLoop a i
          else if ti.idx + 1 < sc.aw.size then
            (m.emit (.svc a (.taskStep i .cont))).setInfo a i
              (fun ti => { ti with idx := ti.idx + 1, wake := some (m.now + sc.aw[ti.idx + 1]!) })
          else (m.emit (.svc a (.taskStep i (.fin sc.fin)))).settleLoop a i
        | .extra =>
          let o := if ti.cleanup then ti.spec.ocEnd else ti.spec.fin
          (m.emit (.svc a (.taskStep i (.fin o)))).taskFinished a i
        | _ => m

def handle (m : Sim) (it : Item) : Sim :=
  match it with
  | .step a i => m.stepTask a i
  | .callFirst a k =>
    let c := (m.svc a).callers.length
    let m := m.emit (.svc a (.call k))
    let m := { m with ctlCalls := m.ctlCalls.modify a (·.push c) }
    (m.queueCancelled a).registerCall a c
  | .runFirst actors => Id.run do
    let r := m.sys.runs.length
    let mut m := m.emitStarting (.runCall actors)
    for _ in m.sys.runs[r]!.pending do
      m := m.push (.runWait r)
    return m
  | .runWait r =>
    match m.sys.runs[r]!.pending with
    | [] => m
    | a :: _ =>
      let c := (m.svc a).callers.length
      (m.emit (.runWait r)).registerCall a c
  | .doneCb a _ cs => Id.run do
    let mut m := m
    for c in cs do
      let r := m.rem[a]![c]!
      if r > 0 then
        m := { m with rem := m.rem.modify a (·.set! c (r - 1)) }
        if r = 1 then m := m.push (.wake a c)
    return m
  | .wake a c =>
    let m := m.emit (.svc a (.wake c))
    (m.queueCancelled a).registerCall a c

/-- Everything that happens at the current instant: run the ready queue (FIFO) until it is empty. -/
def drain (m : Sim) : Sim := Id.run do
  let mut m := m
  let mut k := 0
  while k < m.queue.size && k < 100000 do
    m := m.handle m.queue[k]!
    k := k + 1
  m := { m with queue := #[] }
  for r in [0:m.sys.runs.length] do
    let rec_ := m.sys.runs[r]!
    if rec_.returned.isNone && runDone m.sys.svcs rec_ then m := m.emit (.runReturn r)
  return m

def nextWake (m : Sim) : Option Int := Id.run do
  let mut best : Option Int := none
  for a in [0:m.sys.svcs.length] do
    for i in [0:(m.svc a).tasks.length] do
      if !(m.task a i).isDone then
        match m.info[a]![i]!.wake with
        | some w => best := some (match best with | some b => min b w | none => w)
        | none => pure ()
  return best

/-- The timers that are due fire: their tasks become ready. -/
def fireTimers (m : Sim) : Sim := Id.run do
  let mut m := m
  for a in [0:m.sys.svcs.length] do
    for i in [0:(m.svc a).tasks.length] do
      let ti := m.info[a]![i]!
      if !(m.task a i).isDone && !ti.queued then
        match ti.wake with
        | some w => if w ≤ m.now then m := (m.setInfo a i (fun ti => { ti with queued := true })).push (.step a i)
        | none => pure ()
  return m

/-- Let the clock run to `t`, handling every internal timer on the way. -/
def runUntil (m : Sim) (t : Int) : Sim := Id.run do
  let mut m := m
  let mut fuel := 100000
  while fuel > 0 do
    fuel := fuel - 1
    match m.nextWake with
    | some w =>
      if w ≤ t then
        if w > m.now then m := m.emit (.advance (w - m.now).toNat)
        m := m.fireTimers.drain
      else break
    | none => break
  if t > m.now then m := m.emit (.advance (t - m.now).toNat)
  return m

def stateStr (t : Tsk) : String :=
  match t.phase with | .done o => outcomeStr o | _ => "pending"

def snapshot (m : Sim) (a : Nat) : Json :=
  let s := m.svc a
  let inf := m.info[a]!
  let pairs := s.tasks.map (fun t => (inf[t.id]!.label, Json.str (stateStr t)))
  let owned := ((s.tasks.filter (·.owned)).map (fun t => inf[t.id]!.label)).toArray.qsort (· < ·)
  Json.mkObj [("running", Json.bool s.isRunning), ("tasks", Json.mkObj pairs),
              ("owned", Json.arr (owned.map Json.str))]

def snapshotAll (m : Sim) : Json := Json.arr ((List.range m.sys.svcs.length).map (m.snapshot ·)).toArray

end Sim

def hevJ : HEv → Json
  | .enter n t => Json.arr #[Json.str "enter", Json.num n, Json.num t]
  | .exit n o t => Json.arr #[Json.str "exit", Json.num n, Json.str (outcomeStr o), Json.num t]

def runCase (j : Json) : Except String Json := do
  let limits ← (← getArr j "limits").mapM (fun x => match x with
    | .null => pure (none : Option Nat) | v => (v.getNat?).map some)
  let actors ← getArr j "actors"
  let scripts ← actors.mapM (fun aj => do (← getArr aj "runs").mapM parseRunScript)
  let ctl ← getArr j "ctl"
  let horizon ← getInt j "end"
  let n := limits.size
  let mut m : Sim := { sys := Sys.init extractedMode limits.toList, scripts := scripts,
                       info := Array.replicate n #[], rem := Array.replicate n #[],
                       ctlCalls := Array.replicate n #[], nLoops := Array.replicate n 0 }
  let mut samples : Array Json := #[]
  let mut pendingPost : Option Json := none
  let mut first := true
  for g in ctl do
    let t ← getInt g "t"
    let a ← getNat g "a"
    if a ≥ n then throw "actor index"
    m := m.runUntil t
    if !first then
      samples := samples.push (Json.mkObj [("post", pendingPost.getD Json.null), ("pre", m.snapshotAll)])
    first := false
    let ops ← getArr g "ops"
    let mut syncOnly := true
    for o in ops do
      let op ← getStr o "op"
      match op with
      | "start" => m := m.emitStarting (.svc a .start)
      | "cancel" => m := (m.emit (.svc a .cancel)).queueCancelled a
      | "add" =>
        let spec ← parseExtra o
        let before := (m.svc a).tasks.length
        m := m.emit (.svc a .addTask)
        m := m.noteNewTasks a before (fun _ => { label := spec.label, isLoop := false, spec := spec })
      | "stop" => m := m.push (.callFirst a .stop); syncOnly := false
      | "wait" => m := m.push (.callFirst a .wait); syncOnly := false
      | "run" =>
        let as_ ← (← getArr o "as").mapM (fun x => x.getNat?)
        m := m.push (.runFirst as_.toList); syncOnly := false
      | _ => throw s!"unknown op {op}"
    pendingPost := if syncOnly then some (m.snapshot a) else none
    m := m.drain
  m := m.runUntil horizon
  if !first then
    samples := samples.push (Json.mkObj [("post", pendingPost.getD Json.null), ("pre", m.snapshotAll)])
  -- observations
  let hist := (List.range n).map (fun a =>
    Json.arr (((m.svc a).tasks.filter (·.loop)).map (fun t => Json.arr (t.hist.reverse.map hevJ).toArray)).toArray)
  let calls := (List.range n).map (fun a =>
    let s := m.svc a
    Json.arr (m.ctlCalls[a]!.map (fun c =>
      let cl := s.callers[c]!
      let kind := match cl.kind with | .stop => "stop" | .wait => "wait"
      match cl.st with
      | .blocked _ => Json.mkObj [("kind", Json.str kind), ("ret", Json.null), ("raised", Json.arr #[])]
      | .finished raised tm _ =>
        let rs := (raised.map (fun e => (if e.2 = .cancelled then "*" else m.info[a]![e.1]!.label, outcomeStr e.2))).toArray.qsort
          (fun x y => x.1 < y.1 || (x.1 == y.1 && x.2 < y.2))
        Json.mkObj [("kind", Json.str kind), ("ret", Json.num tm),
                    ("raised", Json.arr (rs.map (fun e => Json.arr #[Json.str e.1, Json.str e.2])))])))
  let runs := m.sys.runs.map (fun r => match r.returned with | some t => Json.num t | none => Json.null)
  return Json.mkObj [("hist", Json.arr hist.toArray), ("calls", Json.arr calls.toArray),
                     ("runs", Json.arr runs.toArray), ("samples", Json.arr samples)]

/-! ### `cancel_and_await` cases  (`"kind":"caa"`)
  {"kind":"caa","task":{"dur":d,"end":O,"oc":[{"k":n,"d":d,"end":O},…]},      oc[j] = reaction to the j-th delivered
   "ctl":[{"t":T,"ops":["create"|"cancel"|"caa",…]},…],"end":T}                cancellation: n awaits of d µs, then O
Output: {"task":{"state":…,"done_at":t|null,"cancelling":n},"callers":[{"ret":t|null,"raised":"none"|O},…]} -/

structure CaSim where
  st : CA.St := CA.init
  dur : Int
  fin : Outcome
  oc : Array (Nat × Int × Outcome)
  created : Bool := false
  started : Bool := false
  queued : Bool := false
  inCleanup : Bool := false
  j : Nat := 0
  remK : Nat := 0
  cur : Nat × Int × Outcome := (0, 0, .cancelled)
  wake : Option Int := none
  doneAt : Option Int := none
  queue : Array (Nat × Nat) := #[]     -- (0,_) task step | (1,_) first step of a new call | (2,c) call c resumes

namespace CaSim

def emit (m : CaSim) (e : CA.Ev) : CaSim := { m with st := CA.step m.st e }
def push (m : CaSim) (it : Nat × Nat) : CaSim := { m with queue := m.queue.push it }

def finished (m : CaSim) : CaSim := Id.run do
  if !m.st.task.isDone then return m
  let mut m := { m with doneAt := some m.st.now, wake := none }
  for c in [0:m.st.callers.length] do
    if m.st.callers[c]! == .awaiting then m := m.push (2, c)
  return m

/-- `task.cancel()` has just been called: a suspended task is woken. -/
def poke (m : CaSim) : CaSim :=
  if m.created && m.started && !m.queued && !m.st.task.isDone && m.st.task.cancelReq
  then ({ m with queued := true }).push (0, 0) else m

def taskStep (m : CaSim) : CaSim :=
  let m := { m with queued := false }
  if m.st.task.isDone then m
  else if !m.started then
    let m := ({ m with started := true }).emit (.taskStep .cont)
    if m.st.task.isDone then m.finished else { m with wake := some (m.st.now + m.dur) }
  else if m.st.task.cancelReq then
    let r := if m.oc.size = 0 then (0, 0, Outcome.cancelled) else m.oc[min m.j (m.oc.size - 1)]!
    let m := { m with j := m.j + 1, inCleanup := true, cur := r }
    if r.1 = 0 then (m.emit (.taskStep (.fin r.2.2))).finished
    else { (m.emit (.taskStep .cont)) with remK := r.1, wake := some (m.st.now + r.2.1) }
  else match m.wake with
    | none => m
    | some w =>
      if w > m.st.now then m
      else if !m.inCleanup then (m.emit (.taskStep (.fin m.fin))).finished
      else if m.remK ≤ 1 then (m.emit (.taskStep (.fin m.cur.2.2))).finished
      else { (m.emit (.taskStep .cont)) with remK := m.remK - 1, wake := some (m.st.now + m.cur.2.1) }

def drain (m : CaSim) : CaSim := Id.run do
  let mut m := m
  let mut k := 0
  while k < m.queue.size && k < 10000 do
    let it := m.queue[k]!
    if it.1 = 0 then m := m.taskStep
    else if it.1 = 1 then
      let c := m.st.callers.length
      m := (m.emit .call).poke
      if m.st.callers[c]! == .awaiting && m.st.task.isDone then m := m.push (2, c)
    else m := m.emit (.wake it.2)
    k := k + 1
  return { m with queue := #[] }

def runUntil (m : CaSim) (t : Int) : CaSim := Id.run do
  let mut m := m
  let mut fuel := 10000
  while fuel > 0 do
    fuel := fuel - 1
    match m.wake with
    | some w =>
      if w ≤ t && !m.st.task.isDone then
        if w > m.st.now then m := m.emit (.advance (w - m.st.now).toNat)
        if !m.queued then m := ({ m with queued := true }).push (0, 0)
        m := m.drain
      else break
    | none => break
  if t > m.st.now then m := m.emit (.advance (t - m.st.now).toNat)
  return m

end CaSim

def runCaa (j : Json) : Except String Json := do
  let tj ← j.getObjVal? "task"
  let oc ← (← getArr tj "oc").mapM (fun x => do
    pure ((← getNat x "k"), (← getInt x "d"), (← parseOutcome (← getStr x "end"))))
  let mut m : CaSim := { dur := ← getInt tj "dur", fin := ← parseOutcome (← getStr tj "end"), oc := oc }
  for g in ← getArr j "ctl" do
    m := m.runUntil (← getInt g "t")
    for o in ← getArr g "ops" do
      match ← o.getStr? with
      | "create" => m := ({ m with created := true, queued := true }).push (0, 0)
      | "cancel" => m := (m.emit .cancel).poke
      | "caa" => m := m.push (1, 0)
      | op => throw s!"unknown op {op}"
    m := m.drain
  m := m.runUntil (← getInt j "end")
  let state := match m.st.task.phase with | .done o => outcomeStr o | _ => "pending"
  let callers := m.st.callers.map (fun c => match c with
    | .awaiting => Json.mkObj [("ret", Json.null), ("raised", Json.str "none")]
    | .returned _ r tm => Json.mkObj [("ret", Json.num tm),
        ("raised", Json.str (match r with | some o => outcomeStr o | none => "none"))])
  return Json.mkObj [
    ("task", Json.mkObj [("state", Json.str state),
      ("done_at", match m.doneAt with | some t => Json.num t | none => Json.null),
      ("cancelling", Json.num m.st.task.cancelling)]),
    ("callers", Json.arr callers.toArray)]

def runAny (j : Json) : Except String Json :=
  match j.getObjVal? "kind" with
  | .ok (.str "caa") => runCaa j
  | _ => runCase j

def main : IO Unit := serve runAny
