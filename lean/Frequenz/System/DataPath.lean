/-
System-level corollary across three models (not one of the 20 listed properties; it shows that the models of the
measurement side compose).  A formula whose inputs are series of ONE resampler:

  * the resampler hands out the timestamps `w0 + k · period`, the same to all its series, under every schedule of
    ticks, additions, removals, failures and restarts                                   (C07_consecutive, C07_shared),
  * the value of series `i` at the grid point `T` is the resampling function on exactly the buffered valid samples
    stamped in `(T − W, T]`, `None` iff there are none                                   (C08_full),
  * the `r`-th output of the formula evaluator is stamped `max t0 + r` (in ticks) and computed from the input samples
    stamped so, under every admissible interleaving of deliveries and evaluations          (C06_single_full).

Composition (`DataPath_full`): for every resampler schedule `rs`, every receive/tick history of every series' helper,
every first tick `t0 i` of every input stream and every admissible evaluator schedule `es`, every formula output is
stamped on the resampler's grid — it is the `k`-th timestamp the resampler hands out, `k = max t0 + r` — and equals the
formula applied to the resampled values of exactly that grid point, each of which is the resampling function over its
own window (no future sample, no None/NaN sample, `None` iff the window is empty).

The evaluator model counts time in ticks (one unit = one input step; the code only compares and copies timestamps);
`gridTs` is the embedding of tick indices into µs timestamps.  How the real tasks interleave is sampled by the
full-stack stage `harness/datapath.py`; the theorem is about the composed models.
-/
import Frequenz.Props.C06
import Frequenz.Props.C07
import Frequenz.Props.C08

namespace DataPath

open Extracted.Resampling

/-- One formula input: a series of the resampler with its own `_ResamplingHelper`. -/
structure Input where
  /-- the series' key in the resampler -/
  sid : Resampler.SeriesId
  /-- the helper's configuration (the resampler's `ResamplerConfig`) -/
  cfg : ResamplingHelper.Cfg
  /-- what the helper went through (samples received, earlier ticks) before the resampler's `k`-th tick -/
  hist : Nat → List ResamplingHelper.Ev
  /-- the float input-period estimate the implementation computes at the `k`-th tick (read back by the harness) -/
  est : Nat → Int

/-- A formula wired to `n` series of one resampler. -/
structure Wiring where
  period : Int
  /-- the resampler's first window end -/
  w0 : Int
  n : Nat
  input : Nat → Input
  /-- the resampling function (on non-empty windows) -/
  rfun : List ResamplingHelper.Sample → Rat

/-- The timestamp of the resampler's `k`-th tick. -/
def Wiring.gridTs (w : Wiring) (k : Nat) : Int := w.w0 + (k : Int) * w.period

/-- `_ResamplingHelper.resample(T)` of input `i` at the resampler's `k`-th tick. -/
def Wiring.tickOut (w : Wiring) (i k : Nat) : ResamplingHelper.Helper × ResamplingHelper.TickOut :=
  ResamplingHelper.tick (w.input i).cfg (ResamplingHelper.run (w.input i).cfg ((w.input i).hist k)) (w.gridTs k)
    ((w.input i).est k)

/-- The resampled value of input `i` at the `k`-th tick. -/
def Wiring.resampled (w : Wiring) (i k : Nat) : Option Rat := ResamplingHelper.emitted w.rfun (w.tickOut i k).2

/-- The input streams as the evaluator model sees them: stream `i`, tick `t` ↦ value. -/
def Wiring.src (w : Wiring) : Nat → Int → Option Rat := fun i t => w.resampled i t.toNat

/-- The `k`-th timestamp the resampler hands out is `w0 + k · period`, whatever the schedule. -/
theorem tick_on_grid (period w0 : Int) (rs : List Resampler.Event) (k : Nat) (tk : Resampler.Tick)
    (h : (Resampler.run period (Resampler.init w0) rs).2[k]? = some tk) : tk.ts = w0 + (k : Int) * period := by
  have hc := C07_consecutive period w0 rs
  have h1 : ((Resampler.run period (Resampler.init w0) rs).2.map (·.ts))[k]? = some tk.ts := by
    rw [List.getElem?_map, h]; rfl
  rw [hc] at h1
  unfold Resampler.expected at h1
  rw [List.getElem?_map] at h1
  cases hr : (List.range (Resampler.run period (Resampler.init w0) rs).2.length)[k]? with
  | none => rw [hr] at h1; simp at h1
  | some j =>
    rw [hr] at h1
    have hj : j = k := by
      have := List.getElem?_range (n := (Resampler.run period (Resampler.init w0) rs).2.length) (i := k)
      rcases List.getElem?_eq_some_iff.mp hr with ⟨hlt, hval⟩
      simpa using hval.symm
    subst hj
    simpa using h1.symm

/-- The statement: one resampler, `n` of its series feeding one formula. -/
def DataPath_statement : Prop :=
  ∀ (w : Wiring) (f : List (Option Rat) → Option Rat) (t0 : Nat → Int) (rs : List Resampler.Event)
    (es : List Evaluator.Ev),
    0 < w.n → (∀ i, 0 ≤ t0 i) →
    -- every series' input is time-ordered (the domain of C08)
    (∀ i k, ResamplingHelper.SortedTs (ResamplingHelper.validHistory ((w.input i).hist k))) →
    -- the evaluator is fed with the resampled series, stream `i` starting at the resampler's tick `t0 i`
    Evaluator.AdmFrom w.n f t0 w.src Evaluator.St.init es →
    ∀ (r : Nat) (o : Evaluator.Sample), (Evaluator.run w.n f es).out[r]? = some o →
      let k := o.ts.toNat
      let T := w.gridTs k
      -- (C06) the r-th output is the tick `max t0 + r` …
      (k : Int) = o.ts ∧ o.ts = Evaluator.maxStart w.n t0 + r ∧
      -- (C07) … whose timestamp is the k-th one the resampler hands out under EVERY schedule, the same for every
      -- series that receives it
      (∀ tk, (Resampler.run w.period (Resampler.init w.w0) rs).2[k]? = some tk → tk.ts = T) ∧
      ((Resampler.run w.period (Resampler.init w.w0) rs).2.length = k →
        (Resampler.run w.period (Resampler.init w.w0) rs).1.inflight = none →
        (Resampler.run w.period (Resampler.init w.w0) rs).1.stopped = false →
        ∃ tk, (Resampler.step w.period (Resampler.run w.period (Resampler.init w.w0) rs).1 .tickStart).2 = [tk] ∧
          tk.ts = T ∧ ∀ s, s ∈ tk.recipients ↔ Resampler.status s rs = (true, false)) ∧
      -- (C06) its value is the formula on the resampled values of exactly that grid point …
      o.val = f ((List.range w.n).map (fun i => w.resampled i k)) ∧
      -- (C08) … each of which is the resampling function over the series' window at `T`
      ∀ i, i < w.n →
        let out := w.tickOut i k
        out.2.err = false ∧
        out.2.rel = out.1.buf.filter
          (fun s => decide (T - C08_windowLen (w.input i).cfg out.1 < s.ts ∧ s.ts ≤ T)) ∧
        out.1.buf <:+ ResamplingHelper.validHistory ((w.input i).hist k) ∧
        (∀ s ∈ out.2.rel, s.ts ≤ T ∧ s.isNone = false ∧ s.isNaN = false) ∧
        (w.resampled i k = none ↔ out.2.rel = []) ∧
        (out.2.rel ≠ [] → w.resampled i k = some (w.rfun out.2.rel))

theorem DataPath_full : DataPath_statement := by
  intro w f t0 rs es hn ht0 hsorted ha r o ho
  obtain ⟨hts, hval⟩ := C06_single_full w.n f t0 w.src es hn ha r o ho
  have hge : 0 ≤ o.ts := by
    have h0 := (C06_single_first w.n t0 hn).1 0 hn
    have := ht0 0
    omega
  have hk : ((o.ts.toNat : Nat) : Int) = o.ts := Int.toNat_of_nonneg hge
  refine ⟨hk, hts, ?_, ?_, ?_, ?_⟩
  · intro tk htk
    exact tick_on_grid w.period w.w0 rs o.ts.toNat tk htk
  · intro hlen hfree hrun
    obtain ⟨tk, h1, h2, h3⟩ := C07_shared w.period w.w0 rs hfree hrun
    refine ⟨tk, h1, ?_, h3⟩
    rw [h2, hlen]
    rfl
  · rw [hval]
    rfl
  · intro i _hi
    have h8 := C08_full (w.input i).cfg ((w.input i).hist o.ts.toNat) (w.gridTs o.ts.toNat)
      ((w.input i).est o.ts.toNat) w.rfun (hsorted i o.ts.toNat)
    obtain ⟨herr, hrel, hsuf, _hbuf, hvalid, hnone⟩ := h8
    refine ⟨herr, hrel, hsuf, hvalid, hnone, ?_⟩
    intro hne
    show ResamplingHelper.emitted w.rfun (w.tickOut i o.ts.toNat).2 = _
    unfold ResamplingHelper.emitted
    have : (w.tickOut i o.ts.toNat).2.rel.isEmpty = false := by
      cases hr : (w.tickOut i o.ts.toNat).2.rel with
      | nil => exact absurd hr hne
      | cons a t => rfl
    rw [this]
    rfl

/-- With `align_to = a` the grid is `a + m · period`: every formula output is stamped on it (any creation instant). -/
theorem DataPath_aligned (w : Wiring) (now a : Int) (k : Nat)
    (hw : w.w0 = (calculateWindowEnd now w.period (some a)).1) : (w.gridTs k - a) % w.period = 0 := by
  have h := C07_aligned now w.period a
  rw [← hw] at h
  unfold Wiring.gridTs
  have e : w.w0 + (k : Int) * w.period - a = (w.w0 - a) + w.period * (k : Int) := by
    rw [Int.mul_comm]; omega
  rw [e, Int.add_mul_emod_self_left]
  exact h

example : (calculateWindowEnd 1700000000583333 1000000 (some 0)).1 = 1700000002000000 := by decide

/-! ### Non-vacuity: two series of one resampler (period 1 s, first window end 1 s), formula `a + b`

Series 0 is registered before the first tick, series 1 between the first and the second; the formula's inputs start
at ticks 0 and 1, so its first output is tick 1 = timestamp 2 s.  Series 0 received samples stamped 0.5 s (value 10)
and 1.5 s (value 30), series 1 one sample stamped 1.2 s (value 5) and a NaN sample; resampling function = sum of the
values (ids here); window = `(T − 1 s, T]`. -/

def exCfg : ResamplingHelper.Cfg := { period := 1000000, maxAge := 1, initLen := 4, maxLen := 16 }

def exHist0 : List ResamplingHelper.Ev :=
  [.recv ⟨500000, 10, false, false, false⟩, .tick 1000000 0, .recv ⟨1500000, 30, false, false, false⟩]
def exHist1 : List ResamplingHelper.Ev :=
  [.recv ⟨1200000, 5, false, false, false⟩, .recv ⟨1700000, 7, false, true, false⟩]

def exWiring : Wiring :=
  { period := 1000000, w0 := 1000000, n := 2,
    input := fun i => if i = 0 then ⟨0, exCfg, fun k => if k = 0 then exHist0.take 1 else exHist0, fun _ => 0⟩
                      else ⟨1, exCfg, fun _ => exHist1, fun _ => 0⟩,
    rfun := fun l => ((l.map (·.id)).sum : Nat) }

def exF : List (Option Rat) → Option Rat := fun l => (l.headD none).bind (fun a => (l.getD 1 none).map (a + ·))

/-- resampler schedule: series 0 added, first tick, series 1 added while the gather is in flight, second tick -/
def exRs : List Resampler.Event := [.add 0, .tickStart, .add 1, .tickEnd, .tickStart, .tickEnd]

/-- evaluator schedule: stream 0 delivers ticks 0 and 1, stream 1 tick 1, then one `apply()` -/
def exEs : List Evaluator.Ev :=
  [.deliver 0 ⟨0, exWiring.src 0 0⟩, .deliver 0 ⟨1, exWiring.src 0 1⟩, .deliver 1 ⟨1, exWiring.src 1 1⟩, .eval 0]

example : (Resampler.run 1000000 (Resampler.init 1000000) exRs).2 =
    [{ ts := 1000000, recipients := [0] }, { ts := 2000000, recipients := [0, 1] }] := by decide

example : exWiring.resampled 0 1 = some 30 ∧ exWiring.resampled 1 1 = some 5 ∧ exWiring.resampled 0 0 = some 10 := by
  decide +kernel

example : Evaluator.AdmFrom 2 exF (fun i => if i = 0 then 0 else 1) exWiring.src Evaluator.St.init exEs ∧
    (Evaluator.run 2 exF exEs).out = [⟨1, some 35⟩] ∧ exWiring.gridTs 1 = 2000000 := by
  decide +kernel

example : ∀ i k, ResamplingHelper.SortedTs (ResamplingHelper.validHistory ((exWiring.input i).hist k)) := by
  intro i k
  by_cases hi : i = 0
  · subst hi
    by_cases hk : k = 0
    · subst hk; decide +kernel
    · have : ((exWiring.input 0).hist k) = exHist0 := by simp [exWiring, hk]
      rw [this]; decide +kernel
  · have : ((exWiring.input i).hist k) = exHist1 := by simp [exWiring, hi]
    rw [this]; decide +kernel

end DataPath
