/-
System-level corollary across two models (not one of the 20 listed properties; it shows that the
models compose).  The power manager (C11 model) works with the system bounds the battery pool
advertises (C17 model).  For every history of manager events, every request it sends while the
pool advertises `adv`

  * lies inside the advertised inclusion bounds                         (C11), and therefore
  * is ACCEPTED by the power distributor's `_check_request` — never `OutOfBounds` — with
    `adjust_power` on or off, provided it is not strictly inside the advertised exclusion zone (C17).

The proviso is real: the sum of an operating-point target and a regular target can fall inside the
exclusion zone although each target respects it (see DESIGN §8, observation F1).
-/
import Frequenz.Props.C11
import Frequenz.Props.C17

open Matryoshka PowerManager PoolBounds

namespace PowerPath

/-- The system bounds the manager receives when the pool advertises `adv`. -/
def sbOf (adv : Extracted.Pool.PowerBounds) : SystemBounds :=
  { incl := some ⟨adv.inclusion_lower, adv.inclusion_upper⟩,
    excl := some ⟨adv.exclusion_lower, adv.exclusion_upper⟩ }

/-- Consistent advertised bounds are in the domain of C03/C11. -/
theorem sbOf_inDomain (adv : Extracted.Pool.PowerBounds) (hc : ConsistentBounds adv) :
    C03_InDomain (sbOf adv) := by
  unfold ConsistentBounds at hc
  refine ⟨?_, ?_⟩
  · intro b hb
    simp only [sbOf, Option.some.injEq] at hb
    subst hb
    constructor <;> simp only <;> grind
  · intro e he
    simp only [sbOf, Option.some.injEq] at he
    subst he
    exact ⟨hc.2.1, hc.2.2.1⟩

/-- One manager step under advertised bounds `adv`: the request is inside the inclusion bounds, and
if it is not strictly inside the exclusion zone the distributor accepts it. -/
theorem request_accepted (gs : List CGroup) (hw : WellFormed gs) (adv : Extracted.Pool.PowerBounds)
    (ha : advertisedRaw (gs.map (·.toRaw)) = some adv) (hc : ConsistentBounds adv)
    (st : State) (hinv : C11_Inv st) (e : Event) (r : Rat)
    (hsb : (PowerManager.step st e).1.sb = some (sbOf adv))
    (hr : (PowerManager.step st e).2 = some r) (adjust : Bool) :
    (adv.inclusion_lower ≤ r ∧ r ≤ adv.inclusion_upper) ∧
    (¬ (adv.exclusion_lower < r ∧ r < adv.exclusion_upper) →
      ∃ pairs, pairsRaw (gs.map (·.toRaw)) = .ok pairs ∧ answer (plain pairs) r adjust = .ok) := by
  have hgood := C11_step_good st hinv e r hr
  have hin := hgood.2 (sbOf adv) hsb (sbOf_inDomain adv hc)
  simp only [C11_InBounds, sbOf] at hin
  refine ⟨hin, ?_⟩
  intro hz
  exact C17_accept gs hw adv ha r adjust ⟨hin.1, hin.2, hz⟩

end PowerPath
