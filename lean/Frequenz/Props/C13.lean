/-
C13 — missing formula inputs propagate as None, or count as zero on request; a sample for every timestamp.

These theorems are about the step bodies AFTER `fixes/C13-minmax-nan.patch` and `fixes/C13-zero-division.patch`
(the bodies are extracted from `_formula_steps.py` on every run).  On the pinned tree `Maximizer`/`Minimizer` use the
builtin `max`/`min` (`max(x, nan) = x`) and `Divider` raises on a zero divisor, the lemmas of
`Lemmas/FormulaStepsFixed.lean` are false, this file does not build, and the check reports the violation with a
failing input (corpus/C13).

Quantifiers: every expression of the string grammar (any padding, any per-stream `nones_are_zeros` flags), every
composition-API tree, every list of rounds, every input encoding (`Inp`: None / NaN / ±inf / finite).
`expected zf env a` (Model/Shunting.lean) is the demand of the property, computed from the inputs only:
`none` iff an input of the expression is missing on a non-zeroing stream or ordinary arithmetic (with 0 for missing
inputs of zeroing streams) is undefined; otherwise that arithmetic value.
-/
import Frequenz.Lemmas.ShuntingBuild
import Frequenz.Lemmas.ShuntingTie
import Frequenz.Lemmas.FormulaStepsFixed

open Formula

set_option linter.unusedSimpArgs false

/-- No step ever raises. -/
theorem C13_steps_total : (∀ o a b, ∃ v, binVal o a b = .ok v) ∧ (∀ u a, ∃ v, unVal u a = .ok v) :=
  ⟨fun o a b => ⟨_, binVal_spec o a b⟩, fun u a => ⟨_, unVal_spec u a⟩⟩

/-- Every binary operator × operand position: the result is NaN exactly when the first operand is, or the second
is, or it is a division by zero — `max`/`min` included, whatever the order of their operands. -/
theorem C13_operator_positions (o : BinOp) (a b : V) :
    binVal o a b = .ok none ↔ (a = none ∨ b = none ∨ (o = .div ∧ b = some 0)) := by
  rw [binVal_spec]
  cases a with
  | none => simp [binSpec]
  | some x =>
    cases b with
    | none => simp [binSpec]
    | some y =>
      cases o <;> simp [binSpec, binQ]

theorem C13_unary_positions (u : UnOp) (a : V) : unVal u a = .ok none ↔ a = none := by
  rw [unVal_spec]
  cases a <;> simp [unSpec]

/-- The final test of `FormulaEvaluator.apply` (extracted from the source): a result that is not finite — NaN, +inf
or -inf, e.g. an overflowing product or a division by a subnormal — is replaced by `None`, a finite one is emitted. -/
theorem C13_final_test :
    Extracted.Formula.resultIsNone .nan = true ∧ (∀ n, Extracted.Formula.resultIsNone (.inf n) = true) ∧
    (∀ q, Extracted.Formula.resultIsNone (.finite q) = false) := by
  refine ⟨by decide, fun n => by cases n <;> decide, fun q => ?_⟩
  simp [Extracted.Formula.resultIsNone, PyF.isnanC, PyF.isinfC, PyF.isfiniteC]

/-- Evaluating any expression tree never raises and yields exactly what the property demands. -/
theorem C13_eval (zf : Nat → Bool) (env : Env) (a : Ast) : evalAst zf env a = .ok (expected zf env a) :=
  evalAst_expected zf env a

/-- The property: for every program and every sequence of rounds the engine emits exactly one sample per round,
in order, carrying the round's timestamp and the value `expected` (so: `None` iff a needed input is missing on a
non-zeroing stream or the value is undefined, and missing values on zeroing streams count as 0). -/
def C13_statement : Prop :=
  (∀ (e : E) (pad : Nat → List Char) (zf : Nat → Bool), (∀ k, ∀ c ∈ pad k, isWs c = true) →
    ∃ steps, fromString (render pad e.raw) zf = some steps ∧
      ∀ rounds : List (Int × Env), engineRun steps rounds = rounds.map fun r => ⟨r.1, expected zf r.2 e.ast⟩) ∧
  (∀ (h : HO) (z : Bool) (rounds : List (Int × Env)),
    engineRun (hoBuild h z) rounds = rounds.map fun r => ⟨r.1, expected (fun _ => z) r.2 h.ast⟩)

theorem C13_full : C13_statement := by
  refine ⟨?_, ?_⟩
  · intro e pad zf hpad
    refine ⟨_, fromString_render zf e pad hpad, ?_⟩
    intro rounds
    exact engineRun_of_run (f := fun env => expected zf env e.ast)
      (fun env => by rw [string_core, C13_eval]) rounds
  · intro h z rounds
    exact engineRun_of_run (f := fun env => expected (fun _ => z) env h.ast)
      (fun env => by rw [hoBuild_core, api_core, C13_eval]) rounds

/-- Exactly one sample per input timestamp (string formulas and composed formulas). -/
theorem C13_total :
    (∀ (e : E) (pad : Nat → List Char) (zf : Nat → Bool), (∀ k, ∀ c ∈ pad k, isWs c = true) →
      ∃ steps, fromString (render pad e.raw) zf = some steps ∧
        ∀ rounds : List (Int × Env), (engineRun steps rounds).map (·.ts) = rounds.map (·.1)) ∧
    (∀ (h : HO) (z : Bool) (rounds : List (Int × Env)),
      (engineRun (hoBuild h z) rounds).map (·.ts) = rounds.map (·.1)) := by
  refine ⟨?_, ?_⟩
  · intro e pad zf hpad
    obtain ⟨steps, h1, h2⟩ := C13_full.1 e pad zf hpad
    exact ⟨steps, h1, fun rounds => by simp [h2 rounds, Function.comp_def]⟩
  · intro h z rounds
    simp [C13_full.2 h z rounds, Function.comp_def]

/-- `None` is emitted exactly when an input of the expression is missing on a stream that does not zero missing
values, or ordinary arithmetic on the (zero-completed) inputs is undefined. -/
theorem C13_none_iff (zf : Nat → Bool) (env : Env) (a : Ast) :
    expected zf env a = none ↔
      ((∃ n ∈ a.ids, (env n).missing = true ∧ zf n = false) ∨ evalQ (zeroed env) a = none) := by
  unfold expected
  by_cases h : missingNeeded zf env a = true
  · simp only [h, if_true, true_iff]
    left
    simpa [missingNeeded, List.any_eq_true] using h
  · simp only [h, if_false]
    constructor
    · exact Or.inr
    · rintro (⟨n, hn, hm, hz⟩ | hq)
      · exfalso; apply h
        simp only [missingNeeded, List.any_eq_true]
        exact ⟨n, hn, by simp [hm, hz]⟩
      · exact hq

/-- On a stream configured with `nones_are_zeros` a missing value behaves exactly like the value 0. -/
theorem C13_zeroing (zf : Nat → Bool) (env : Env) (a : Ast) :
    expected zf (fun n => if (env n).missing && zf n then .val 0 else env n) a = expected zf env a := by
  have h1 : missingNeeded zf (fun n => if (env n).missing && zf n then .val 0 else env n) a =
      missingNeeded zf env a := by
    unfold missingNeeded
    congr 1
    funext n
    cases he : env n <;> cases hz : zf n <;> simp [Inp.missing, he, hz]
  have h2 : zeroed (fun n => if (env n).missing && zf n then .val 0 else env n) = zeroed env := by
    funext n
    simp only [zeroed]
    cases he : env n <;> cases hz : zf n <;> simp [Inp.missing, he, hz]
  unfold expected
  rw [h1, h2]

/-- Every encoding of "missing" (None, NaN, +inf, -inf) is treated alike. -/
theorem C13_encoding (zf : Nat → Bool) (env env' : Env) (a : Ast)
    (h : ∀ n, (env n = env' n) ∨ ((env n).missing = true ∧ (env' n).missing = true)) :
    expected zf env a = expected zf env' a := by
  have h1 : missingNeeded zf env a = missingNeeded zf env' a := by
    unfold missingNeeded
    congr 1
    funext n
    rcases h n with h | ⟨h, h'⟩
    · rw [h]
    · rw [h, h']
  have h2 : zeroed env = zeroed env' := by
    funext n
    rcases h n with h | ⟨h, h'⟩
    · simp [zeroed, h]
    · simp only [zeroed]
      cases he : env n <;> cases he' : env' n <;> simp_all [Inp.missing]
  unfold expected
  rw [h1, h2]

/-- The clip step (`FormulaBuilder.push_clipper`; body extracted from `Clipper.apply`), every configuration of the
two optional bounds: it never raises, its result is NaN exactly when its operand is — a missing operand is NOT replaced
by a bound — and a present operand is clipped (lower bound first). -/
theorem C13_clip_positions (lo hi : Option Rat) (a : V) : clipVal lo hi a = .ok none ↔ a = none := by
  rw [clipVal_spec]
  cases a <;> simp [clipSpec]

theorem C13_clip_value (lo hi : Option Rat) (x : Rat) : clipVal lo hi (some x) = .ok (some (clampQ lo hi x)) := by
  rw [clipVal_spec]; rfl

/-- A program `<operand program> ; clip(lo, hi)` on one round: the sample is `None` exactly when the operand's value is
NaN (so a missing input under a clip gives `None`, whatever the bounds), else the clipped value. -/
theorem C13_clip_step (env : Env) (c : List Step) (lo hi : Option Rat) (v : V) (hc : exec env c [] = .ok [v]) :
    run (c ++ [.clip lo hi]) env = .ok (clipSpec lo hi v) := by
  unfold run
  rw [exec_append, hc]
  show (exec env [.clip lo hi] [v] >>= _) = _
  simp only [exec, applyStep, PyF.unStep, clipVal_spec, Except.map, bind, Except.bind]
  exact congrArg Except.ok (emitValue_id _)

/-! Non-vacuity and the two former defects as concrete instances. -/

-- max with a missing SECOND operand, and a division by zero: `None`, not `1` / not "no sample"
example : engineRun (hoBuild (.pushEng (.start 1) .max 2) false)
    [(7, fun n => if n = 1 then .val 1 else .none)] = [⟨7, none⟩] := by
  rw [C13_full.2]; decide

example : fromString "#1 / #2".toList (fun _ => false) = some [.metric 1 false, .metric 2 false, .op .div] ∧
    engineRun [.metric 1 false, .metric 2 false, .op .div]
      [(3, fun n => if n = 1 then .val 1 else .val 0), (4, fun n => if n = 1 then .val 1 else .val 2)] =
      [⟨3, none⟩, ⟨4, some (1 / 2)⟩] :=
  ⟨by decide, by decide +kernel⟩

example : expected (fun n => n == 2) (fun n => if n = 1 then .val 3 else .nan) (.bin .add (.metric 1) (.metric 2)) =
    some 3 := by decide +kernel

-- a missing operand under a clip with a lower bound: `None`, not the bound; a present one is clipped
example : engineRun [.metric 1 false, .metric 2 false, .clip (some 0) (some 100), .op .add]
    [(1, fun n => if n = 1 then .val 5 else .nan), (2, fun n => if n = 1 then .val 5 else .val (-3)),
     (3, fun n => if n = 1 then .val 5 else .val 250)] = [⟨1, none⟩, ⟨2, some 5⟩, ⟨3, some 105⟩] := by
  decide +kernel

/-- **The hand-written evaluator model is the current source text.**  `Extracted.FormulaLoops.metricFetcherApply` is
machine-translated from `MetricFetcher.apply` (`_formula_steps.py`; once per kind of the latest sample's value: None,
NaN, ±inf, finite), `evaluatorApply` from `FormulaEvaluator.apply` (`_formula_evaluator.py`: the loop over the steps as
ONE iteration under `pyLoopM`, the size check, the pop, the final test) on every run.  For ALL arguments:
(1) `MetricFetcher.apply` pushes `Formula.fetch`; (2) `FormulaEvaluator.apply` — the dynamic dispatch `step.apply` being
`Formula.applyStep env`, whose arithmetic bodies are `Extracted.Formula.*` — is `Formula.run` (exceptions included). -/
theorem C13_model_is_source :
    (∀ (z : Bool) (inp : Inp) (st : List V),
      Extracted.FormulaLoops.metricFetcherApply z inp st = fetch z inp :: st) ∧
    (∀ (steps : List Step) (env : Env),
      Extracted.FormulaLoops.evaluatorApply (applyStep env) steps = run steps env) :=
  ⟨ShuntingTie.metricFetcherApply_eq, ShuntingTie.evaluatorApply_eq⟩
