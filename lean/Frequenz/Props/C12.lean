/-
C12 — generated microgrid power formulas balance for every valid component topology.

Model: `Frequenz/Model/Graph.lean` (trees; classification predicates, `dfs` and the generators
parametrised by the tables of `Frequenz/Extracted/Graph.lean`).  Quantifier: every tree accepted by
`validate()` inside the property's side conditions (`Grid.admissible`: the grid has successors, CHPs are
metered, battery inverters have batteries), every reading `env` of the components in which each meter
measures the sum of what is below it plus its unmetered load, unmetered load only at meters not
dedicated to one device type (`Grid.reading`).  No bound on size or depth: structural induction.

Pinned behaviour: the consumer formula WITHOUT a grid meter sums the first meters that are not
dedicated to one device type and never subtracts the devices below them — `C12_consumer_full_refuted`,
`C12_consumer_partial` (regime `NoGridMeterMixedMeter`), and the pool formulas (battery, PV) for a
sub-pool that shares a dedicated meter with devices outside the pool use the shared meter —
`C12_battery_pool_refuted` / `C12_pv_pool_refuted`, `…_partial` (regime `SubPoolSharedMeter`).
-/
import Frequenz.Lemmas.GraphFormulas
import Frequenz.Lemmas.GraphVisited
import Frequenz.Lemmas.GraphTie

open Graph Extracted.Graph

/-! ## The tables the model relies on -/

/-- `grid 1 → {pvInv 2, meter 3 → {batInv 4 → bat 5, ev 6}}` (also the consumer witness below). -/
def C12_ex0 : Grid := ⟨1, [.pvInv 2, .meter 3 [.batInv 4 [5], .ev 6]]⟩

/-- `dfs` starts at the grid and walks into batteries; the model skips both.  Justification: no
classification predicate and no category set used by the generators accepts GRID, BATTERY or NONE. -/
theorem C12_root_and_batteries_never_match :
    [Cat.grid, Cat.battery, Cat.none].all (fun c =>
      [Leaf.pvInverter, .batteryInverter, .evCharger, .chp].all (fun l =>
        [InvType.none, .battery, .solar, .hybrid].all (fun t => !l.test c t))
      && [MeterPred.pvMeter, .batteryMeter, .evChargerMeter, .chpMeter].all (fun m => m.spec.cat != c)
      && !consumerCats.contains c && areGridMetersCat != c && fallbackPrimaryCat != c) = true := by
  decide

/-- A formula without components subscribes to `NON_EXISTING_COMPONENT_ID` with `nones_are_zeros=True`,
so the missing data counts as 0 (this is what `Grid.reading` assumes about that id). -/
theorem C12_non_existing_counts_as_zero :
    ∀ nz ∈ [consumerNoneNaz, producerNoneNaz, pvNoneNaz, batteryNoneNaz, evNoneNaz, chpNoneNaz],
      nazEval nz .none = true := by
  decide

/-- Every generated power formula (and the fallback formulas) reads the active-power metric. -/
theorem C12_metric_ids : metricIds.all (fun p => p.2 == "ACTIVE_POWER") = true := by decide

/-- `dfs` with its `visited` set (`dfsVL`, started with the grid already visited) returns exactly the
components of the plain recursive descent used by the model's generators, on every tree whose
component ids (grid, meters, devices, batteries) are pairwise distinct — as they are in any
`_MicrogridComponentGraph`, whose nodes are keyed by id. -/
theorem C12_visited_set_is_dead_code : ∀ (g : Grid) (cond : Pos → Node → Bool),
    (g.id :: allIdsL g.succ).Nodup →
    (dfsVL cond (topPos g) none [g.id] g.succ).2 = dfsFromGrid cond g := by
  intro g cond hn
  rw [List.nodup_cons] at hn
  refine (dfsVL_eq cond g.succ (topPos g) none [g.id] ?_ hn.2).1
  intro i hi hmem
  rw [List.mem_singleton] at hmem
  subst hmem
  exact hn.1 hi

example : (C12_ex0.id :: allIdsL C12_ex0.succ).Nodup := by decide

/-! ## Witnesses -/

/-- `grid 1 → {pvInv 2, meter 3 → {batInv 4 → bat 5, ev 6}}` -/
def C12_w : Grid := ⟨1, [.pvInv 2, .meter 3 [.batInv 4 [5], .ev 6]]⟩
/-- PV −5 W, battery 3 W, EV 7 W, 1 W of unmetered load at meter 3 (which therefore reads 11 W). -/
def C12_wEnv : Nat → Rat := fun i => if i = 2 then -5 else if i = 4 then 3 else if i = 6 then 7 else if i = 3 then 11 else 0
def C12_wLoad : Nat → Rat := fun i => if i = 3 then 1 else 0

/-- `grid 1 → meter 2 → {meter 3 → {batInv 4 → bat 5, batInv 6 → bat 7}, meter 8 → {pvInv 9, pvInv 10}}` -/
def C12_w2 : Grid := ⟨1, [.meter 2 [.meter 3 [.batInv 4 [5], .batInv 6 [7]], .meter 8 [.pvInv 9, .pvInv 10]]]⟩
def C12_w2Env : Nat → Rat := fun i =>
  if i = 4 then 3 else if i = 6 then 4 else if i = 3 then 7 else if i = 9 then -1 else if i = 10 then -2
  else if i = 8 then -3 else if i = 2 then 9 else 0
def C12_w2Load : Nat → Rat := fun i => if i = 2 then 5 else 0

/-! ## The true totals -/

/-- Grid power = everything behind the connection point. -/
def C12_trueGrid (g : Grid) (env load : Nat → Rat) : Rat :=
  g.loadTotal load + (g.pvTotal env + g.chpTotal env) + g.batTotal env + g.evTotal env

/-! ## Clauses that hold for every admissible tree -/

def C12_grid_statement : Prop := ∀ (g : Grid) (env load : Nat → Rat),
  g.admissible = true → g.reading env load = true → evalF env (gridFormula g) = some (C12_trueGrid g env load)

theorem C12_grid : C12_grid_statement := by
  intro g env load ha hr
  have h := hyp_of g env load ha hr
  rw [(grid_good g env load h).eval, devSumL_all]
  simp only [C12_trueGrid, Grid.loadTotal, Grid.pvTotal, Grid.chpTotal, Grid.batTotal, Grid.evTotal]
  congr 1; grind

def C12_producer_statement : Prop := ∀ (g : Grid) (env load : Nat → Rat),
  g.admissible = true → g.reading env load = true →
    evalF env (producerFormula g) = some (g.pvTotal env + g.chpTotal env)

theorem C12_producer : C12_producer_statement :=
  fun g env load ha hr => (producer_good g env load (hyp_of g env load ha hr)).eval

/-- The microgrid's battery formula (`BatteryPool` over all batteries). -/
def C12_battery_statement : Prop := ∀ (g : Grid) (env load : Nat → Rat),
  g.admissible = true → g.reading env load = true → evalF env (batteryFormula g g.allBats) = some (g.batTotal env)

theorem C12_battery : C12_battery_statement :=
  fun g env load ha hr =>
    (battery_all_good g env load (hyp_of g env load ha hr) g.allBats (fun _ h => h) (by simp)).eval

/-- The PV formula, on both code paths: searching the graph, and from the ids of all PV inverters (`PVPool`). -/
def C12_pv_statement : Prop := ∀ (g : Grid) (env load : Nat → Rat),
  g.admissible = true → g.reading env load = true →
    evalF env (pvFormula g none) = some (g.pvTotal env) ∧ evalF env (pvFormula g (some g.allPv)) = some (g.pvTotal env)

theorem C12_pv : C12_pv_statement :=
  fun g env load ha hr =>
    ⟨(pv_dfs_good g env load (hyp_of g env load ha hr)).eval,
     (pv_all_good g env load (hyp_of g env load ha hr) g.allPv (fun _ h => h)).eval⟩

def C12_ev_statement : Prop := ∀ (g : Grid) (env load : Nat → Rat),
  g.admissible = true → g.reading env load = true → evalF env (evFormula g.allEv) = some (g.evTotal env)

theorem C12_ev : C12_ev_statement :=
  fun g env load ha hr => (ev_good g env (hyp_of g env load ha hr).none0).eval

def C12_chp_statement : Prop := ∀ (g : Grid) (env load : Nat → Rat),
  g.admissible = true → g.reading env load = true → evalF env (chpFormula g) = some (g.chpTotal env)

theorem C12_chp : C12_chp_statement :=
  fun g env load ha hr => (chp_good g env load (hyp_of g env load ha hr)).eval

/-! ## Consumer power -/

def C12_consumer_statement : Prop := ∀ (g : Grid) (env load : Nat → Rat),
  g.admissible = true → g.reading env load = true → evalF env (consumerFormula g) = some (g.loadTotal load)

/-- Violated on the pinned tree: the formula is `#3` (battery + EV + load = 11 W), the consumption is 1 W. -/
theorem C12_consumer_full_refuted : ¬ C12_consumer_statement := by
  intro h
  have := h C12_w C12_wEnv C12_wLoad (by decide +kernel) (by decide +kernel)
  revert this
  decide +kernel

/-- With grid meters (all grid successors are meters that are not dedicated to one device type). -/
theorem C12_consumer_with_grid_meter : ∀ (g : Grid) (env load : Nat → Rat),
    g.admissible = true → g.reading env load = true → areGridMeters g = true →
    evalF env (consumerFormula g) = some (g.loadTotal load) :=
  fun g env load ha hr hg => (consumer_with_good g env load (hyp_of g env load ha hr) hg).eval

/-- What the pinned formula computes without a grid meter: the unmetered loads plus every device below
the meters it picks. -/
theorem C12_consumer_without_grid_meter : ∀ (g : Grid) (env load : Nat → Rat),
    g.admissible = true → g.reading env load = true → areGridMeters g = false →
    evalF env (consumerFormula g)
      = some (g.loadTotal load + sumDevFound env (dfsFromGrid consumerCond g)) :=
  fun g env load ha hr hg => (consumer_without_good g env load (hyp_of g env load ha hr) hg).eval

/-- Outside the regime `NoGridMeterMixedMeter` the consumer formula is the consumption. -/
theorem C12_consumer_partial : ∀ (g : Grid) (env load : Nat → Rat),
    g.admissible = true → g.reading env load = true → noGridMeterMixedMeter g = false →
    evalF env (consumerFormula g) = some (g.loadTotal load) := by
  intro g env load ha hr hreg
  by_cases hg : areGridMeters g = true
  · exact C12_consumer_with_grid_meter g env load ha hr hg
  · have hg' : areGridMeters g = false := by simpa using hg
    have hany : (dfsFromGrid consumerCond g).any (fun f => f.node.hasDevice) = false := by
      simpa [noGridMeterMixedMeter, hg'] using hreg
    rw [C12_consumer_without_grid_meter g env load ha hr hg', sumDevFound_noDevice env _ hany]
    congr 1; grind

/-! ## Balance: grid = consumer + producer + battery + EV chargers -/

def C12_balanced (g : Grid) (env : Nat → Rat) : Prop :=
  ∃ gr co pr ba ev : Rat,
    evalF env (gridFormula g) = some gr ∧ evalF env (consumerFormula g) = some co
      ∧ evalF env (producerFormula g) = some pr ∧ evalF env (batteryFormula g g.allBats) = some ba
      ∧ evalF env (evFormula g.allEv) = some ev ∧ gr = co + pr + ba + ev

def C12_balance_statement : Prop := ∀ (g : Grid) (env load : Nat → Rat),
  g.admissible = true → g.reading env load = true → C12_balanced g env

/-- Wherever the consumer formula is right, the generated formulas balance. -/
theorem C12_balance : ∀ (g : Grid) (env load : Nat → Rat),
    g.admissible = true → g.reading env load = true → noGridMeterMixedMeter g = false → C12_balanced g env :=
  fun g env load ha hr hreg =>
    ⟨_, _, _, _, _, C12_grid g env load ha hr, C12_consumer_partial g env load ha hr hreg,
      C12_producer g env load ha hr, C12_battery g env load ha hr, C12_ev g env load ha hr, rfl⟩

/-- On the witness grid = #2 + #3 = 6 W but consumer + producer + battery + EV = 11 − 5 + 3 + 7 = 16 W. -/
theorem C12_balance_full_refuted : ¬ C12_balance_statement := by
  intro h
  obtain ⟨gr, co, pr, ba, ev, h1, h2, h3, h4, h5, h6⟩ :=
    h C12_w C12_wEnv C12_wLoad (by decide +kernel) (by decide +kernel)
  have e1 : evalF C12_wEnv (gridFormula C12_w) = some 6 := by decide +kernel
  have e2 : evalF C12_wEnv (consumerFormula C12_w) = some 11 := by decide +kernel
  have e3 : evalF C12_wEnv (producerFormula C12_w) = some (-5) := by decide +kernel
  have e4 : evalF C12_wEnv (batteryFormula C12_w C12_w.allBats) = some 3 := by decide +kernel
  have e5 : evalF C12_wEnv (evFormula C12_w.allEv) = some 7 := by decide +kernel
  rw [e1] at h1; rw [e2] at h2; rw [e3] at h3; rw [e4] at h4; rw [e5] at h5
  cases h1; cases h2; cases h3; cases h4; cases h5
  revert h6
  decide +kernel

/-! ## The whole property -/

/-- C12 as written: all seven formulas evaluate to the true totals (and hence balance). -/
def C12_statement : Prop :=
  C12_grid_statement ∧ C12_consumer_statement ∧ C12_producer_statement ∧ C12_battery_statement
    ∧ C12_pv_statement ∧ C12_ev_statement ∧ C12_chp_statement ∧ C12_balance_statement

theorem C12_full_refuted : ¬ C12_statement := fun h => C12_consumer_full_refuted h.2.1

/-- Everything holds outside the known-finding regime (a predicate of the graph alone). -/
theorem C12_partial : ∀ (g : Grid) (env load : Nat → Rat),
    g.admissible = true → g.reading env load = true → noGridMeterMixedMeter g = false →
    evalF env (gridFormula g) = some (C12_trueGrid g env load)
      ∧ evalF env (consumerFormula g) = some (g.loadTotal load)
      ∧ evalF env (producerFormula g) = some (g.pvTotal env + g.chpTotal env)
      ∧ evalF env (batteryFormula g g.allBats) = some (g.batTotal env)
      ∧ evalF env (pvFormula g none) = some (g.pvTotal env)
      ∧ evalF env (pvFormula g (some g.allPv)) = some (g.pvTotal env)
      ∧ evalF env (evFormula g.allEv) = some (g.evTotal env)
      ∧ evalF env (chpFormula g) = some (g.chpTotal env)
      ∧ C12_balanced g env :=
  fun g env load ha hr hreg =>
    ⟨C12_grid g env load ha hr, C12_consumer_partial g env load ha hr hreg, C12_producer g env load ha hr,
      C12_battery g env load ha hr, (C12_pv g env load ha hr).1, (C12_pv g env load ha hr).2,
      C12_ev g env load ha hr, C12_chp g env load ha hr, C12_balance g env load ha hr hreg⟩

/-! ## Fallback formulas: Σ fallback components = primary component -/

/-- Every fallback formula of every generated formula measures what its primary component measures
(also for the consumer formula in the known-finding regime). -/
theorem C12_fallbacks : ∀ (g : Grid) (env load : Nat → Rat),
    g.admissible = true → g.reading env load = true →
    (gridFormula g).fallbacksOk env = true ∧ (consumerFormula g).fallbacksOk env = true
      ∧ (producerFormula g).fallbacksOk env = true ∧ (batteryFormula g g.allBats).fallbacksOk env = true
      ∧ (pvFormula g none).fallbacksOk env = true ∧ (pvFormula g (some g.allPv)).fallbacksOk env = true := by
  intro g env load ha hr
  have h := hyp_of g env load ha hr
  refine ⟨(grid_good g env load h).fb, ?_, (producer_good g env load h).fb,
    (battery_all_good g env load h g.allBats (fun _ h => h) (by simp)).fb,
    (pv_dfs_good g env load h).fb, (pv_all_good g env load h g.allPv (fun _ h => h)).fb⟩
  by_cases hg : areGridMeters g = true
  · exact (consumer_with_good g env load h hg).fb
  · exact (consumer_without_good g env load h (by simpa using hg)).fb

/-! ## Sub-pools (probe of DESIGN §4 C12): battery / PV formulas of a pool that is not the whole microgrid -/

/-- A battery pool `S` (requested battery ids; whole inverters only) reports the power of its inverters. -/
def C12_battery_pool_statement : Prop := ∀ (g : Grid) (S : List Nat) (env load : Nat → Rat),
  g.admissible = true → g.reading env load = true → S.isEmpty = false → batErrL S g.succ = false →
    evalF env (batteryFormula g S) = some (devSumL (batSel S) env g.succ)
      ∧ (batteryFormula g S).fallbacksOk env = true

/-- Violated: pool {battery 5} behind the battery meter 3 shared with inverter 6: the formula is `#3`
(3 W + 4 W), the pool's inverter delivers 3 W; the fallback `#4` disagrees with its primary. -/
theorem C12_battery_pool_refuted : pairRequiresAllRequested = false → ¬ C12_battery_pool_statement := by
  intro hp h
  have := (h C12_w2 [5] C12_w2Env C12_w2Load (by decide +kernel) (by decide +kernel) (by decide) (by decide +kernel)).1
  simp only [batteryFormula, hp] at this
  revert this
  decide +kernel

/-- Holds for pools that share no dedicated meter with outside devices — and for every pool once
`_get_metric_fallback_components` pairs only when all successors of the meter are requested
(`fixes/C12-subpool-shared-meter.patch`; the flag is extracted from the source). -/
theorem C12_battery_pool_partial : ∀ (g : Grid) (S : List Nat) (env load : Nat → Rat),
    g.admissible = true → g.reading env load = true → S.isEmpty = false → batErrL S g.succ = false →
    (pairRequiresAllRequested = true ∨ subPoolSharedMeter (batSel S) g = false) →
    evalF env (batteryFormula g S) = some (devSumL (batSel S) env g.succ)
      ∧ (batteryFormula g S).fallbacksOk env = true := by
  intro g S env load ha hr hne herr hreg
  have hc : pairRequiresAllRequested = true ∨ poolClosedL (batSel S) (topPos g) g.succ = true := by
    rcases hreg with h | h
    · exact Or.inl h
    · right; simpa [subPoolSharedMeter] using h
  have := battery_pool_good pairRequiresAllRequested g env load (hyp_of g env load ha hr) S hne herr hc
  exact ⟨this.eval, this.fb⟩

/-- A PV pool (ids of some PV inverters) reports the power of its inverters. -/
def C12_pv_pool_statement : Prop := ∀ (g : Grid) (i : Nat) (is : List Nat) (env load : Nat → Rat),
  g.admissible = true → g.reading env load = true →
    evalF env (pvFormula g (some (i :: is))) = some (devSumL (pvSel (i :: is)) env g.succ)
      ∧ (pvFormula g (some (i :: is))).fallbacksOk env = true

/-- Violated: pool {inverter 9} behind the PV meter 8 shared with inverter 10: the formula is `#8`. -/
theorem C12_pv_pool_refuted : pairRequiresAllRequested = false → ¬ C12_pv_pool_statement := by
  intro hp h
  have := (h C12_w2 9 [] C12_w2Env C12_w2Load (by decide +kernel) (by decide +kernel)).1
  simp only [pvFormula, hp] at this
  revert this
  decide +kernel

theorem C12_pv_pool_partial : ∀ (g : Grid) (i : Nat) (is : List Nat) (env load : Nat → Rat),
    g.admissible = true → g.reading env load = true →
    (pairRequiresAllRequested = true ∨ subPoolSharedMeter (pvSel (i :: is)) g = false) →
    evalF env (pvFormula g (some (i :: is))) = some (devSumL (pvSel (i :: is)) env g.succ)
      ∧ (pvFormula g (some (i :: is))).fallbacksOk env = true := by
  intro g i is env load ha hr hreg
  have hc : pairRequiresAllRequested = true ∨ poolClosedL (pvSel (i :: is)) (topPos g) g.succ = true := by
    rcases hreg with h | h
    · exact Or.inl h
    · right; simpa [subPoolSharedMeter] using h
  have := pv_pool_good pairRequiresAllRequested g env load (hyp_of g env load ha hr) i is hc
  exact ⟨this.eval, this.fb⟩

/-- The refutations above are about the tree as extracted: one of the two cases applies. -/
example : pairRequiresAllRequested = false ∨ pairRequiresAllRequested = true := by decide

/-! ## Non-vacuity: concrete graphs and readings satisfying the hypotheses -/

/-- A graph with a grid meter, a mixed meter, dedicated PV / battery / CHP meters, loads at the
non-dedicated meters: admissible, a valid reading, outside both regimes. -/
def C12_ex : Grid :=
  ⟨1, [.meter 2 [.meter 3 [.pvInv 4, .pvInv 5], .meter 6 [.batInv 7 [8, 9]], .meter 10 [.chp 11],
                 .meter 12 [.ev 13, .batInv 14 [15], .meter 16 []]]]⟩
def C12_exEnv : Nat → Rat := fun i =>
  if i = 4 then -3 else if i = 5 then -4 else if i = 3 then -7 else if i = 7 then 5 else if i = 6 then 5
  else if i = 11 then -2 else if i = 10 then -2 else if i = 13 then 6 else if i = 14 then -1 else if i = 16 then 2
  else if i = 12 then 10 else if i = 2 then 7 else 0
def C12_exLoad : Nat → Rat := fun i => if i = 16 then 2 else if i = 12 then 3 else if i = 2 then 1 else 0

example : C12_ex.admissible = true ∧ C12_ex.reading C12_exEnv C12_exLoad = true
    ∧ noGridMeterMixedMeter C12_ex = false ∧ areGridMeters C12_ex = true
    ∧ evalF C12_exEnv (consumerFormula C12_ex) = some 6 := by decide +kernel

/-- Without a grid meter, outside the regime (the first meters found have no devices below them). -/
example : (⟨1, [.pvInv 2, .meter 3 [.pvInv 4], .meter 5 [.meter 6 []]]⟩ : Grid).admissible = true
    ∧ areGridMeters ⟨1, [.pvInv 2, .meter 3 [.pvInv 4], .meter 5 [.meter 6 []]]⟩ = false
    ∧ noGridMeterMixedMeter ⟨1, [.pvInv 2, .meter 3 [.pvInv 4], .meter 5 [.meter 6 []]]⟩ = false
    ∧ (⟨1, [.pvInv 2, .meter 3 [.pvInv 4], .meter 5 [.meter 6 []]]⟩ : Grid).reading
        (fun i => if i = 2 then -1 else if i = 4 then -2 else if i = 3 then -2 else if i = 6 then 4 else if i = 5 then 9 else 0)
        (fun i => if i = 6 then 4 else if i = 5 then 5 else 0) = true := by decide +kernel

/-- The witnesses satisfy the hypotheses, and lie inside the regimes. -/
example : C12_w.admissible = true ∧ C12_w.reading C12_wEnv C12_wLoad = true ∧ noGridMeterMixedMeter C12_w = true := by
  decide +kernel

example : C12_w2.admissible = true ∧ C12_w2.reading C12_w2Env C12_w2Load = true
    ∧ subPoolSharedMeter (batSel [5]) C12_w2 = true ∧ subPoolSharedMeter (pvSel [9]) C12_w2 = true
    ∧ subPoolSharedMeter (batSel [5, 7]) C12_w2 = false ∧ batErrL [5, 7] C12_w2.succ = false := by decide +kernel

/-! ## History-freedom of one long-lived graph object -/

/-- Whatever sequence of `refresh_from`s and generation rounds one graph object went through, every round
generates exactly what a fresh graph of the topology installed last would generate.  Rests on the
extracted fact `predicatesReadCurrentGraphOnly` (no classification verdict survives a refresh). -/
def C12_history_free_statement : Prop := ∀ (g₀ : Grid) (es : List Event),
  (Live.run ⟨g₀, none⟩ es) = runFresh g₀ es

theorem C12_history_free : C12_history_free_statement := by
  have hv : ∀ l : Live, l.view = l.topo := by
    intro l; simp [Live.view, predicatesReadCurrentGraphOnly]
  have h : ∀ (es : List Event) (l : Live), l.run es = runFresh l.topo es := by
    intro es
    induction es with
    | nil => intro l; rfl
    | cons e es ih =>
      intro l
      cases e with
      | refresh g => simp [Live.run, Live.step, runFresh, ih]
      | generate r => simp [Live.run, Live.step, runFresh, ih, hv]
  intro g₀ es
  exact h es ⟨g₀, none⟩

/-- Non-vacuity: a dedicated PV meter 3 that becomes a mixed meter (EV charger 6 added below it) between two
rounds: the second round no longer treats it as part of a PV chain. -/
example :
    let a : Grid := ⟨1, [.meter 2 [.meter 3 [.pvInv 4, .pvInv 5], .ev 9]]⟩
    let b : Grid := ⟨1, [.meter 2 [.meter 3 [.pvInv 4, .pvInv 5, .ev 6], .ev 9]]⟩
    ((Live.run ⟨a, none⟩ [.generate ⟨none, none, none⟩, .refresh b, .generate ⟨none, none, none⟩]).map
        (fun o => (o.producer.toOption.map (fun ts => ts.map (·.id))))) = [some [3], some [4, 5]] := by
  decide +kernel

/-- Non-vacuity for chained DC wiring (battery 10 on inverters 4 and 5, battery 11 on inverters 5 and 6, all
behind the battery meter 3): admissible, and the battery formula is the meter with all three inverters as
fallback. -/
example :
    let g : Grid := ⟨1, [.meter 2 [.meter 3 [.batInv 4 [10], .batInv 5 [10, 11], .batInv 6 [11]]]]⟩
    g.admissible = true ∧ batErrL g.allBats g.succ = false
      ∧ (batteryFormula g g.allBats).toOption.map (fun ts => ts.map (fun t => (t.id, t.fb.map (·.1))))
          = some [(3, [4, 5, 6])] := by
  decide +kernel

/-! ## The hand-written model is the current source text -/

/-- **Model is source.**  `Extracted.GraphLoops.*` is machine-translated on every run from the current text of
`component_graph.py` and of the formula generators (`tools/extractors/graph_loops.py`: symbolic execution of the Python
functions on components-with-their-place, loops summarised by what they compute, `dfs` as a fuel-recursive function).
For ALL graphs / components:
(1) `is_grid_meter`, the four device tests, the four `is_*_meter` and the four `is_*_chain` are the model's
    `isGridMeter`, `leafTest`, `meterPred`, `chain` (at the component's position);
(2) `_is_primary_fallback_pair` and `_get_meter_fallback_components` are the model's `isPrimaryFallbackPair` /
    `meterFallback`;
(3) `dfs(grid, set(), cond)` — the Python function with its `visited` set, translated with fuel (recursive as it is
    written today; an iterative rewrite with an explicit stack is translated as a worklist loop and goes through
    `GraphTie.work_spec`) — returns exactly the components of the model's `dfsFromGrid`, as a set (in some order,
    without duplicates), for every condition that agrees with a model condition on meters
    and devices and rejects grid and batteries, on every graph with `GraphTie.DistinctIds` (grid / meter / device ids
    pairwise distinct and different from the battery ids; batteries may be shared);
(4) one iteration of `_get_metric_fallback_components` is: the primary category gets its meter-fallback components;
    another component joins the entry of its predecessor iff the two are a primary/fallback pair and
    (`pairRequiresAllRequested`) all successors of the predecessor were requested; else it is its own primary — and on
    components with distinct ids none of which is so paired the whole loop makes one entry per component, in order;
(5) `GridPowerFormula.generate()`, `ProducerPowerFormula.generate()` and `ConsumerPowerFormula.generate()` (both
    branches; the conditions handed to `dfs`, `_are_grid_meters`, which ids are pushed with which sign,
    `nones_are_zeros` and fallback formula) equal the model's `gridFormula` (as lists), `producerFormula` and
    `consumerFormula` (`GraphTie.FormulaEquiv`: the same error, or the same terms up to their order — Python iterates
    over sets). -/
theorem C12_model_is_source :
    (∀ (root : Grid) (anc : List Node) (n : Node),
      Extracted.GraphLoops.isGridMeter (GraphTie.mk root anc n) = isGridMeter (GraphTie.posOf root anc) n
      ∧ Extracted.GraphLoops.isPvInverter (GraphTie.mk root anc n) = leafTest .pvInverter n
      ∧ Extracted.GraphLoops.isBatteryInverter (GraphTie.mk root anc n) = leafTest .batteryInverter n
      ∧ Extracted.GraphLoops.isEvCharger (GraphTie.mk root anc n) = leafTest .evCharger n
      ∧ Extracted.GraphLoops.isChp (GraphTie.mk root anc n) = leafTest .chp n
      ∧ Extracted.GraphLoops.isPvMeter (GraphTie.mk root anc n) = meterPred .pvMeter (GraphTie.posOf root anc) n
      ∧ Extracted.GraphLoops.isBatteryMeter (GraphTie.mk root anc n) = meterPred .batteryMeter (GraphTie.posOf root anc) n
      ∧ Extracted.GraphLoops.isEvChargerMeter (GraphTie.mk root anc n) = meterPred .evChargerMeter (GraphTie.posOf root anc) n
      ∧ Extracted.GraphLoops.isChpMeter (GraphTie.mk root anc n) = meterPred .chpMeter (GraphTie.posOf root anc) n
      ∧ Extracted.GraphLoops.isPvChain (GraphTie.mk root anc n) = chain .pv (GraphTie.posOf root anc) n
      ∧ Extracted.GraphLoops.isBatteryChain (GraphTie.mk root anc n) = chain .battery (GraphTie.posOf root anc) n
      ∧ Extracted.GraphLoops.isEvChargerChain (GraphTie.mk root anc n) = chain .evCharger (GraphTie.posOf root anc) n
      ∧ Extracted.GraphLoops.isChpChain (GraphTie.mk root anc n) = chain .chp (GraphTie.posOf root anc) n) ∧
    (∀ (root : Grid) (ancp anc : List Node) (p n : Node),
      Extracted.GraphLoops.isPrimaryFallbackPair (GraphTie.mk root ancp p) (GraphTie.mk root anc n)
        = isPrimaryFallbackPair (GraphTie.posOf root ancp) p n) ∧
    (∀ (root : Grid) (anc : List Node) (n : Node),
      Extracted.GraphLoops.meterFallbackComponents (GraphTie.mk root anc n)
        = (meterFallback n).map (GraphTie.mk root (n :: anc))) ∧
    (∀ (g : Grid) (condS : Comp → Bool) (condM : Pos → Node → Bool),
      (∀ anc n, condS (GraphTie.mk g anc n) = condM (GraphTie.posOf g anc) n) →
      (∀ b anc, condS ⟨.bat b, anc, g⟩ = false) → condS g.comp = false → GraphTie.DistinctIds g →
      ((Extracted.GraphLoops.dfs g.fuel g.comp [] condS).2.map Comp.found).Perm (dfsFromGrid condM g)
        ∧ ((Extracted.GraphLoops.dfs g.fuel g.comp [] condS).2.map Comp.id).Nodup) ∧
    (∀ (comps : List Comp) (d : CDict) (root : Grid) (anc : List Node) (n : Node),
      Extracted.GraphLoops.mfcStep comps d (GraphTie.mk root anc n) =
        if n.cat == fallbackPrimaryCat then
          CDict.set d (GraphTie.mk root anc n) (Extracted.GraphLoops.meterFallbackComponents (GraphTie.mk root anc n))
        else if Extracted.GraphLoops.isPrimaryFallbackPair (firstComp (GraphTie.mk root anc n).preds) (GraphTie.mk root anc n)
            && (!pairRequiresAllRequested || subsetIds (firstComp (GraphTie.mk root anc n).preds).succs comps)
          then CDict.addTo d (firstComp (GraphTie.mk root anc n).preds) (GraphTie.mk root anc n)
        else CDict.set d (GraphTie.mk root anc n) []) ∧
    (∀ (l : List Comp), (l.map Comp.id).Nodup →
      (∀ x ∈ l, x.cat ≠ Cat.meter → Extracted.GraphLoops.isPrimaryFallbackPair (firstComp x.preds) x = false) →
      Extracted.GraphLoops.metricFallbackComponents l = l.map GraphTie.ownEntry) ∧
    (∀ g : Grid, (g.succ.map Node.id).Nodup → Extracted.GraphLoops.gridFormula g true = gridFormula g) ∧
    (∀ g : Grid, GraphTie.DistinctIds g →
      GraphTie.FormulaEquiv (Extracted.GraphLoops.producerFormula g true) (producerFormula g)) ∧
    (∀ g : Grid, GraphTie.DistinctIds g →
      GraphTie.FormulaEquiv (Extracted.GraphLoops.consumerFormula g true) (consumerFormula g)) :=
  ⟨fun root anc n =>
      ⟨GraphTie.isGridMeter_tie root anc n, (GraphTie.leaf_tie root anc n).1, (GraphTie.leaf_tie root anc n).2.1,
        (GraphTie.leaf_tie root anc n).2.2.1, (GraphTie.leaf_tie root anc n).2.2.2,
        (GraphTie.meter_tie root anc n).1, (GraphTie.meter_tie root anc n).2.1, (GraphTie.meter_tie root anc n).2.2.1,
        (GraphTie.meter_tie root anc n).2.2.2, (GraphTie.chain_tie root anc n).1, (GraphTie.chain_tie root anc n).2.1,
        (GraphTie.chain_tie root anc n).2.2.1, (GraphTie.chain_tie root anc n).2.2.2⟩,
    GraphTie.pair_tie, GraphTie.meterFallback_tie,
    fun g condS condM hc hb hg hd =>
      ⟨(GraphTie.dfs_facts.fromGrid g condS condM hc hb hg hd).1, (GraphTie.dfs_facts.fromGrid g condS condM hc hb hg hd).2.1⟩,
    GraphTie.mfcStep_tie, GraphTie.mfc_eq, GraphTie.grid_tie, GraphTie.producer_tie GraphTie.dfs_facts,
    GraphTie.consumer_tie GraphTie.dfs_facts⟩

/-- Non-vacuity: the example graph has distinct ids, and the machine-translated generators compute on it the
non-trivial formulas of the model (consumer = `#2 − #3 − #6 − #10 − #13 − #14`, in some order). -/
example : GraphTie.DistinctIds C12_ex
    ∧ ((Extracted.GraphLoops.consumerFormula C12_ex true).toOption.map (fun ts => ts.map (fun t => (t.neg, t.id)))).any
        (fun l => l.length == 6
          && [(false, 2), (true, 3), (true, 6), (true, 10), (true, 13), (true, 14)].all (fun p => l.contains p)) = true := by
  refine ⟨⟨by decide, by decide⟩, ?_⟩
  decide +kernel

/-- **Model is source, the remaining generators and the pool formulas.**  Machine-translated from the current source
(`Extracted.GraphLoops`), for ALL graphs with `GraphTie.DistinctIds` (batteries may hang on several inverters):
(1) `EVChargerPowerFormula.generate()` is `evFormula` (as lists);
(2) `CHPPowerFormula.generate()` — `_get_chp_meters`: every CHP has exactly one predecessor, a meter, all of whose
    successors are CHPs; the SET of those meters — is `chpFormula` (errors, and the terms up to order);
(3) `PVPowerFormula.generate()` without ids (search from the grid) and with the ids of PV inverters (`PVPool`, also a part
    of the inverters): the components with these ids, the WHOLE loop of `_get_metric_fallback_components` with its
    primary/fallback pairs and the all-successors-requested rule, the fallback formulas — is `pvFormula` (`poolWalk`);
(4) the loop of `_get_metric_fallback_components` on any selection `sel` of devices makes, up to order, exactly the
    entries of the model's `poolTerms true sel g`;
(5) `BatteryPowerFormula.generate()` with `allow_fallback=False` (= the fallback formula of a battery meter): the error
    for a partially requested inverter and the inverters selected are `batErrL` / `batSel` (`GraphTie.batSelRef`);
(6) `BatteryPowerFormula.generate()` with fallbacks (`BatteryPool`, also a part of the batteries): the error conditions,
    and which primary components (inverters / the battery meters standing in for them) are pushed with which sign and
    `nones_are_zeros`, are `batteryFormula` (`GraphTie.FormulaEquivPrimary`; the fallback formulas attached to the
    battery terms are not part of this statement).
Side conditions: the requested ids are ids of the pool's devices (`GraphTie.IdsOf`), resp. battery ids of the graph. -/
theorem C12_model_is_source_pools :
    (∀ (g : Grid) (ids : List Nat), Extracted.GraphLoops.evFormula g ids = evFormula ids) ∧
    (∀ g : Grid, GraphTie.DistinctIds g → GraphTie.FormulaEquiv (Extracted.GraphLoops.chpFormula g) (chpFormula g)) ∧
    (∀ g : Grid, GraphTie.DistinctIds g →
      GraphTie.FormulaEquiv (Extracted.GraphLoops.pvFormula g true []) (pvFormula g none)) ∧
    (∀ (g : Grid) (i : Nat) (is : List Nat), GraphTie.DistinctIds g → GraphTie.IdsOf g (i :: is) Node.isPv →
      GraphTie.FormulaEquiv (Extracted.GraphLoops.pvFormula g true (i :: is)) (pvFormula g (some (i :: is)))) ∧
    (∀ (g : Grid) (sel : Node → Bool), (∀ n, sel n = true → n.isMeter = false) → GraphTie.DistinctIds g →
      ∃ D : CDict, (Extracted.GraphLoops.metricFallbackComponents (GraphTie.selComps g sel)).Perm D
        ∧ (D.map GraphTie.toM).Perm (poolTerms true sel g)) ∧
    (∀ (g : Grid) (ids : List Nat), GraphTie.DistinctIds g → (∀ b ∈ ids, b ∈ allBatsL g.succ) →
      GraphTie.FormulaEquiv (Extracted.GraphLoops.batteryFormulaNoFallback g ids) (GraphTie.batSelRef g ids)) ∧
    (∀ (g : Grid) (ids : List Nat), GraphTie.DistinctIds g → (∀ b ∈ ids, b ∈ allBatsL g.succ) →
      GraphTie.FormulaEquivPrimary (Extracted.GraphLoops.batteryFormula g ids) (batteryFormula g ids)) :=
  ⟨GraphTie.ev_tie, GraphTie.chp_tie, GraphTie.pv_dfs_tie GraphTie.dfs_facts,
    fun g i is hd hi => GraphTie.pv_pool_tie g i is hd hi,
    fun g sel hsel hd => by
      obtain ⟨D, h1, h2, _⟩ := GraphTie.pool_loop g sel hsel hd
      exact ⟨D, h1, h2⟩,
    GraphTie.battery_sel_tie, GraphTie.battery_primary_tie⟩

/-- Non-vacuity: on the example graph (two CHP-free … a CHP meter 10, battery inverters 7 and 14) the machine-translated
CHP formula is `#10`, and the battery formula of the pool {8, 9, 15} pushes the battery meter `#6` and inverter `#14`. -/
example : GraphTie.DistinctIds C12_ex
    ∧ (Extracted.GraphLoops.chpFormula C12_ex).toOption.map (fun ts => ts.map (fun t => (t.neg, t.id))) = some [(false, 10)]
    ∧ ((Extracted.GraphLoops.batteryFormula C12_ex [8, 9, 15]).toOption.map (fun ts => ts.map (fun t => t.id))).any
        (fun l => l.length == 2 && [6, 14].all (fun i => l.contains i)) = true := by
  refine ⟨⟨by decide, by decide⟩, by decide +kernel, by decide +kernel⟩

