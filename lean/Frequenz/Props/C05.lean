/-
C05 — formula output equals the arithmetic value of the expression.

Model: `Frequenz/Model/Shunting.lean` (tokenizer, `from_string`, shunting-yard builder with the EXTRACTED
precedence table, composition-API deque replay, post-fix evaluator whose step bodies are EXTRACTED from
`_formula_steps.py`).  Quantifiers: every expression tree of the grammar E/T/F (`E`), every whitespace padding,
every per-stream `nones_are_zeros` assignment, every composition-API tree (`HO`), every input environment
(missing values included) — no bound on size or depth.

Values live in `Except Err (Option Rat)`: "raises" (the engine then emits nothing) and "is NaN/None" are part of
the equalities below.  The theorems hold for the pinned step bodies and for the bodies after `fixes/C13-*.patch`.
-/
import Frequenz.Lemmas.ShuntingBuild
import Frequenz.Lemmas.ShuntingTie

open Formula
open Extracted.Formula (prec)

/-- Every gap between tokens holds only characters the tokenizer skips. -/
def C05_Padding (pad : Nat → List Char) : Prop := ∀ k, ∀ c ∈ pad k, isWs c = true

/-- The order facts about `_operator_precedence` the proofs rest on (each use is a `decide` on the extracted
table; a table with a different order breaks them): `/` before `*` before `-` before `+`, `(` before all four,
`)` after everything. -/
theorem C05_table_order :
    prec .lp < prec .div ∧ prec .div < prec .mul ∧ prec .mul < prec .sub ∧ prec .sub < prec .add ∧
    prec .add < prec .rp ∧ (∀ o : Op, prec o ≤ prec .rp) := by
  refine ⟨by decide, by decide, by decide, by decide, by decide, ?_⟩
  intro o; cases o <;> decide

/-- The tokenizer returns exactly the tokens of a string, whatever whitespace pads them: for every sequence of
metric tokens (`#` + one or more digits) and operator characters. -/
theorem C05_tokenizer (toks : List RawTok) (pad : Nat → List Char) (hpad : C05_Padding pad)
    (htoks : ∀ t ∈ toks, RawOK t) : tokenize (render pad toks) = some toks :=
  tokenize_render pad hpad toks htoks

/-- … in particular for the token sequence of every expression of the grammar. -/
theorem C05_tokenizer_expr (e : E) (pad : Nat → List Char) (hpad : C05_Padding pad) :
    tokenize (render pad e.raw) = some e.raw :=
  tokenize_render pad hpad e.raw (rawGoal_all (fun _ => false) e).2.1

/-- Formula strings: for every expression `e` of the grammar, however it is padded with whitespace and whatever
the `nones_are_zeros` flags, `from_string` succeeds and the post-fix program it builds evaluates — for every
input environment — to the value of the standard parse of `e` (`*` `/` before `+` `-`, parentheses,
left to right), including when that evaluation raises or yields NaN. -/
def C05_string_statement : Prop :=
  ∀ (e : E) (pad : Nat → List Char) (zf : Nat → Bool), C05_Padding pad →
    ∃ steps, fromString (render pad e.raw) zf = some steps ∧ ∀ env, run steps env = evalAst zf env e.ast

theorem C05_string : C05_string_statement := by
  intro e pad zf hpad
  exact ⟨_, fromString_render zf e pad hpad, fun env => string_core zf env e⟩

/-- Composition API: the engine built from any tree of `+ - * / max min consumption production` over engines,
constants and sub-builders evaluates to the value of that tree. -/
def C05_api_statement : Prop :=
  ∀ (h : HO) (z : Bool) (env : Env), run (hoBuild h z) env = evalAst (fun _ => z) env h.ast

theorem C05_api : C05_api_statement := by
  intro h z env
  rw [hoBuild_core]
  exact api_core z env h

/-- Evaluating a tree with the step semantics IS ordinary rational arithmetic whenever every input of the
expression is present and no divisor is zero. -/
theorem C05_arith (a : Ast) (zf : Nat → Bool) (env : Env) (val : Nat → Rat)
    (hpres : ∀ n ∈ a.ids, env n = .val (val n)) (q : Rat) (hq : evalQ val a = some q) :
    evalAst zf env a = .ok (some q) :=
  evalAst_arith zf env val a hpres q hq

/-- The property as written: for finite inputs, what a string formula or a composed formula emits is the value of
the expression in ordinary arithmetic (standard precedence, parentheses, left to right). -/
def C05_statement : Prop :=
  (∀ (e : E) (pad : Nat → List Char) (zf : Nat → Bool), C05_Padding pad →
    ∃ steps, fromString (render pad e.raw) zf = some steps ∧
      ∀ (env : Env) (val : Nat → Rat) (q : Rat), (∀ n ∈ e.ast.ids, env n = .val (val n)) →
        evalQ val e.ast = some q → engineRound steps (0, env) = [⟨0, some q⟩]) ∧
  (∀ (h : HO) (z : Bool) (env : Env) (val : Nat → Rat) (q : Rat), (∀ n ∈ h.ast.ids, env n = .val (val n)) →
    evalQ val h.ast = some q → engineRound (hoBuild h z) (0, env) = [⟨0, some q⟩])

theorem C05_full : C05_statement := by
  refine ⟨?_, ?_⟩
  · intro e pad zf hpad
    obtain ⟨steps, h1, h2⟩ := C05_string e pad zf hpad
    refine ⟨steps, h1, ?_⟩
    intro env val q hpres hq
    simp [engineRound, h2 env, C05_arith e.ast zf env val hpres q hq]
  · intro h z env val q hpres hq
    simp [engineRound, C05_api h z env, C05_arith h.ast (fun _ => z) env val hpres q hq]

/-- A metric pushed twice is ONE fetcher (first flag wins) whose step is pushed twice. -/
theorem C05_shared_fetcher (toks : List Tok) :
    ((toks.foldl pushTok {}).fetchers.map Prod.fst).Nodup ∧
    ∀ n z, Step.metric n z ∈ (toks.foldl pushTok {}).steps →
      lookupFetcher (toks.foldl pushTok {}).fetchers n = some z :=
  fetcherInv_foldl toks {} ⟨by simp, by intro n z h; simp at h⟩

/-! Non-vacuity: concrete programs, including the two shapes the unconventional table compiles differently from
the textbook algorithm. -/

example : C05_Padding (fun k => if k = 1 then [' ', '\t'] else [' ']) := by
  intro k c hc
  by_cases h : k = 1 <;> simp [h] at hc <;> rcases hc with rfl | rfl <;> decide

example : fromString "#2 * #4 / #5".toList (fun _ => false) =
    some [.metric 2 false, .metric 4 false, .metric 5 false, .op .div, .op .mul] := by decide

example : fromString "#2+#4 -(#5)".toList (fun n => n == 4) =
    some [.metric 2 false, .metric 4 true, .metric 5 false, .op .sub, .op .add] := by decide

example : (F.id 2 []).raw = [.metric ['2']] := by decide

example : hoBuild (.pushB (.pushEng (.start 1) .max 2) .mul (.un (.start 3) .cons)) false =
    [.metric 1 false, .metric 2 false, .op .max, .metric 3 false, .op .cons, .op .mul] := by decide

/-- **The hand-written builder model is the current source text** (`_formula_engine.py`).
`Extracted.FormulaLoops.*` is machine-translated on every run: `FormulaBuilder.push_oper` (guard, the pop loop over the
build stack — as ONE iteration under the generic loop combinator `pyLoop` —, the push; once per operator string, so the
dispatch code is executed, not pattern-matched), `finalize`, `push_metric` / `push_constant` / `push_clipper`, and
`_BaseHOFormulaBuilder.__init__ / _push` (through `__add__` … `min`) `/ consumption / production`.  For ALL arguments:
(1) the translated `push_oper` is `Formula.pushOper` (`popLoop` included; the fuel passed by the translation suffices);
(2) the translated `finalize` is `Formula.finalize` and leaves the build stack empty; (3) the translated `push_metric`
/ `push_constant` / `push_clipper` are the corresponding arms of `pushTok`; (4) hence `Formula.build` is the builder
assembled only from translated methods; (5) the deque built by the translated composition methods is `HO.toks`, token
by token, no operation of an `HO` expression raises, `hoBuild` is the composition of the translated pieces, and
`_push` raises `RuntimeError` exactly for the operand classes of `ShuntingTie.pushAccepts`; (6) the translated
`Tokenizer.__next__` (with `_read_unsigned_int`; both loops under `pyLoopM`) is `ShuntingTie.nextSpec`, and calling it until
`StopIteration` is `Formula.tokenize` (`none` = `ValueError`). -/
theorem C05_model_is_source :
    (∀ (o : Op) (stack : List Op) (steps : List Step),
      Extracted.FormulaLoops.pushOper o stack steps =
        ((pushOper { stack := stack, steps := steps } o).stack, (pushOper { stack := stack, steps := steps } o).steps)) ∧
    (∀ (stack : List Op) (steps : List Step),
      Extracted.FormulaLoops.finalize stack steps = ([], finalize { stack := stack, steps := steps })) ∧
    (∀ (b : Builder) (n : Nat) (z : Bool),
      Extracted.FormulaLoops.pushMetric b.fetchers b.steps n z = ((pushMetric b n z).fetchers, (pushMetric b n z).steps) ∧
      (pushMetric b n z).stack = b.stack) ∧
    (∀ (b : Builder) (c : Rat) (lo hi : Option Rat),
      Extracted.FormulaLoops.pushConstant b.steps c = (pushTok b (.const c)).steps ∧
      Extracted.FormulaLoops.pushClipper b.steps lo hi = (pushTok b (.clip lo hi)).steps) ∧
    (∀ toks : List Tok, build toks = ShuntingTie.srcBuild toks) ∧
    (∀ (z : Bool) (h : HO), (ShuntingTie.hoSrc h).map (List.map (ShuntingTie.tokOfH z)) = some (h.toks z)) ∧
    (∀ (h : HO) (z : Bool),
      (ShuntingTie.hoSrc h).map (fun d => ShuntingTie.srcBuild (d.map (ShuntingTie.tokOfH z))) = some (hoBuild h z)) ∧
    (∀ (o : BinOp) (s : List Extracted.FormulaLoops.HTok) (x : Extracted.FormulaLoops.Operand),
      (Extracted.FormulaLoops.hoPush o s x).isSome = ShuntingTie.pushAccepts o x) ∧
    (∀ rest : List Char, Extracted.FormulaLoops.nextToken rest = ShuntingTie.nextSpec rest) ∧
    (∀ s : List Char, tokenize s = ShuntingTie.srcTokens (s.length + 1) s) :=
  ⟨ShuntingTie.pushOper_eq, ShuntingTie.finalize_eq, ShuntingTie.pushMetric_eq, ShuntingTie.pushConstClip_eq,
   ShuntingTie.build_eq_source, ShuntingTie.hoSrc_toks, ShuntingTie.hoBuild_eq_source, ShuntingTie.hoPush_isSome,
   ShuntingTie.nextToken_eq, ShuntingTie.tokenize_eq_source⟩

/-! ## History-freedom of `build` (builder objects that are built, composed further and built again) -/

theorem C05_stepLive_fresh (s : List LiveB) (e : BEv) :
    ((stepLive s e).1.map (·.tree) = (stepFresh (s.map (·.tree)) e).1) ∧
    (stepLive s e).2 = (stepFresh (s.map (·.tree)) e).2 := by
  have hk : Extracted.Formula.hoBuilderKeepsOnlyTokens = true := rfl
  cases e with
  | start n => simp [stepLive, stepFresh]
  | pushEng i o n =>
    simp only [stepLive, stepFresh, List.getElem?_map]
    cases s[i]? <;> simp [LiveB.derive]
  | pushConst i o c =>
    simp only [stepLive, stepFresh, List.getElem?_map]
    cases s[i]? <;> simp [LiveB.derive]
  | pushB i o j =>
    simp only [stepLive, stepFresh, List.getElem?_map]
    cases s[i]? <;> cases s[j]? <;> simp [LiveB.derive]
  | un i u =>
    simp only [stepLive, stepFresh, List.getElem?_map]
    cases s[i]? <;> simp [LiveB.derive]
  | build i z =>
    simp only [stepLive, stepFresh, List.getElem?_map, hk, if_true]
    cases s[i]? <;> simp

/-- Whatever sequence of compositions (every operator / method, a built builder as left or right operand, any depth)
and builds a program performs on builder objects — also building one twice, or a derived builder before its
original — every `build` hands out exactly `hoBuild` of THAT builder's own expression tree: nothing of an earlier
build survives on the object or travels into the builders derived from it.  Rests on the extracted fact
`hoBuilderKeepsOnlyTokens` (the builder classes keep no state besides the token deque). -/
def C05_history_free_statement : Prop := ∀ es : List BEv, runLive [] es = runFresh [] es

theorem C05_history_free : C05_history_free_statement := by
  have h : ∀ (es : List BEv) (s : List LiveB), runLive s es = runFresh (s.map (·.tree)) es := by
    intro es
    induction es with
    | nil => intro s; rfl
    | cons e es ih =>
      intro s
      obtain ⟨h1, h2⟩ := C05_stepLive_fresh s e
      simp only [runLive, runFresh, ih, h1, h2]
  intro es
  exact h es []

/-- Together with `C05_api`: every engine built anywhere in a history computes its own tree. -/
theorem C05_history_built_programs (es : List BEv) :
    ∀ p ∈ runLive [] es, ∃ (h : HO) (z : Bool), p = hoBuild h z ∧ ∀ env, run p env = evalAst (fun _ => z) env h.ast := by
  rw [C05_history_free]
  have h : ∀ (es : List BEv) (s : List HO), ∀ p ∈ runFresh s es, ∃ (h : HO) (z : Bool), p = hoBuild h z := by
    intro es
    induction es with
    | nil => intro s p hp; simp [runFresh] at hp
    | cons e es ih =>
      intro s p hp
      simp only [runFresh, List.mem_append] at hp
      rcases hp with hp | hp
      · cases e <;> simp only [stepFresh] at hp <;> (try split at hp) <;> simp at hp
        exact ⟨_, _, hp⟩
      · exact ih _ p hp
  intro p hp
  obtain ⟨t, z, rfl⟩ := h es [] p hp
  exact ⟨t, z, rfl, fun env => C05_api t z env⟩

-- non-vacuity: `x = e1 + e2; x.build(); y = x * 2; y.build(); x.build()`
example : runLive [] [.start 1, .pushEng 0 .add 2, .build 1 false, .pushConst 1 .mul 2, .build 2 false, .build 1 true] =
    [hoBuild (.pushEng (.start 1) .add 2) false, hoBuild (.pushConst (.pushEng (.start 1) .add 2) .mul 2) false,
     hoBuild (.pushEng (.start 1) .add 2) true] := by
  rw [C05_history_free]; rfl

