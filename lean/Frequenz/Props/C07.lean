/-
C07 — the resampled timeline is aligned, gap-free and shared by all series.

The machine (`Resampler.step`) is the one of the source tree being checked: the alignment arithmetic, the window
advance and the fact whether `resample()` still reads the live series dict after the gather
(`Extracted.Resampling.gatherOverSnapshot`) are regenerated from `_resampling.py` on every run.  On a tree where the
dict is re-read after the gather (DESIGN §5 #16, fixed in 69297d9) `C07_source_gathers_over_snapshot` is false, on
a tree where only error-free ticks advance the window `C07_source_advances_on_error` is false, and this file does
not build; `C07_live_dict_kills_loop` / `C07_no_advance_on_error_duplicates` show, for every build, what then happens.

All theorems quantify over every period > 0, every `align_to` (past, future, `None`), every creation instant and
EVERY schedule (`List Event`: tick starts/ends, series added/removed/failing anywhere, in particular while a gather
is in flight, ticks ending with a `ResamplingError`, the resampling actor's remove-and-restart).  Lateness of the timer or of the sinks only decides *when* the events happen, never which timestamps are
handed out, so it needs no parameter here; how the real `Timer` turns lateness into events is sampled by the harness.
-/
import Frequenz.Lemmas.Resampler
import Frequenz.Lemmas.ResamplerTie

open Resampler Extracted.Resampling

/-- The checked source matches the gather results with a snapshot of the series taken before the gather. -/
theorem C07_source_gathers_over_snapshot : gatherOverSnapshot = true := rfl

/-- Every window end is on the grid `align_to + k·period` (floor-mod semantics: past and future `align_to`). -/
theorem C07_aligned (now period a : Int) : ((calculateWindowEnd now period (some a)).1 - a) % period = 0 :=
  windowEnd_on_grid now period a

/-- `align_to = None`: the grid starts at the creation instant. -/
theorem C07_aligned_none (now period : Int) : (calculateWindowEnd now period none).1 = now + period := by
  rw [windowEnd_none]

/-- The first window ends at least one period and less than two periods after the creation … -/
theorem C07_first_window (now period : Int) (align : Option Int) (hp : 0 < period) :
    now + period ≤ (calculateWindowEnd now period align).1 ∧ (calculateWindowEnd now period align).1 < now + 2 * period :=
  windowEnd_bounds now period align hp

/-- … and exactly one period after it when the creation instant is on the grid. -/
theorem C07_first_window_aligned (now period a : Int) (h : (now - a) % period = 0) :
    (calculateWindowEnd now period (some a)).1 = now + period :=
  windowEnd_eq_of_aligned now period a h

example : (calculateWindowEnd 1700000000583333 1000000 (some 0)).1 = 1700000002000000 := by decide
example : ((1700000000000000 : Int) - 0) % 1000000 = 0 ∧ (0 : Int) < 1000000 := by decide
example : (calculateWindowEnd (-2500000) 1000000 (some 7000000)).1 = -1000000 := by decide

/-- The hand-aligned timer is first due exactly when the wall clock reaches the first window end
(monotonic and wall clock advancing together). -/
theorem C07_timer_aligned (now loopNow period : Int) (align : Option Int) :
    now + (firstTickTime loopNow period (calculateWindowEnd now period align).2 - loopNow)
      = (calculateWindowEnd now period align).1 :=
  timer_due_at_windowEnd now loopNow period align

/-- The checked source advances the window end before it raises the errors of a tick. -/
theorem C07_source_advances_on_error : advanceOnError = true := rfl

/-- No skip, no duplicate, no reorder: under every schedule — ticks, series added/removed/failing anywhere, ticks
that end with a `ResamplingError`, the actor's remove-and-restart — the timestamps handed out are
`w0, w0+p, w0+2p, …`. -/
theorem C07_consecutive (period w0 : Int) (es : List Event) :
    (run period (init w0) es).2.map (·.ts) = expected w0 period (run period (init w0) es).2.length := by
  unfold run
  rw [C07_source_gathers_over_snapshot, C07_source_advances_on_error]
  exact (run_snapshot period es (init w0) rfl).2.1

/-- The loop task never ends with an unexpected exception (series may come and go while a gather is in flight). -/
theorem C07_never_dies (period w0 : Int) (es : List Event) : (run period (init w0) es).1.dead = false := by
  unfold run
  rw [C07_source_gathers_over_snapshot, C07_source_advances_on_error]
  exact (run_snapshot period es (init w0) rfl).1

/-- Every healthy series registered when a tick starts receives that tick's timestamp — the same for all of them,
namely the next grid point after the ticks handed out so far (also right after an error tick and a restart) — and
nobody else does. -/
theorem C07_shared (period w0 : Int) (es : List Event)
    (hfree : (run period (init w0) es).1.inflight = none) (hrun : (run period (init w0) es).1.stopped = false) :
    ∃ tk, (step period (run period (init w0) es).1 .tickStart).2 = [tk] ∧
      tk.ts = w0 + ((run period (init w0) es).2.length : Int) * period ∧
      ∀ s, s ∈ tk.recipients ↔ status s es = (true, false) := by
  have hd := C07_never_dies period w0 es
  have hn := (run_snapshot period es (init w0) rfl).2.2
  unfold run step at *
  rw [C07_source_gathers_over_snapshot, C07_source_advances_on_error] at *
  refine ⟨⟨(runWith true true period (init w0) es).1.windowEnd,
    (runWith true true period (init w0) es).1.series.filter
      (fun s => !(runWith true true period (init w0) es).1.failing.contains s)⟩, ?_, ?_, ?_⟩
  · simp [stepWith, hd, hfree, hrun]
  · have h0 : nextTs period (init w0) = w0 := rfl
    rw [h0] at hn
    simp only [nextTs, hfree, Option.isSome_none, Bool.false_eq_true, if_false] at hn
    exact hn
  · intro s
    have hst := series_status true true period s es (init w0)
    have h0 : (decide (s ∈ (init w0).series), decide (s ∈ (init w0).failing)) = (false, false) := by simp [init]
    rw [h0] at hst
    unfold status
    rw [← hst]
    simp only [List.mem_filter, Bool.not_eq_true', List.contains_eq_mem, Prod.mk.injEq, decide_eq_true_eq,
      decide_eq_false_iff_not]

example : (run 1000000 (init 1000000) [.add 0, .tickStart, .add 1, .tickEnd]).1.inflight = none ∧
    (run 1000000 (init 1000000) [.add 0, .tickStart, .add 1, .tickEnd]).1.stopped = false := by decide

/-- A tick that ends with an error still consumes its window, and the restart keeps the window end: series 1
fails, the tick at `w0` ends with a `ResamplingError`, the actor removes series 1 and restarts — series 0 goes on
with `w0 + p`, `w0 + 2p`. -/
example : (run 1000000 (init 1000000) [.add 0, .add 1, .fail 1, .tickStart, .tickEnd, .restart [1],
      .tickStart, .tickEnd, .tickStart]).2
    = [{ ts := 1000000, recipients := [0] }, { ts := 2000000, recipients := [0] }, { ts := 3000000, recipients := [0] }] := by
  decide

/-- The full statement. -/
def C07_statement : Prop :=
  ∀ (period now loopNow : Int) (align : Option Int) (es : List Event), 0 < period →
    let we := calculateWindowEnd now period align
    let r := run period (init we.1) es
    -- aligned grid, first window within two periods of the creation, timer due exactly then
    (∀ a, align = some a → (we.1 - a) % period = 0) ∧ (align = none → we.1 = now + period) ∧
    now + period ≤ we.1 ∧ we.1 < now + 2 * period ∧
    now + (firstTickTime loopNow period we.2 - loopNow) = we.1 ∧
    -- no tick skipped, duplicated or reordered, whatever the schedule (failures and restarts included)
    r.2.map (·.ts) = expected we.1 period r.2.length ∧ r.1.dead = false ∧
    -- all healthy series registered at a tick receive that tick's timestamp
    (r.1.inflight = none → r.1.stopped = false → ∃ tk, (step period r.1 .tickStart).2 = [tk] ∧
        tk.ts = we.1 + (r.2.length : Int) * period ∧ ∀ s, s ∈ tk.recipients ↔ status s es = (true, false))

theorem C07_full : C07_statement := by
  intro period now loopNow align es hp
  refine ⟨?_, ?_, (C07_first_window now period align hp).1, (C07_first_window now period align hp).2,
    C07_timer_aligned now loopNow period align, C07_consecutive period _ es, C07_never_dies period _ es,
    C07_shared period _ es⟩
  · intro a ha; subst ha; exact C07_aligned now period a
  · intro ha; subst ha; exact C07_aligned_none now period

/-- What re-reading the live dict does (the tree before fix 69297d9): period 1 s, first series' sink still busy
when a second series is added → the task dies at the end of the first tick; the first series has received `[1 s]`
only. -/
theorem C07_live_dict_kills_loop :
    (runWith false true 1000000 (init 1000000) [.add 0, .tickStart, .add 1, .tickEnd, .tickStart, .tickEnd, .tickStart]).1.dead = true ∧
    (runWith false true 1000000 (init 1000000) [.add 0, .tickStart, .add 1, .tickEnd, .tickStart, .tickEnd, .tickStart]).2
      = [{ ts := 1000000, recipients := [0] }] := by decide

/-- What advancing the window only on error-free ticks does: after the error tick and the restart the surviving
series receives `w0` a second time and stays one period behind. -/
theorem C07_no_advance_on_error_duplicates :
    (runWith true false 1000000 (init 1000000) [.add 0, .add 1, .fail 1, .tickStart, .tickEnd, .restart [1],
      .tickStart, .tickEnd, .tickStart]).2.map (·.ts) = [1000000, 1000000, 2000000] := by decide

/-- … and the first schedule under snapshot semantics. -/
example : (runWith true true 1000000 (init 1000000) [.add 0, .tickStart, .add 1, .tickEnd, .tickStart, .tickEnd, .tickStart]).2
    = [{ ts := 1000000, recipients := [0] }, { ts := 2000000, recipients := [0, 1] }, { ts := 3000000, recipients := [0, 1] }] := by
  decide

/-- **The hand-written tick machine is the current source text** of `Resampler` / `_StreamingHelper`
(`Extracted.ResamplerLoops.*`, machine-translated from `_resampling.py` on every run).  For ALL states, series,
results and failure patterns:
(1) `add_timeseries` / `remove_timeseries` are the `add` / `remove` steps (dict in insertion order, the "already
registered" refusal, the returned flags);
(2) `_StreamingHelper.resample` raises iff the receiving task has ended or the sink raises, and otherwise hands its sink a
sample stamped with the timestamp it was called with;
(3) `tickStart` is the first half of the loop body of `Resampler.resample()` (gather over the series registered now, in
dict order, each called with `_window_end`);
(4) `tickEnd` is the second half (results matched with the snapshot, `_window_end += period` before the
`ResamplingError`, which names exactly the series that raised and ends `resample()`; the series added or removed during
the await play no role, no other exception escapes; `one_shot` stops the loop). -/
theorem C07_model_is_source :
    (∀ (snap advErr : Bool) (p : Int) (st : State) (s : SeriesId),
      (stepWith snap advErr p st (.add s)).1.series = (Extracted.ResamplerLoops.addTimeseries st.series s).1 ∧
      (Extracted.ResamplerLoops.addTimeseries st.series s).2 = !decide (s ∈ st.series) ∧
      stepWith snap advErr p st (.remove s) =
        ({ st with series := (Extracted.ResamplerLoops.removeTimeseries st.series s).1 }, []) ∧
      (Extracted.ResamplerLoops.removeTimeseries st.series s).2 = decide (s ∈ st.series)) ∧
    (∀ (d r : Bool) (ts : Int),
      Extracted.ResamplerLoops.streamingResample d r ts = (d || r, if d then none else some ts)) ∧
    (∀ (p : Int) (st : State) (taskDone sinkRaises : Nat → Bool),
      st.dead = false → st.stopped = false → st.inflight = none →
      (∀ s, st.failing.contains s = (taskDone s || sinkRaises s)) →
      stepWith true true p st .tickStart =
        ({ st with inflight := some (Extracted.ResamplerLoops.gatherCalls st.series st.windowEnd p).length,
                   raised := ((ResamplerTie.gatherOutcome taskDone sinkRaises
                      (Extracted.ResamplerLoops.gatherCalls st.series st.windowEnd p)).filter (fun o => o.2.1)).map (·.1) },
         [{ ts := st.windowEnd,
            recipients := ((ResamplerTie.gatherOutcome taskDone sinkRaises
                      (Extracted.ResamplerLoops.gatherCalls st.series st.windowEnd p)).filter (fun o => !o.2.1)).map (·.1) }]) ∧
      (∀ o ∈ ResamplerTie.gatherOutcome taskDone sinkRaises (Extracted.ResamplerLoops.gatherCalls st.series st.windowEnd p),
          o.2.1 = false → o.2.2 = some st.windowEnd) ∧
      (Extracted.ResamplerLoops.gatherCalls st.series st.windowEnd p).map (·.1) = st.series) ∧
    (∀ (p : Int) (st : State) (gathered : List Nat) (results : List Bool) (oneShot : Bool),
      st.dead = false → st.inflight = some gathered.length → st.raised = ResamplerTie.exceptionsOf gathered results →
      Extracted.ResamplerLoops.afterGather st.windowEnd p gathered results st.series oneShot =
        some (advanceWindowEnd st.windowEnd p, st.raised,
              if st.raised ≠ [] then Extracted.ResamplerLoops.LoopExit.raised
              else if oneShot then Extracted.ResamplerLoops.LoopExit.stop else Extracted.ResamplerLoops.LoopExit.next) ∧
      stepWith true true p st .tickEnd =
        ({ st with windowEnd := advanceWindowEnd st.windowEnd p, inflight := none, raised := [],
                   stopped := if st.raised ≠ [] then true else st.stopped }, [])) :=
  ⟨fun snap advErr p st s =>
      ⟨(ResamplerTie.step_add snap advErr p st s).1, by rw [ResamplerTie.addTimeseries_eq],
       ResamplerTie.step_remove snap advErr p st s, by rw [ResamplerTie.removeTimeseries_eq]⟩,
   ResamplerTie.streamingResample_eq,
   fun p st td sr hd hs hi hf => ResamplerTie.tickStart_eq p st td sr hd hs hi hf,
   fun p st g r o hd hi hr => ResamplerTie.tickEnd_eq p st g r o hd hi hr⟩

-- non-vacuity: a running machine with two series, the second failing; the two halves of one tick
example : let st : State := { (init 1000000) with series := [0, 1], failing := [1] }
    (stepWith true true 1000000 st .tickStart).1.raised = [1] ∧
    Extracted.ResamplerLoops.afterGather 1000000 1000000 [0, 1] [false, true] [0, 1, 2] false
      = some (2000000, [1], Extracted.ResamplerLoops.LoopExit.raised) := by decide

