/-
C04 — Lower-priority preferences are honoured only inside higher-priority bounds.

Property theorems only.  `ClosestSpec`, `ConflictFree`, `lastPref`, `Rel` are defined in
`Frequenz.Lemmas.MatryoshkaSpec` / `MatryoshkaSweep` *declaratively* (plain interval intersection,
distance, ties towards the lower value) — independently of the code's carving of the running bounds.
-/
import Frequenz.Lemmas.MatryoshkaSweep
import Frequenz.Lemmas.Bucket
import Frequenz.Lemmas.MatryoshkaTie

open Matryoshka BoundsLemmas

/-- The system inclusion bounds as a plain interval (`[0,0]` when unavailable). -/
def C04_I0 (sb : SystemBounds) : Itv := ⟨(initSt sb).lo, (initSt sb).hi⟩

/-- The quantifier's domain: the exclusion zone contains zero and the proposals are mutually
compatible — processing them from the highest priority down, the plain intersection of the system
bounds with their bounds, minus the zone, never becomes empty. -/
def C04_Compatible (sb : SystemBounds) (ordered : List Proposal) : Prop :=
  ZoneOK (effExcl sb) ∧ ConflictFree (effExcl sb) (C04_I0 sb) ordered

theorem C04_sweep_closest (sb : SystemBounds) (ps : List Proposal) (h : C04_Compatible sb ps) :
    TargetOK (effExcl sb) 0 (lastPref (C04_I0 sb) ps none) (sweep sb ps).target := by
  have hinit : (initSt sb).stopped = false ∧ (initSt sb).target = 0 := by
    unfold initSt; split <;> exact ⟨rfl, rfl⟩
  have := sweep_closest (effExcl sb) h.1 0 ps (C04_I0 sb) (initSt sb) none hinit.1
    ⟨Or.inl rfl, Or.inl rfl⟩ h.2 (by simp only [TargetOK]; exact hinit.2)
  exact this.1

/-- **Closest admissible value.**  For mutually compatible proposals the target is the admissible
value closest to the preference of the lowest-priority actor that stated one, admissibility being
taken w.r.t. the plain intersection of the system bounds and the bounds of all proposals sorted
before that actor; with no stated preference the target is zero. -/
theorem C04_closest (sb : SystemBounds) (bucket : List Proposal)
    (h : C04_Compatible sb (sortDesc bucket)) :
    match lastPref (C04_I0 sb) (sortDesc bucket) none with
    | some (J, v) => ClosestSpec (effExcl sb) J v (calcTarget sb bucket)
    | none => calcTarget sb bucket = 0 := by
  have := C04_sweep_closest sb (sortDesc bucket) h
  unfold TargetOK at this
  unfold calcTarget
  exact this

/-- `adjust_to_bounds` uses the raw exclusion bounds, the manager the effective ones; they clamp alike. -/
theorem C04_clamp_raw_eff (sb : SystemBounds) (v lo hi : Rat) :
    Extracted.clampToBounds v lo hi sb.excl = Extracted.clampToBounds v lo hi (effExcl sb) := by
  unfold effExcl
  cases h : sb.excl with
  | none => rfl
  | some e =>
    simp only []
    split
    · rfl
    · rename_i hne
      have h1 : e.lower = 0 := by
        by_cases h' : e.lower = 0
        · exact h'
        · exact absurd (Or.inl h') hne
      have h2 : e.upper = 0 := by
        by_cases h' : e.upper = 0
        · exact h'
        · exact absurd (Or.inr h') hne
      rw [clamp_some, clamp_none]
      unfold InZone
      obtain ⟨el, eu⟩ := e
      simp only at h1 h2 ⊢
      subst h1 h2
      repeat' split
      all_goals grind

/-- A preference is returned unchanged by `clamp_to_bounds` iff it is its own closest admissible value. -/
theorem C04_clamp_self_iff (ex : Option Bounds) (hz : ZoneOK ex) (I : Itv) (lo hi x : Rat)
    (hrel : Rel ex I lo hi) (hu : Usable ex I) :
    Extracted.clampToBounds x lo hi ex = (some x, some x) ↔ ClosestSpec ex I x x := by
  unfold ClosestSpec ZeroOK Free Usable Rel Itv.mem dist at *
  cases ex with
  | none =>
    rw [clamp_none]
    simp only [reduceCtorEq, false_and, exists_false, or_false, false_implies, implies_true,
      and_true] at *
    obtain ⟨rfl, rfl⟩ := hrel
    obtain ⟨Ilo, Ihi⟩ := I
    simp only at *
    constructor
    · intro h; split at h <;> [simp at h; (split at h <;> [simp at h; skip])]
      refine ⟨fun _ => ?_, fun _ => ⟨?_, ?_⟩⟩ <;> grind
    · intro h
      by_cases hx0 : x = 0 ∧ Ilo ≤ 0 ∧ 0 ≤ Ihi
      · have := hx0.1; subst this; grind
      · have := h.2 hx0; grind
  | some e =>
    have h0 := hz e rfl
    clear hz
    rw [clamp_some]
    simp only [Option.some.injEq, forall_eq', exists_eq_left'] at *
    unfold InZone at *
    obtain ⟨Ilo, Ihi⟩ := I
    obtain ⟨el, eu⟩ := e
    simp only at *
    obtain ⟨hl, hh⟩ := hrel
    rcases hl with hl | ⟨hl1, hl⟩ <;> rcases hh with hh | ⟨hh1, hh⟩ <;>
      (constructor
       · intro h
         split_ifs at h <;> simp only [Prod.mk.injEq, Option.some.injEq, reduceCtorEq, and_false,
           false_and] at h <;>
           (refine ⟨fun _ => ?_, fun hn => ⟨?_, ?_, fun y hy hfy => ?_⟩⟩ <;> grind)
       · intro h
         by_cases hx0 : x = 0 ∧ (Ilo ≤ 0 ∧ 0 ≤ Ihi) ∧ ¬(el < Ilo ∧ Ilo < eu) ∧ ¬(el < Ihi ∧ Ihi < eu)
         · have := hx0.1; subst this
           split_ifs <;> first | rfl | grind
         · have := h.2 hx0
           split_ifs <;> first | rfl | grind)

/-- **Reported bounds = effective range.**  Actor `a` (priority `a.prio`, preference `x`) sits below
the strictly-higher-priority proposals `H` and above proposals `L` that state no preference.  Then
its preference is adopted unchanged exactly when `adjust_to_bounds` on the report for its priority
returns it unchanged. -/
theorem C04_report_is_effective_range (sb : SystemBounds) (bucket : List Proposal) (a : Proposal)
    (x : Rat) (H L : List Proposal) (b : Bounds) (hb : sb.incl = some b)
    (hsort : sortDesc bucket = H ++ a :: L) (ha : a.pref = some x)
    (hH : ∀ p ∈ H, a.prio < p.prio) (hL : ∀ p ∈ L, p.pref = none)
    (hc : C04_Compatible sb (sortDesc bucket)) :
    calcTarget sb bucket = x ↔
      adjustToBounds (reportBounds sb bucket a.prio) sb.excl x = (some x, some x) := by
  obtain ⟨hz, hcf⟩ := hc
  rw [hsort] at hcf
  obtain ⟨hcfH, hcfaL⟩ := conflictFree_append hcf
  have huH : Usable (effExcl sb) (narrowAll (C04_I0 sb) H) := conflictFree_usable hcfaL
  -- the report
  have hI0 : C04_I0 sb = ⟨b.lower, b.upper⟩ := by unfold C04_I0 initSt; rw [hb]
  have hst := status_prefix (effExcl sb) a.prio H (C04_I0 sb)
    { lo := b.lower, hi := b.upper, stopped := false } rfl
    (by rw [hI0]; exact ⟨Or.inl rfl, Or.inl rfl⟩) hcfH hH
  have hrep : reportBounds sb bucket a.prio =
      some { lower := (H.foldl (statusStep (effExcl sb) a.prio) { lo := b.lower, hi := b.upper, stopped := false }).lo,
             upper := (H.foldl (statusStep (effExcl sb) a.prio) { lo := b.lower, hi := b.upper, stopped := false }).hi } := by
    unfold reportBounds
    rw [hb, hsort]
    simp only [List.foldl_append, List.foldl_cons]
    rw [status_low _ _ _ _ hst.1 (Int.le_refl _), status_stop _ _ _ _ rfl]
  -- the target
  have htgt := C04_sweep_closest sb (sortDesc bucket) ⟨hz, by rw [hsort]; exact hcf⟩
  rw [hsort, lastPref_append] at htgt
  simp only [lastPref, ha] at htgt
  rw [lastPref_noPref _ _ _ hL] at htgt
  simp only [TargetOK] at htgt
  have hcalc : calcTarget sb bucket = (sweep sb (H ++ a :: L)).target := by unfold calcTarget; rw [hsort]
  rw [hcalc, hrep]
  simp only [adjustToBounds]
  rw [C04_clamp_raw_eff, C04_clamp_self_iff (effExcl sb) hz _ _ _ x hst.2 huH]
  constructor
  · intro h; rw [h] at htgt; exact htgt
  · intro h; exact closestSpec_unique htgt h

theorem C04_narrow_empty (I : Itv) (e : Proposal) (he : e.lo = none ∧ e.hi = none) : I.narrow e = I := by
  unfold Itv.narrow; rw [he.1, he.2]

/-- **A proposal with neither power nor bounds is equivalent to no proposal** (anywhere in the
processing order), for mutually compatible proposals. -/
theorem C04_empty_proposal_neutral (sb : SystemBounds) (l1 l2 : List Proposal) (e : Proposal)
    (he : e.pref = none ∧ e.lo = none ∧ e.hi = none) (hc : C04_Compatible sb (l1 ++ l2)) :
    (sweep sb (l1 ++ e :: l2)).target = (sweep sb (l1 ++ l2)).target := by
  have hne := C04_narrow_empty
  have hcf : ∀ (I : Itv) (l1 : List Proposal), ConflictFree (effExcl sb) I (l1 ++ l2) →
      ConflictFree (effExcl sb) I (l1 ++ e :: l2) := by
    intro I l1
    induction l1 generalizing I with
    | nil =>
      intro h
      exact ⟨conflictFree_usable h, by rw [hne I e he.2]; exact h⟩
    | cons p ps ih => intro h; exact ⟨h.1, ih _ h.2⟩
  have hlp : ∀ (I : Itv) (l1 : List Proposal) (acc : Option (Itv × Rat)),
      lastPref I (l1 ++ e :: l2) acc = lastPref I (l1 ++ l2) acc := by
    intro I l1
    induction l1 generalizing I with
    | nil => intro acc; simp only [List.nil_append, lastPref, he.1, hne I e he.2]
    | cons p ps ih => intro acc; simp only [List.cons_append, lastPref]; exact ih _ _
  have t1 := C04_sweep_closest sb (l1 ++ e :: l2) ⟨hc.1, hcf _ _ hc.2⟩
  have t2 := C04_sweep_closest sb (l1 ++ l2) hc
  rw [hlp] at t1
  unfold TargetOK at t1 t2
  cases h : lastPref (C04_I0 sb) (l1 ++ l2) none with
  | none => rw [h] at t1 t2; rw [t1, t2]
  | some Jv => rw [h] at t1 t2; exact closestSpec_unique t1 t2

theorem C04_insertDesc_split (e : Proposal) (l : List Proposal) :
    ∃ l1 l2, insertDesc e l = l1 ++ e :: l2 ∧ l = l1 ++ l2 := by
  induction l with
  | nil => exact ⟨[], [], rfl, rfl⟩
  | cons q qs ih =>
    unfold insertDesc
    split
    · exact ⟨[], q :: qs, rfl, rfl⟩
    · obtain ⟨l1, l2, h1, h2⟩ := ih
      exact ⟨q :: l1, l2, by rw [h1]; rfl, by rw [h2]; rfl⟩

/-- Bucket-level form: adding an empty proposal of a new actor does not change the target. -/
theorem C04_empty_proposal_neutral_bucket (sb : SystemBounds) (bucket : List Proposal) (e : Proposal)
    (he : e.pref = none ∧ e.lo = none ∧ e.hi = none) (hk : KeysDistinct (bucket ++ [e]))
    (hc : C04_Compatible sb (sortDesc bucket)) :
    calcTarget sb (bucket ++ [e]) = calcTarget sb bucket := by
  have hperm : (bucket ++ [e]).Perm (e :: bucket) := List.perm_append_singleton e bucket
  unfold calcTarget
  rw [sortDesc_eq_of_perm hperm hk]
  show (sweep sb (insertDesc e (sortDesc bucket))).target = _
  obtain ⟨l1, l2, h1, h2⟩ := C04_insertDesc_split e (sortDesc bucket)
  rw [h1, h2]
  exact C04_empty_proposal_neutral sb l1 l2 e he (by rw [← h2]; exact hc)

/-- The statement of C04 (model level). -/
def C04_statement : Prop :=
  (∀ (sb : SystemBounds) (bucket : List Proposal), C04_Compatible sb (sortDesc bucket) →
    match lastPref (C04_I0 sb) (sortDesc bucket) none with
    | some (J, v) => ClosestSpec (effExcl sb) J v (calcTarget sb bucket)
    | none => calcTarget sb bucket = 0) ∧
  (∀ (sb : SystemBounds) (bucket : List Proposal) (a : Proposal) (x : Rat) (H L : List Proposal)
    (b : Bounds), sb.incl = some b → sortDesc bucket = H ++ a :: L → a.pref = some x →
    (∀ p ∈ H, a.prio < p.prio) → (∀ p ∈ L, p.pref = none) → C04_Compatible sb (sortDesc bucket) →
    (calcTarget sb bucket = x ↔
      adjustToBounds (reportBounds sb bucket a.prio) sb.excl x = (some x, some x))) ∧
  (∀ (sb : SystemBounds) (bucket : List Proposal) (e : Proposal),
    (e.pref = none ∧ e.lo = none ∧ e.hi = none) → KeysDistinct (bucket ++ [e]) →
    C04_Compatible sb (sortDesc bucket) → calcTarget sb (bucket ++ [e]) = calcTarget sb bucket)

/-- C04 holds on the model for actors with pairwise distinct priorities above the reporting actor
(`∀ p ∈ H, a.prio < p.prio`). -/
theorem C04_partial : C04_statement :=
  ⟨C04_closest, C04_report_is_effective_range, C04_empty_proposal_neutral_bucket⟩

/-- The literal reading for actors that *share* a priority: the report for priority `a.prio` is the
range in which `a`'s preference is adopted, when the proposals sorted before `a` have priority
`≥ a.prio` (same-priority peers included). -/
def C04_report_shared_priority_statement : Prop :=
  ∀ (sb : SystemBounds) (bucket : List Proposal) (a : Proposal) (x : Rat) (H L : List Proposal)
    (b : Bounds), sb.incl = some b → sortDesc bucket = H ++ a :: L → a.pref = some x →
    (∀ p ∈ H, a.prio ≤ p.prio) → (∀ p ∈ L, p.pref = none) → C04_Compatible sb (sortDesc bucket) →
    (calcTarget sb bucket = x ↔
      adjustToBounds (reportBounds sb bucket a.prio) sb.excl x = (some x, some x))

def C04_wSb : SystemBounds := { incl := some ⟨-100, 100⟩, excl := none }
def C04_wZ : Proposal := { prio := 5, src := "z", pref := none, lo := some 0, hi := some 10, created := 0 }
def C04_wA : Proposal := { prio := 5, src := "a", pref := some 50, lo := none, hi := none, created := 0 }

theorem C04_usable_none_iff (I : Itv) : Usable none I ↔ I.lo ≤ I.hi := by
  unfold Usable; simp

theorem C04_w_compatible : C04_Compatible C04_wSb (sortDesc [C04_wZ, C04_wA]) := by
  have h1 : sortDesc [C04_wZ, C04_wA] = [C04_wZ, C04_wA] := by decide +kernel
  have h2 : effExcl C04_wSb = none := by decide +kernel
  unfold C04_Compatible
  rw [h1, h2]
  refine ⟨(by intro e he; cases he), ?_⟩
  simp only [ConflictFree, C04_usable_none_iff]
  decide +kernel

/-- Known finding `SharedPriority`: two actors at priority 5; the report for priority 5 says
`[-100, 100]` and `adjust_to_bounds(50) = (50, 50)`, yet the a-actor's 50 W becomes 10 W. -/
theorem C04_report_shared_priority_refuted : ¬ C04_report_shared_priority_statement := by
  intro h
  have := h C04_wSb [C04_wZ, C04_wA] C04_wA 50 [C04_wZ] [] ⟨-100, 100⟩ rfl (by decide +kernel) rfl
    (by intro p hp; simp only [List.mem_singleton] at hp; subst hp; decide)
    (by intro p hp; cases hp)
    C04_w_compatible
  have h1 : calcTarget C04_wSb [C04_wZ, C04_wA] = 10 := by decide +kernel
  have h2 : adjustToBounds (reportBounds C04_wSb [C04_wZ, C04_wA] C04_wA.prio) C04_wSb.excl 50 = (some 50, some 50) := by
    decide +kernel
  rw [h1] at this
  exact absurd (this.mpr h2) (by decide +kernel)

/-! Non-vacuity: a compatible bucket with a cutting exclusion zone where the theorems apply. -/
def C04_exSb : SystemBounds := { incl := some ⟨-100, 100⟩, excl := some ⟨-10, 10⟩ }
def C04_exHi : Proposal := { prio := 7, src := "hi", pref := none, lo := some (-5), hi := some 60, created := 0 }
def C04_exLo : Proposal := { prio := 2, src := "lo", pref := some 3, lo := none, hi := none, created := 0 }

example : sortDesc [C04_exLo, C04_exHi] = [C04_exHi, C04_exLo] := by decide +kernel
example : calcTarget C04_exSb [C04_exLo, C04_exHi] = 10 := by decide +kernel
theorem C04_usable_some_iff (e : Bounds) (I : Itv) :
    Usable (some e) I ↔ (I.lo ≤ I.hi ∧ ¬ (InZone e I.lo ∧ InZone e I.hi)) := by
  unfold Usable; simp

example : C04_Compatible C04_exSb (sortDesc [C04_exLo, C04_exHi]) := by
  have h1 : sortDesc [C04_exLo, C04_exHi] = [C04_exHi, C04_exLo] := by decide +kernel
  have h2 : effExcl C04_exSb = some ⟨-10, 10⟩ := by decide +kernel
  unfold C04_Compatible
  rw [h1, h2]
  refine ⟨?_, ?_⟩
  · intro e he; cases he; decide +kernel
  · simp only [ConflictFree, C04_usable_some_iff]
    decide +kernel

/-- **The hand-written `get_status` model is the current source text.**  `Extracted.Matryoshka.statusInit/statusStep`
are machine-translated from `get_status` on every run (statements before the loop with the early return, ONE iteration
of the loop body; the extractor also checks that the loop iterates over `sorted(<bucket>, reverse=True)` and that
`Bounds(lower=…, upper=…)` of the loop variables is reported).  For ALL arguments: (1) the early `none` of
`reportBounds` and its initial state / `effExcl` are the extracted prelude; (2) `statusStep` on a not-yet-stopped
state is the extracted loop body, a stopped state is left alone; (3) hence `reportBounds` is prelude +
`for`-with-`break` over the extracted body + `Bounds(lower_bound, upper_bound)`. -/
theorem C04_model_is_source :
    (∀ sb : SystemBounds,
      Extracted.Matryoshka.statusInit sb.incl sb.excl = sb.incl.map (fun b => (b.lower, b.upper, effExcl sb))) ∧
    (∀ (sb : SystemBounds) (bucket : List Proposal) (prio : Int), sb.incl = none → reportBounds sb bucket prio = none) ∧
    (∀ (ex : Option Bounds) (prio : Int) (s : RSt) (p : Proposal), s.stopped = false →
      Extracted.Matryoshka.statusStep ex s.lo s.hi prio p.prio p.lo p.hi =
        ((statusStep ex prio s p).lo, (statusStep ex prio s p).hi, (statusStep ex prio s p).stopped)) ∧
    (∀ (ex : Option Bounds) (prio : Int) (s : RSt) (p : Proposal), s.stopped = true → statusStep ex prio s p = s) ∧
    (∀ (sb : SystemBounds) (bucket : List Proposal) (prio : Int),
      reportBounds sb bucket prio = MatryoshkaTie.srcReportBounds sb.incl sb.excl (sortDesc bucket) prio) :=
  ⟨MatryoshkaTie.statusInit_eq,
   fun sb bucket prio h => by unfold reportBounds; rw [h],
   MatryoshkaTie.statusStep_eq, MatryoshkaTie.statusStep_stopped, MatryoshkaTie.reportBounds_eq_source⟩

/-- Non-vacuity: the source-assembled `get_status` loop computes the non-trivial report of the example bucket. -/
example : MatryoshkaTie.srcReportBounds C04_exSb.incl C04_exSb.excl (sortDesc [C04_exLo, C04_exHi]) 2
    = some ⟨10, 60⟩ := by decide +kernel
