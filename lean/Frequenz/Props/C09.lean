/-
C09 — ring buffer / moving window behaves as a sliding time-indexed map.

Every theorem quantifies over ALL update histories `h : List (µs timestamp × value-or-missing)` applied to a
fresh buffer of any capacity ≥ 1, any sampling period > 0 and alignment point, any value type (hence any
container content), and over ALL queries.  `RingBuffer.run c (State.init buffer) h` is the concrete model
(`Model/RingBuffer.lean`, `Model/RingBufferQuery.lean`: slot array + incrementally maintained gap list, every
branch condition machine-translated from `buffer.py` / `_moving_window.py`); `Spec.run c cap h` is the abstract
sliding map: newest slot + valid value of every slot, with reject / insert / evict (`Spec.write`).

The statements about `window` (emptiness test, fill origin), `count_covered` (exact quotient) and
`MovingWindow.at` (range and gap tests) hold for the tree with the four C09 fixes applied
(`fixes/C09-*.patch`); on the pinned tree `Extracted/RingBufferQuery.lean` differs and this file does not build.
-/
import Frequenz.Lemmas.RingBufferQuery
import Frequenz.Lemmas.RingBufferTie

open RingBuffer Extracted.RingBufferQuery

/-! ### Content: refinement to the abstract map -/

/-- After ANY history the concrete state, read through its gap list, IS the abstract sliding map: each slot of the
window ending at the newest slot holds exactly the last valid value written to it, nothing else is visible. -/
theorem C09_refines {α : Type} (c : Cfg) (buffer : List (Option α)) (hb : 1 ≤ buffer.length)
    (h : List (Int × Option α)) :
    abs (run c (State.init buffer) h) = Spec.run c buffer.length h := by
  have := (run_refines c (State.init buffer) (Inv.init buffer hb) Spec.init (abs_init buffer) h).2.2
  exact this

/-- The gap-list invariant, for every history: the list is sorted, pairwise disjoint and non-adjacent, every gap is
non-empty and inside the window `[newest - (cap-1), newest + 1)` (capacity 1 only: the empty range `(n, n)` may
be left by a jump) — and a slot of the window is inside some gap EXACTLY when the abstract map holds no valid
value for it.  The fresh buffer has no gaps. -/
theorem C09_gaps {α : Type} (c : Cfg) (buffer : List (Option α)) (hb : 1 ≤ buffer.length)
    (h : List (Int × Option α)) :
    let s := run c (State.init buffer) h
    (s.newest = none → s.gaps = [])
    ∧ ∀ n, s.newest = some n →
        GapsInv buffer.length n s.gaps
        ∧ ∀ k, n - ((buffer.length : Int) - 1) ≤ k → k ≤ n →
            (isMissing s.gaps k = true ↔ (Spec.run c buffer.length h).val k = none) := by
  intro s
  obtain ⟨hI, hcap, habs⟩ := run_refines c (State.init buffer) (Inv.init buffer hb) Spec.init (abs_init buffer) h
  have hcap' : s.cap = buffer.length := hcap
  refine ⟨hI.fresh, ?_⟩
  intro n hn
  refine ⟨by have := hI.gaps n hn; rw [hcap'] at this; exact this, ?_⟩
  intro k h1 h2
  have hv := abs_val_isSome s hI n hn k (by rw [hcap']; exact h1) h2
  have e : (Spec.run c buffer.length h).val k = (abs s).val k := by
    have : abs s = Spec.run c buffer.length h := habs
    rw [this]
  rw [e]
  cases hm : isMissing s.gaps k with
  | true => simp [abs_val_missing s k hm]
  | false =>
    rw [hm] at hv
    cases hx : (abs s).val k with
    | none => rw [hx] at hv; cases hv
    | some x => simp

/-- The `while` loop of `_cleanup_gaps` with fuel `2·len + 2` terminates on every list of pairwise disjoint
non-empty gaps (in any order), returns the normal form, and covers the same slots from `oldest` on. -/
theorem C09_cleanup (o ub : Int) (l : List Gap) (hsd : SD l) (hne : NE l) (hub : UB ub l) :
    Normal o ub (cleanupGaps o l) ∧ ∀ k, o ≤ k → isMissing (cleanupGaps o l) k = isMissing l k :=
  cleanupGaps_spec o ub l hsd hne hub

/-! ### Rejection of old samples -/

/-- An update is rejected (IndexError) exactly when its slot is older than the window ending at the newest slot;
a rejected update changes nothing. -/
theorem C09_reject_old {α : Type} (c : Cfg) (buffer : List (Option α)) (hb : 1 ≤ buffer.length)
    (h : List (Int × Option α)) (ts : Int) (v : Option α) :
    let s := run c (State.init buffer) h
    ((update c s ts v).2 = true ↔
        ∃ n, (Spec.run c buffer.length h).newest = some n ∧ normSlot c ts < n - ((buffer.length : Int) - 1))
    ∧ ((update c s ts v).2 = true → (update c s ts v).1 = s) := by
  intro s
  obtain ⟨_, hcap, habs⟩ := run_refines c (State.init buffer) (Inv.init buffer hb) Spec.init (abs_init buffer) h
  have hcap' : s.cap = buffer.length := hcap
  have hnew : (Spec.run c buffer.length h).newest = s.newest := by
    have : abs s = Spec.run c buffer.length h := habs
    rw [← this]; rfl
  refine ⟨?_, updateSlot_rejected_state s (normSlot c ts) v⟩
  show (updateSlot s (normSlot c ts) v).2 = true ↔ _
  rw [updateSlot_rejected, hnew, hcap']

/-! ### Counts and oldest / newest timestamps -/

/-- `count_valid()` = number of slots with a valid value; and either nothing valid is stored (then
`oldest_timestamp`, `newest_timestamp` are `None` and `count_covered() = 0`), or `oldest_timestamp` is the oldest
slot `k` with a valid value, `newest_timestamp` the newest slot `n`, and `count_covered() = n - k + 1`. -/
theorem C09_counts {α : Type} (c : Cfg) (buffer : List (Option α)) (hb : 1 ≤ buffer.length)
    (h : List (Int × Option α)) :
    let s := run c (State.init buffer) h
    let sp := Spec.run c buffer.length h
    countValid s = Spec.count buffer.length sp
    ∧ ((Spec.count buffer.length sp = 0 ∧ oldestTs s = none ∧ newestTs s = none ∧ countCovered s = 0
          ∧ ∀ j, sp.val j = none)
       ∨ ∃ n k, Spec.count buffer.length sp ≠ 0 ∧ sp.newest = some n ∧ sp.IsOldestValid k
          ∧ n - ((buffer.length : Int) - 1) ≤ k ∧ k ≤ n
          ∧ oldestTs s = some k ∧ newestTs s = some n ∧ countCovered s = n - k + 1) := by
  intro s sp
  obtain ⟨hI, hcap, habs⟩ := run_refines c (State.init buffer) (Inv.init buffer hb) Spec.init (abs_init buffer) h
  have hcap' : s.cap = buffer.length := hcap
  have habs' : abs s = sp := habs
  have hcv := countValid_eq s hI
  rw [hcap', habs'] at hcv
  refine ⟨hcv, ?_⟩
  rcases covered_cases s hI with ⟨h1, h2, h3, h4, h5⟩ | ⟨n, k, hn, h1, h2, h3, h4, h5, h6, h7⟩
  · left; rw [habs'] at h5; exact ⟨by omega, h2, h3, h4, h5⟩
  · right
    rw [habs'] at h7; rw [hcap'] at h5
    have : sp.newest = some n := by rw [← habs']; exact hn
    exact ⟨n, k, by omega, this, h7, h5, h6, h2, h3, h4⟩

/-! ### Window queries -/

/-- Index queries `window(i, j)` (any integers or `None`, Python slice semantics over the covered range) and
slot-aligned datetime queries return, for each covered slot, its valid value or the fill value — never anything
else — and a datetime query spanning `y - x` periods returns at most `y - x` elements. -/
theorem C09_window_aligned {α : Type} (c : Cfg) (hp : 0 < c.period) (buffer : List (Option α))
    (hb : 1 ≤ buffer.length) (h : List (Int × Option α)) (fill : Option α) :
    let s := run c (State.init buffer) h
    let sp := Spec.run c buffer.length h
    ((∀ j, sp.val j = none) →
        (∀ i j, windowIdx c s i j (some fill) = []) ∧ ∀ x y, windowTs c s (slotTime c x) (slotTime c y) (some fill) = [])
    ∧ ∀ n k, sp.newest = some n → sp.IsOldestValid k →
        (∀ i j, windowIdx c s i j (some fill)
            = sp.window (k + (sliceIndices i j (n - k + 1)).1) (k + (sliceIndices i j (n - k + 1)).2) fill)
        ∧ ∀ x y, windowTs c s (slotTime c x) (slotTime c y) (some fill) = sp.window (max x k) (min y (n + 1)) fill
            ∧ (windowTs c s (slotTime c x) (slotTime c y) (some fill)).length ≤ (y - x).toNat := by
  intro s sp
  obtain ⟨hI, _, habs⟩ := run_refines c (State.init buffer) (Inv.init buffer hb) Spec.init (abs_init buffer) h
  have habs' : abs s = sp := habs
  refine ⟨fun hall => ?_, fun n k hn hk => ?_⟩
  · obtain ⟨_, h2, _, _⟩ := observers_of_empty s hI (by rw [habs']; exact hall)
    exact ⟨fun i j => by rw [windowIdx_spec c hp s hI, h2], fun x y => by rw [windowTs_spec c hp s hI, h2]⟩
  · obtain ⟨_, h2, h3, _, _, _⟩ := observers_of_spec s hI n k (by rw [habs']; exact hn) (by rw [habs']; exact hk)
    refine ⟨fun i j => ?_, fun x y => ?_⟩
    · rw [windowIdx_spec c hp s hI, h2, h3, habs']
    · have e : windowTs c s (slotTime c x) (slotTime c y) (some fill) = sp.window (max x k) (min y (n + 1)) fill := by
        rw [windowTs_spec c hp s hI, h2, h3, habs', normSlot_slotTime c hp, normSlot_slotTime c hp]
      refine ⟨e, ?_⟩
      rw [e]; unfold Spec.window
      simp only [List.length_map, List.length_range]
      omega

/-- Datetime queries with ARBITRARY (unaligned, close together, outside, straddling) bounds: the result is exactly the
slots from `normalize(start)` (inclusive) to `normalize(end)` (exclusive) clamped to the covered range, each with
its valid value or the fill value.  Hence it is empty when both bounds fall into the same slot, never longer than
the number of slots between the two bounds, and — for an even number of microseconds per period, where
`normalize` is "nearest slot" — `length · period ≤ (end - start) + period`. -/
theorem C09_window_unaligned {α : Type} (c : Cfg) (hp : 0 < c.period) (buffer : List (Option α))
    (hb : 1 ≤ buffer.length) (h : List (Int × Option α)) (fill : Option α) (start end_ : Int) :
    let s := run c (State.init buffer) h
    let sp := Spec.run c buffer.length h
    ((∀ j, sp.val j = none) → windowTs c s start end_ (some fill) = [])
    ∧ (∀ n k, sp.newest = some n → sp.IsOldestValid k →
        windowTs c s start end_ (some fill)
          = sp.window (max (normSlot c start) k) (min (normSlot c end_) (n + 1)) fill)
    ∧ (windowTs c s start end_ (some fill)).length ≤ (normSlot c end_ - normSlot c start).toNat
    ∧ (c.period % 2 = 0 →
        ((windowTs c s start end_ (some fill)).length : Int) * c.period ≤ max 0 (end_ - start) + c.period) := by
  intro s sp
  obtain ⟨hI, _, habs⟩ := run_refines c (State.init buffer) (Inv.init buffer hb) Spec.init (abs_init buffer) h
  have habs' : abs s = sp := habs
  have hlen : (windowTs c s start end_ (some fill)).length ≤ (normSlot c end_ - normSlot c start).toNat := by
    rw [windowTs_spec c hp s hI]
    split
    · unfold Spec.window; simp only [List.length_map, List.length_range]; omega
    · simp
  refine ⟨?_, ?_, hlen, ?_⟩
  · intro hall
    obtain ⟨_, h2, _, _⟩ := observers_of_empty s hI (by rw [habs']; exact hall)
    rw [windowTs_spec c hp s hI, h2]
  · intro n k hn hk
    obtain ⟨_, h2, h3, _, _, _⟩ := observers_of_spec s hI n k (by rw [habs']; exact hn) (by rw [habs']; exact hk)
    rw [windowTs_spec c hp s hI, h2, h3, habs']
  · intro he
    obtain ⟨a1, a2, _⟩ := normSlot_nearest c hp he start
    obtain ⟨b1, b2, _⟩ := normSlot_nearest c hp he end_
    have hs := slotTime_sub c (normSlot c end_) (normSlot c start)
    generalize (windowTs c s start end_ (some fill)).length = L at *
    by_cases hpos : normSlot c start < normSlot c end_
    · have hL : (L : Int) ≤ normSlot c end_ - normSlot c start := by omega
      have := Int.mul_le_mul_of_nonneg_right hL (Int.le_of_lt hp)
      omega
    · have : L = 0 := by omega
      subst this; simp; omega

/-- Datetime queries OUTSIDE the stored span (a corollary of `C09_window_unaligned`, spelled out): a range whose start
falls into a slot after the newest one, or whose end falls into a slot not after the oldest valid one, or whose bounds
are reversed / in one slot, is empty — whatever else is stored, aligned or not, however far away. -/
theorem C09_window_outside_span {α : Type} (c : Cfg) (hp : 0 < c.period) (buffer : List (Option α))
    (hb : 1 ≤ buffer.length) (h : List (Int × Option α)) (fill : Option α) (start end_ : Int) :
    let s := run c (State.init buffer) h
    let sp := Spec.run c buffer.length h
    ∀ n k, sp.newest = some n → sp.IsOldestValid k →
      (n < normSlot c start ∨ normSlot c end_ ≤ k ∨ normSlot c end_ ≤ normSlot c start) →
      windowTs c s start end_ (some fill) = [] := by
  intro s sp n k hn hk hout
  have e := (C09_window_unaligned c hp buffer hb h fill start end_).2.1 n k hn hk
  rw [e]
  unfold Spec.window
  have : (min (normSlot c end_) (n + 1) - max (normSlot c start) k).toNat = 0 := by omega
  rw [this]; rfl

/-- `window(start, end)` never raises `IndexError` for two datetimes, wherever they lie relative to the stored span
(entirely after the newest slot, entirely before the oldest, straddling, any distance away, aligned or not): the
range test of `to_internal_index` (the translated `tiiOutside`) cannot fire on the clamped bounds. -/
theorem C09_window_never_raises {α : Type} (c : Cfg) (hp : 0 < c.period) (buffer : List (Option α))
    (hb : 1 ≤ buffer.length) (h : List (Int × Option α)) (start end_ : Int) :
    windowTsRaises c (run c (State.init buffer) h) start end_ = false := by
  obtain ⟨hI, _, _⟩ := run_refines c (State.init buffer) (Inv.init buffer hb) Spec.init (abs_init buffer) h
  exact windowTs_never_raises c hp _ hI start end_

/-! ### `MovingWindow.at` / `MovingWindow[...]` -/

/-- `at(i)` raises IndexError when nothing valid is stored or `i ∉ [-count_covered, count_covered)`, otherwise it
returns the valid value (else NaN) of slot `oldest + i` resp. `newest + 1 + i`; `at(ts)` raises when `ts` is
outside `[oldest_timestamp, newest_timestamp]`, otherwise returns the valid value (else NaN) of the slot of `ts`.
Never a value of an evicted or unwritten slot. -/
theorem C09_at {α : Type} (c : Cfg) (hp : 0 < c.period) (buffer : List (Option α))
    (hb : 1 ≤ buffer.length) (h : List (Int × Option α)) :
    let s := run c (State.init buffer) h
    let sp := Spec.run c buffer.length h
    ((∀ j, sp.val j = none) → (∀ i, atIndex s i = .indexError) ∧ ∀ ts, atTs c s ts = .indexError)
    ∧ ∀ n k, sp.newest = some n → sp.IsOldestValid k →
        (∀ i, atIndex s i =
          if -(n - k + 1) ≤ i ∧ i < n - k + 1 then .value (sp.val ((if i ≥ 0 then k else n + 1) + i)) else .indexError)
        ∧ ∀ ts, atTs c s ts =
          if ts < slotTime c k ∨ ts > slotTime c n then .indexError else .value (sp.val (normSlot c ts)) := by
  intro s sp
  obtain ⟨hI, _, habs⟩ := run_refines c (State.init buffer) (Inv.init buffer hb) Spec.init (abs_init buffer) h
  have habs' : abs s = sp := habs
  refine ⟨fun hall => ?_, fun n k hn hk => ?_⟩
  · obtain ⟨_, h2, _, _⟩ := observers_of_empty s hI (by rw [habs']; exact hall)
    exact ⟨fun i => by rw [atIndex_spec s hI, h2], fun ts => by rw [atTs_spec c hp s hI, h2]⟩
  · obtain ⟨_, h2, h3, _, _, _⟩ := observers_of_spec s hI n k (by rw [habs']; exact hn) (by rw [habs']; exact hk)
    exact ⟨fun i => by rw [atIndex_spec s hI, h2, h3, habs'], fun ts => by rw [atTs_spec c hp s hI, h2, h3, habs']⟩

/-! ### The slot of a timestamp -/

/-- `normalize_timestamp`: grid points are fixed, the map is monotone, and for a period of an even number of
microseconds the result is a nearest grid point with exact ties going to the even slot. -/
theorem C09_normalize (c : Cfg) (hp : 0 < c.period) :
    (∀ k, normSlot c (slotTime c k) = k)
    ∧ (∀ x y, x ≤ y → normSlot c x ≤ normSlot c y)
    ∧ (c.period % 2 = 0 → ∀ ts,
        2 * (ts - slotTime c (normSlot c ts)) ≤ c.period ∧ 2 * (slotTime c (normSlot c ts) - ts) ≤ c.period
        ∧ ((2 * (ts - slotTime c (normSlot c ts)) = c.period ∨ 2 * (slotTime c (normSlot c ts) - ts) = c.period) →
            normSlot c ts % 2 = 0)) :=
  ⟨normSlot_slotTime c hp, fun _ _ h => normSlot_mono c hp h, fun he ts => normSlot_nearest c hp he ts⟩

/-- The fixed tree computes `count_covered` with the exact `timedelta // timedelta` (the pinned tree divides
two `total_seconds()` floats: `0.6 // 0.2 == 2.0`). -/
theorem C09_count_covered_exact : countCoveredExact = true := by decide

/-! ### The full statement -/

/-- C09 in full: for every value type, sampling period > 0, alignment point, container of capacity ≥ 1 and update
history (timestamps anywhere, values valid or missing): content, rejection, gap list, counts, oldest/newest, every
index window, every datetime window (aligned or not), `MovingWindow.at`. -/
def C09_statement : Prop :=
  ∀ (α : Type) (c : Cfg), 0 < c.period → ∀ (buffer : List (Option α)), 1 ≤ buffer.length →
  ∀ (h : List (Int × Option α)),
    let s := run c (State.init buffer) h
    let sp := Spec.run c buffer.length h
    -- the buffer holds exactly the last valid value written to each slot of the window ending at the newest slot
    abs s = sp
    -- rejects updates older than that window (and only those), without side effect
    ∧ (∀ ts v,
        ((update c s ts v).2 = true ↔
          ∃ n, sp.newest = some n ∧ normSlot c ts < n - ((buffer.length : Int) - 1))
        ∧ ((update c s ts v).2 = true → (update c s ts v).1 = s))
    -- gaps consistent with that content
    ∧ ((s.newest = none → s.gaps = [])
       ∧ ∀ n, s.newest = some n →
          GapsInv buffer.length n s.gaps
          ∧ ∀ k, n - ((buffer.length : Int) - 1) ≤ k → k ≤ n → (isMissing s.gaps k = true ↔ sp.val k = none))
    -- valid count, oldest / newest timestamps, covered count
    ∧ (countValid s = Spec.count buffer.length sp
       ∧ ((Spec.count buffer.length sp = 0 ∧ oldestTs s = none ∧ newestTs s = none ∧ countCovered s = 0
            ∧ ∀ j, sp.val j = none)
          ∨ ∃ n k, Spec.count buffer.length sp ≠ 0 ∧ sp.newest = some n ∧ sp.IsOldestValid k
            ∧ n - ((buffer.length : Int) - 1) ≤ k ∧ k ≤ n
            ∧ oldestTs s = some k ∧ newestTs s = some n ∧ countCovered s = n - k + 1))
    -- window queries by index and by arbitrary datetimes
    ∧ (∀ fill : Option α,
        ((∀ j, sp.val j = none) →
          (∀ i j, windowIdx c s i j (some fill) = []) ∧ ∀ start end_, windowTs c s start end_ (some fill) = [])
        ∧ (∀ n k, sp.newest = some n → sp.IsOldestValid k →
            (∀ i j, windowIdx c s i j (some fill)
              = sp.window (k + (sliceIndices i j (n - k + 1)).1) (k + (sliceIndices i j (n - k + 1)).2) fill)
            ∧ ∀ start end_, windowTs c s start end_ (some fill)
              = sp.window (max (normSlot c start) k) (min (normSlot c end_) (n + 1)) fill)
        -- never more slots than the query spans
        ∧ ∀ start end_,
            (windowTs c s start end_ (some fill)).length ≤ (normSlot c end_ - normSlot c start).toNat
            ∧ (c.period % 2 = 0 →
                ((windowTs c s start end_ (some fill)).length : Int) * c.period ≤ max 0 (end_ - start) + c.period))
    -- single-element access
    ∧ (((∀ j, sp.val j = none) → (∀ i, atIndex s i = .indexError) ∧ ∀ ts, atTs c s ts = .indexError)
       ∧ ∀ n k, sp.newest = some n → sp.IsOldestValid k →
          (∀ i, atIndex s i =
            if -(n - k + 1) ≤ i ∧ i < n - k + 1 then .value (sp.val ((if i ≥ 0 then k else n + 1) + i))
            else .indexError)
          ∧ ∀ ts, atTs c s ts =
            if ts < slotTime c k ∨ ts > slotTime c n then .indexError else .value (sp.val (normSlot c ts)))

theorem C09_full : C09_statement := by
  intro α c hp buffer hb h s sp
  refine ⟨C09_refines c buffer hb h, fun ts v => C09_reject_old c buffer hb h ts v, C09_gaps c buffer hb h,
    C09_counts c buffer hb h, fun fill => ⟨?_, ?_, ?_⟩, C09_at c hp buffer hb h⟩
  · intro hall
    exact ⟨((C09_window_aligned c hp buffer hb h fill).1 hall).1,
      fun start end_ => (C09_window_unaligned c hp buffer hb h fill start end_).1 hall⟩
  · intro n k hn hk
    exact ⟨((C09_window_aligned c hp buffer hb h fill).2 n k hn hk).1,
      fun start end_ => (C09_window_unaligned c hp buffer hb h fill start end_).2.1 n k hn hk⟩
  · intro start end_
    exact (C09_window_unaligned c hp buffer hb h fill start end_).2.2

/-! ### Non-vacuity and the DESIGN witnesses on the (fixed) model

Capacity 5, period 1 s, values 10..14 written at 0..4 s, then a missing value at 2 s. -/

/-- The hypotheses of the window / `at` theorems are satisfiable: a state with valid data and a gap in the middle,
whose abstract map has newest slot 4 and oldest valid slot 0. -/
example :
    let c : Cfg := { align := 0, period := 1000000 }
    let h : List (Int × Option Nat) :=
      [(0, some 10), (1000000, some 11), (2000000, some 12), (3000000, some 13), (4000000, some 14), (2000000, none)]
    (0 < c.period ∧ 1 ≤ [none, none, none, none, (none : Option Nat)].length)
    ∧ ∃ n k, (Spec.run c 5 h).newest = some n ∧ (Spec.run c 5 h).IsOldestValid k ∧ k < n := by
  intro c h
  refine ⟨by decide, ?_⟩
  have hc := C09_counts c [none, none, none, none, (none : Option Nat)] (by decide) h
  obtain ⟨hcv, hcase⟩ := hc
  have hne : countValid (run c (State.init [none, none, none, none, (none : Option Nat)]) h) = 4 := by decide
  have hold : oldestTs (run c (State.init [none, none, none, none, (none : Option Nat)]) h) = some 0 := by decide
  have hnew : newestTs (run c (State.init [none, none, none, none, (none : Option Nat)]) h) = some 4 := by decide
  rcases hcase with ⟨h0, _⟩ | ⟨n, k, _, h2, h3, _, _, h6, h7, _⟩
  · exfalso
    have : (Spec.count 5 (Spec.run c 5 h) : Int) = 4 := by rw [← hne]; exact hcv.symm
    have h0' : Spec.count 5 (Spec.run c 5 h) = 0 := h0
    omega
  · have e1 : k = 0 := by rw [hold] at h6; cases h6; rfl
    have e2 : n = 4 := by rw [hnew] at h7; cases h7; rfl
    exact ⟨n, k, h2, h3, by omega⟩

/-- DESIGN §5 #5: `window(1.1 s, 1.3 s)` is empty (the pinned tree returned the whole buffer). -/
example :
    windowTs { align := 0, period := 1000000 }
      (run { align := 0, period := 1000000 } (State.init [none, none, none, none, (none : Option Nat)])
        [(0, some 10), (1000000, some 11), (2000000, some 12), (3000000, some 13), (4000000, some 14)])
      1100000 1300000 (some none) = [] := by decide

/-- Seeded C09-r2-3: with slots 2..6 stored, `window(7 s, 8 s)` (entirely after the newest slot) is empty and
`window(8 s, 9 s)` neither raises nor returns anything; a window straddling the newest end is cut there. -/
example :
    let c : Cfg := { align := 0, period := 1000000 }
    let s := run c (State.init [none, none, none, none, (none : Option Nat)])
      [(0, some 10), (1000000, some 11), (2000000, some 12), (3000000, some 13), (4000000, some 14),
       (5000000, some 15), (6000000, some 16)]
    windowTs c s 7000000 8000000 (some none) = [] ∧ windowTs c s 6700000 8200000 (some none) = []
    ∧ windowTs c s 8000000 9000000 (some none) = [] ∧ windowTsRaises c s 8000000 9000000 = false
    ∧ windowTs c s 0 1000000 (some none) = [] ∧ windowTs c s 5000000 9000000 (some none) = [some 15, some 16] := by
  decide

/-- DESIGN §5 #6: with a gap at 2 s, `window(0.4 s, 4.4 s) = [10, 11, nan, 13]` (pinned: `[10, nan, nan, 13]`). -/
example :
    windowTs { align := 0, period := 1000000 }
      (run { align := 0, period := 1000000 } (State.init [none, none, none, none, (none : Option Nat)])
        [(0, some 10), (1000000, some 11), (2000000, some 12), (3000000, some 13), (4000000, some 14), (2000000, none)])
      400000 4400000 (some none) = [some 10, some 11, none, some 13] := by decide

/-- DESIGN §5 #7: after a jump to 7 s, `at(2)` and `mw[5 s]` are gap slots (NaN, not the evicted 10 / 11) and
`at(count_covered)` is out of range. -/
example :
    let c : Cfg := { align := 0, period := 1000000 }
    let s := run c (State.init [none, none, none, none, (none : Option Nat)])
      [(0, some 10), (1000000, some 11), (2000000, some 12), (3000000, some 13), (4000000, some 14), (7000000, some 17)]
    atIndex s 2 = .value none ∧ atTs c s 5000000 = .value none ∧ countCovered s = 5 ∧ atIndex s 5 = .indexError
    ∧ atIndex s 0 = .value (some 13) ∧ atIndex s (-1) = .value (some 17) := by decide

/-- Capacity 1: the empty range left by a jump (second disjunct of `GapsInv`) does occur. -/
example :
    (run { align := 0, period := 1000000 } (State.init [(none : Option Nat)]) [(3000000, some 1)]).gaps = [(3, 3)] := by
  decide

/-! ### Model is source

`Extracted/RingBufferLoops.lean` is the machine translation of the WHOLE bodies of the methods of `buffer.py` and of
`MovingWindow.at`, regenerated from the current source text on every run (`tools/extractors/ringbuffer_loops.py`: statement
by statement; in-place mutation of the gap list through aliases as index updates, the `while` loop of `_cleanup_gaps` as
a fuel-indexed recursion, `for`/`any`/`sum`/`min`/`next(… enumerate …)` as list operations, early returns, raised
exceptions as `none`).  The hand-written model — about which every theorem above is stated — equals it. -/

/-- **The model is the source.**
(1) Update side, stored timestamps as slot numbers (`period = 1`, `_full_time_range = capacity`): `Gap.contains`,
`is_missing`, `_remove_gap`, the `while` loop of `_cleanup_gaps` (for EVERY fuel, at any index `i = |pre|` with the
elements before it final) and `_cleanup_gaps` itself, `_update_gaps` (all branches incl. the early return on a far jump),
`update` on a non-fresh and on the fresh buffer (rejection = `IndexError`, container write at `to_internal_index`, new
window bounds); `normalize_timestamp` in microseconds.
(2) Query side on the state as the code holds it (microsecond timestamps, `Rep`): `count_valid`, `oldest_timestamp`,
`newest_timestamp`, `count_covered`, `get_timestamp`, `window` for two datetimes and for two indices (ValueError /
IndexError / the model's `windowTs`, both container types, with and without `force_copy` / fill value),
`MovingWindow.at` for a datetime and for an index. -/
theorem C09_model_is_source :
    (∀ s e t : Int, Extracted.RingBufferLoops.contains s e t = decide (Extracted.RingBuffer.gapContains s e t))
    ∧ (∀ (gaps : List Gap) (t : Int), Extracted.RingBufferLoops.isMissing gaps t = isMissing gaps t)
    ∧ (∀ (gaps : List Gap) (t : Int), Extracted.RingBufferLoops.removeGap 1 gaps t = removeGap gaps t)
    ∧ (∀ (o : Int) (fuel : Nat) (pre rest : List Gap),
        (Extracted.RingBufferLoops.cleanupGaps_loop1 o fuel (pre ++ rest) pre.length).1 = pre ++ cleanupLoop o fuel rest)
    ∧ (∀ (gaps : List Gap) (o : Int), Extracted.RingBufferLoops.cleanupGaps gaps o = cleanupGaps o gaps)
    ∧ (∀ (fr : Int) (gaps : List Gap) (t newest sn o : Int) (rec : Bool),
        Extracted.RingBufferLoops.updateGaps 1 fr gaps sn o t newest rec = updateGaps fr gaps t newest sn o rec)
    ∧ (∀ (c : Cfg) (ts : Int), Extracted.RingBufferLoops.normalizeTimestamp c.period c.align ts = slotTime c (normSlot c ts))
    ∧ (∀ (α : Type) (s : State α), s.cap = s.slots.length → 1 ≤ s.cap → ∀ n, s.newest = some n →
        ∀ tsMax, oldestOf s.cap n ≠ tsMax → ∀ (t : Int) (isNone isNan : Bool) (base : α),
        Extracted.RingBufferLoops.update 1 (s.cap : Int) 0 tsMax s.slots s.gaps n (oldestOf s.cap n) t isNone isNan base =
          if (updateSlot s t (RingBufferTie.storedValue isNone isNan base)).2 = true then none
          else some ((updateSlot s t (RingBufferTie.storedValue isNone isNan base)).1.slots,
                     (updateSlot s t (RingBufferTie.storedValue isNone isNan base)).1.gaps, max n t,
                     oldestOf s.cap (max n t)))
    ∧ (∀ (α : Type) (s : State α), s.cap = s.slots.length → 1 ≤ s.cap → s.newest = none → s.gaps = [] →
        ∀ (tsMax m t : Int), m ≤ t - s.cap → ∀ (isNone isNan : Bool) (base : α),
        Extracted.RingBufferLoops.update 1 (s.cap : Int) 0 tsMax s.slots s.gaps m tsMax t isNone isNan base =
          some ((updateSlot s t (RingBufferTie.storedValue isNone isNan base)).1.slots,
                (updateSlot s t (RingBufferTie.storedValue isNone isNan base)).1.gaps, t, oldestOf s.cap t)
        ∧ (updateSlot s t (RingBufferTie.storedValue isNone isNan base)).2 = false)
    -- `update` in microseconds with `_update_gaps` as a parameter `upd`: rejection, container position, new bounds
    -- and every argument handed to `_update_gaps` (the NORMALISED timestamp, the previous newest, "is missing")
    ∧ (∀ (α : Type) (c : Cfg), 0 < c.period → ∀ (s : State α), s.cap = s.slots.length → 1 ≤ s.cap →
        ∀ (n tsMax : Int), slotTime c (oldestOf s.cap n) ≠ tsMax →
        ∀ (upd : Int → Int → List Gap → Int → Int → Int → Int → Bool → List Gap) (G : List Gap) (ts : Int)
          (isNone isNan : Bool) (base : α),
        Extracted.RingBufferLoops.updateAbs c.period ((s.cap : Int) * c.period) c.align tsMax upd s.slots G (slotTime c n)
            (slotTime c (oldestOf s.cap n)) ts isNone isNan base =
          if normSlot c ts < oldestOf s.cap n then none
          else some (s.slots.set (wrapIdx s.cap (normSlot c ts)) (RingBufferTie.storedValue isNone isNan base),
                     upd c.period ((s.cap : Int) * c.period) G (slotTime c (max n (normSlot c ts)))
                       (slotTime c (oldestOf s.cap (max n (normSlot c ts)))) (slotTime c (normSlot c ts)) (slotTime c n)
                       (RingBufferTie.storedValue isNone isNan base).isNone,
                     slotTime c (max n (normSlot c ts)), slotTime c (oldestOf s.cap (max n (normSlot c ts)))))
    ∧ (∀ (α : Type) (c : Cfg) (tsMin tsMax : Int) (s : State α), RingBufferTie.Rep c tsMin s →
        let G := RingBufferTie.usGaps c s.gaps
        let N := RingBufferTie.usNewest c tsMin s
        let O := RingBufferTie.usOldest c tsMax s
        Extracted.RingBufferLoops.countValid c.period c.align tsMin s.slots G N O = some (countValid s)
        ∧ Extracted.RingBufferLoops.oldestTimestamp c.period c.align tsMin s.slots G N O = some ((oldestTs s).map (slotTime c))
        ∧ Extracted.RingBufferLoops.newestTimestamp c.period c.align tsMin s.slots G N O = some ((newestTs s).map (slotTime c))
        ∧ Extracted.RingBufferLoops.countCovered c.period c.align tsMin s.slots G N O = some (countCovered s)
        ∧ (∀ i, Extracted.RingBufferLoops.getTimestamp c.period c.align tsMin s.slots G N O i
                  = some ((getTimestamp s i).map (slotTime c)))
        ∧ (∀ (isList fc : Bool) (start end_ : Int) (fill : Option (Option α)),
            Extracted.RingBufferLoops.windowDt c.period c.align tsMin isList s.slots G N O start end_ fc fill =
              if fc = false ∧ fill.isSome = true then none
              else if windowTsRaises c s start end_ = true then none
              else some (windowTs c s start end_ fill))
        ∧ (∀ (isList fc : Bool) (i j : Option Int) (fill : Option (Option α)),
            Extracted.RingBufferLoops.windowIdx c.period c.align tsMin isList s.slots G N O i j fc fill =
              if fc = false ∧ fill.isSome = true then none
              else if countCovered s = 0 then some []
              else
                match getTimestamp s (sliceIndices i j (countCovered s)).1,
                      getTimestamp s (sliceIndices i j (countCovered s)).2 with
                | some a, some b =>
                  Extracted.RingBufferLoops.windowDt c.period c.align tsMin isList s.slots G N O
                    (slotTime c a) (slotTime c b) fc fill
                | _, _ => none)
        ∧ (∀ ts, Extracted.RingBufferLoops.atTs c.period c.align tsMin s.slots G N O ts = RingBufferTie.atOpt (atTs c s ts))
        ∧ (∀ i, Extracted.RingBufferLoops.atIdx c.period c.align tsMin s.slots G N O i = RingBufferTie.atOpt (atIndex s i))) :=
  ⟨RingBufferTie.contains_eq, RingBufferTie.isMissing_eq, RingBufferTie.removeGap_eq, RingBufferTie.cleanupLoop_eq,
   RingBufferTie.cleanupGaps_eq, RingBufferTie.updateGaps_eq, RingBufferTie.normalize_eq,
   fun _ s hl hc n hn tsMax hm t a b x => RingBufferTie.update_slot_some s hl hc n hn tsMax hm t a b x,
   fun _ s hl hc hn hg tsMax m t hm a b x => RingBufferTie.update_slot_fresh s hl hc hn hg tsMax m t hm a b x,
   fun _ c hp s hl hc n tsMax hm upd G ts a b x => RingBufferTie.updateAbs_us c hp s hl hc n tsMax hm upd G ts a b x,
   fun _ c tsMin tsMax s hR =>
     ⟨RingBufferTie.countValid_us c tsMin tsMax s hR, RingBufferTie.oldestTs_us c tsMin tsMax s hR,
      RingBufferTie.newestTs_us c tsMin tsMax s hR, RingBufferTie.countCovered_us c tsMin tsMax s hR,
      RingBufferTie.getTimestamp_us c tsMin tsMax s hR,
      fun l f a b x => RingBufferTie.windowDt_us c tsMin tsMax s hR l f a b x,
      fun l f a b x => RingBufferTie.windowIdx_us c tsMin tsMax s hR l f a b x,
      RingBufferTie.atTs_us c tsMin tsMax s hR, RingBufferTie.atIdx_us c tsMin tsMax s hR⟩⟩

/-- Non-vacuity: the translated `_cleanup_gaps` (sort, `while` loop with trimming, merging, advancing) computes, and
the representation hypothesis `Rep` of the query-side ties holds for the state of the example history. -/
example : Extracted.RingBufferLoops.cleanupGaps [(5, 7), (1, 3), (3, 4)] 2 = [(2, 4), (5, 7)] := by decide

example :
    RingBufferTie.Rep { align := 0, period := 1000000 } (-1000000000000)
      (run { align := 0, period := 1000000 } (State.init [none, none, none, none, (none : Option Nat)])
        [(0, some 10), (1000000, some 11), (2000000, some 12), (3000000, some 13), (4000000, some 14), (2000000, none)]) :=
  ⟨by decide, by decide, by decide, by decide⟩
