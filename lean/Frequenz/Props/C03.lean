/-
C03 — Power manager target stays inside usable system bounds, history-free.

Property theorems only.  Model: `Frequenz.Model.Matryoshka` (hand-written sweep) over
`Frequenz.Extracted.Bounds` (machine-translated from `_bounds.py` on every run).
-/
import Frequenz.Lemmas.Matryoshka
import Frequenz.Lemmas.Bucket
import Frequenz.Lemmas.MatryoshkaTie

open Matryoshka BoundsLemmas

/-- The quantifier's domain: inclusion bounds with `lower ≤ 0 ≤ upper` (or none) and an exclusion
zone that contains zero (or none). -/
def C03_InDomain (sb : SystemBounds) : Prop :=
  (∀ b, sb.incl = some b → b.lower ≤ 0 ∧ 0 ≤ b.upper) ∧ ZoneOK sb.excl

/-- "inside the system inclusion bounds (zero when there are none) and zero or outside the
exclusion zone". -/
def C03_Envelope (sb : SystemBounds) (t : Rat) : Prop :=
  (match sb.incl with
   | none => t = 0
   | some b => b.lower ≤ t ∧ t ≤ b.upper) ∧ OutOrZero sb.excl t

/-- Histories: an actor proposes (replacing its previous proposal), or old proposals are dropped. -/
inductive C03_Op where
  | propose (p : Proposal)
  | drop (now : Rat)

def C03_apply (maxAge : Rat) (b : List Proposal) : C03_Op → List Proposal
  | .propose p => insertProposal b p
  | .drop now => dropOld maxAge now b

/-- The abstract meaning of a history: a map from actor key to its latest, unexpired proposal. -/
def C03_specStep (maxAge : Rat) (m : Key → Option Proposal) : C03_Op → Key → Option Proposal
  | .propose p => fun k => if k = p.key then some p else m k
  | .drop now => fun k => (m k).filter (fun q => decide ¬ (now - q.created > maxAge))

def C03_bucketOf (maxAge : Rat) (h : List C03_Op) : List Proposal := h.foldl (C03_apply maxAge) []
def C03_liveMap (maxAge : Rat) (h : List C03_Op) : Key → Option Proposal :=
  h.foldl (C03_specStep maxAge) (fun _ => none)

/-- Envelope, for every list of proposals in *any* order (so in particular the sorted bucket). -/
theorem C03_envelope (sb : SystemBounds) (hd : C03_InDomain sb) (ps : List Proposal) :
    C03_Envelope sb (sweep sb ps).target := by
  obtain ⟨hincl, hz⟩ := hd
  -- frame of the sweep
  have key : ∀ L U : Rat, L ≤ 0 ∧ 0 ≤ U → (initSt sb).lo = L → (initSt sb).hi = U →
      L ≤ (sweep sb ps).target ∧ (sweep sb ps).target ≤ U ∧ OutOrZero (effExcl sb) (sweep sb ps).target := by
    intro L U h0 hl hu
    have hinit : Frame L U (effExcl sb) (initSt sb) := by
      refine ⟨by rw [hl]; exact Rat.le_refl, by rw [hu]; exact Rat.le_refl, ?_, ?_, ?_⟩
      · unfold initSt; split <;> exact h0.1
      · unfold initSt; split <;> exact h0.2
      · intro e _; left; unfold initSt; split <;> rfl
    have := foldl_step_frame h0 ps (initSt sb) hinit
    exact ⟨this.tlo, this.thi, this.out⟩
  have hout : ∀ t, OutOrZero (effExcl sb) t → OutOrZero sb.excl t := by
    intro t h e he
    unfold effExcl at h
    rw [he] at h
    by_cases hne : e.lower ≠ 0 ∨ e.upper ≠ 0
    · simp only [hne, if_true] at h; exact h e rfl
    · right
      have h1 : e.lower = 0 := by
        by_cases h' : e.lower = 0
        · exact h'
        · exact absurd (Or.inl h') hne
      have h2 : e.upper = 0 := by
        by_cases h' : e.upper = 0
        · exact h'
        · exact absurd (Or.inr h') hne
      unfold InZone; rw [h1, h2]; intro ⟨ha, hb⟩
      grind
  unfold C03_Envelope
  cases hi : sb.incl with
  | none =>
    have := key 0 0 ⟨Rat.le_refl, Rat.le_refl⟩ (by unfold initSt; rw [hi]) (by unfold initSt; rw [hi])
    exact ⟨Rat.le_antisymm this.2.1 this.1, hout _ this.2.2⟩
  | some b =>
    have := key b.lower b.upper (hincl b hi) (by unfold initSt; rw [hi]) (by unfold initSt; rw [hi])
    exact ⟨⟨this.1, this.2.1⟩, hout _ this.2.2⟩

/-- Every target the manager hands out satisfies the envelope of the bounds it was computed for —
whatever the bucket contains and whatever happened before. -/
theorem C03_manager_envelope (m : Mgr) (p : Option Proposal) (sb : SystemBounds) (must : Bool) (t : Rat)
    (hd : C03_InDomain sb) (ht : (m.calc p sb must).2 = some t) : C03_Envelope sb t := by
  unfold Mgr.calc at ht
  split at ht
  · simp at ht
  · split at ht
    · simp at ht
    · split at ht
      · simp only [Option.some.injEq] at ht; subst ht; exact C03_envelope sb hd _
      · simp at ht

/-- Order-freedom: the target is a function of the *set* of live proposals. -/
theorem C03_order_free (sb : SystemBounds) (b1 b2 : List Proposal) (hp : b1.Perm b2)
    (hk : KeysDistinct b1) : calcTarget sb b1 = calcTarget sb b2 := by
  unfold calcTarget; rw [sortDesc_eq_of_perm hp hk]

/-- The bucket refines the map "actor ↦ latest unexpired proposal", for every history. -/
theorem C03_bucket_refines_map (maxAge : Rat) (h : List C03_Op) :
    KeysDistinct (C03_bucketOf maxAge h) ∧
    ∀ k, absBucket (C03_bucketOf maxAge h) k = C03_liveMap maxAge h k := by
  unfold C03_bucketOf C03_liveMap
  suffices H : ∀ (b : List Proposal) (m : Key → Option Proposal), KeysDistinct b →
      (∀ k, absBucket b k = m k) →
      KeysDistinct (h.foldl (C03_apply maxAge) b) ∧
      ∀ k, absBucket (h.foldl (C03_apply maxAge) b) k = h.foldl (C03_specStep maxAge) m k by
    exact H [] _ List.Pairwise.nil (fun _ => rfl)
  induction h with
  | nil => intro b m hd hm; exact ⟨hd, hm⟩
  | cons op ops ih =>
    intro b m hd hm
    simp only [List.foldl_cons]
    cases op with
    | propose p =>
      apply ih _ _ (keysDistinct_insert hd p)
      intro k; simp only [C03_specStep]; rw [abs_insert, hm]
    | drop now =>
      apply ih _ _ (keysDistinct_dropOld hd maxAge now)
      intro k; simp only [C03_specStep]; rw [abs_dropOld hd, hm]

/-- History-freedom: two histories that leave the same latest-unexpired proposal per actor give
the same target, under every system bounds. -/
theorem C03_history_free (maxAge : Rat) (sb : SystemBounds) (h1 h2 : List C03_Op)
    (hsame : ∀ k, C03_liveMap maxAge h1 k = C03_liveMap maxAge h2 k) :
    calcTarget sb (C03_bucketOf maxAge h1) = calcTarget sb (C03_bucketOf maxAge h2) := by
  obtain ⟨d1, a1⟩ := C03_bucket_refines_map maxAge h1
  obtain ⟨d2, a2⟩ := C03_bucket_refines_map maxAge h2
  apply C03_order_free sb _ _ _ d1
  apply perm_of_abs_eq d1 d2
  intro k; rw [a1, a2, hsame]

/-- Expiry: after `drop_old_proposals(now)` exactly the proposals not older than `maxAge` remain. -/
theorem C03_expiry (maxAge now : Rat) (b : List Proposal) (p : Proposal) :
    p ∈ dropOld maxAge now b ↔ p ∈ b ∧ now - p.created ≤ maxAge := by
  unfold dropOld Extracted.Proposal.expired
  simp [List.mem_filter, Rat.not_lt]

/-- The full statement of C03 on the model. -/
def C03_statement : Prop :=
  (∀ (m : Mgr) (p : Option Proposal) (sb : SystemBounds) (must : Bool) (t : Rat),
      C03_InDomain sb → (m.calc p sb must).2 = some t → C03_Envelope sb t) ∧
  (∀ (maxAge : Rat) (sb : SystemBounds) (h1 h2 : List C03_Op),
      (∀ k, C03_liveMap maxAge h1 k = C03_liveMap maxAge h2 k) →
      calcTarget sb (C03_bucketOf maxAge h1) = calcTarget sb (C03_bucketOf maxAge h2)) ∧
  (∀ (maxAge now : Rat) (b : List Proposal) (p : Proposal),
      p ∈ dropOld maxAge now b ↔ p ∈ b ∧ now - p.created ≤ maxAge)

theorem C03_full : C03_statement :=
  ⟨C03_manager_envelope, C03_history_free, C03_expiry⟩

/-! Non-vacuity: a concrete in-domain system bounds with a cutting exclusion zone, two histories
with different orders/replacements and the same live map, and a non-trivial target. -/

def C03_exSb : SystemBounds := { incl := some ⟨-100, 100⟩, excl := some ⟨-10, 10⟩ }
def C03_exP1 : Proposal := { prio := 2, src := "a", pref := some 5, lo := some (-50), hi := some 50, created := 0 }
def C03_exP2 : Proposal := { prio := 1, src := "b", pref := some 70, lo := none, hi := none, created := 1 }
def C03_exP1old : Proposal := { C03_exP1 with pref := some 90, created := -5 }

example : C03_InDomain C03_exSb := by
  refine ⟨?_, ?_⟩
  · intro b hb; cases hb; decide
  · intro e he; cases he; decide

example : calcTarget C03_exSb (C03_bucketOf 60 [.propose C03_exP1old, .propose C03_exP2, .propose C03_exP1]) = 50 := by
  decide +kernel
example : calcTarget C03_exSb (C03_bucketOf 60 [.propose C03_exP2, .propose C03_exP1]) = 50 := by
  decide +kernel

/-- **The hand-written model is the current source text** (`_calc_target_power`, `calculate_target_power`).
`Extracted.Matryoshka.*` is machine-translated from `_matryoshka.py` on every run (prelude and ONE iteration of the
loop body of `_calc_target_power`, `_validate_component_ids`, the absent-bucket test and the store/return test of
`calculate_target_power`; the extractor also checks that the loop iterates over `sorted(proposals, reverse=True)`).
For ALL arguments: (1) `initSt`/`effExcl` are the extracted prelude; (2) `step` on a not-yet-stopped state is the
extracted loop body (`stopped` = the iteration executed `break`), and a stopped state is left alone; (3) hence
`calcTarget` is prelude + `for`-with-`break` over the extracted body + `return target_power`; (4) the guards of
`Mgr.calc` are the extracted conditions, and `Mgr.calc` is the composition of them with `calcTarget`. -/
theorem C03_model_is_source :
    (∀ sb : SystemBounds,
      Extracted.Matryoshka.calcInit sb.incl sb.excl =
        ((initSt sb).lo, (initSt sb).hi, effExcl sb, (initSt sb).target) ∧ (initSt sb).stopped = false) ∧
    (∀ (ex : Option Bounds) (s : St) (p : Proposal), s.stopped = false →
      Extracted.Matryoshka.calcStep ex s.lo s.hi s.target p.pref p.lo p.hi =
        ((step ex s p).lo, (step ex s p).hi, (step ex s p).target, (step ex s p).stopped)) ∧
    (∀ (ex : Option Bounds) (s : St) (p : Proposal), s.stopped = true → step ex s p = s) ∧
    (∀ (sb : SystemBounds) (bucket : List Proposal),
      calcTarget sb bucket = MatryoshkaTie.srcCalcTarget sb.incl sb.excl (sortDesc bucket)) ∧
    (∀ (m : Mgr) (sb : SystemBounds),
      Extracted.Matryoshka.validateFails m.bucket.isSome sb.incl sb.excl ↔
        (m.bucket.isNone ∧ sb.incl.isNone ∧ sb.excl.isNone)) ∧
    (∀ b : Option (List Proposal), Extracted.Matryoshka.bucketAbsent b ↔ b = none) ∧
    (∀ (must : Bool) (last : Option Rat) (t : Rat),
      Extracted.Matryoshka.storeNew must last t ↔ (must = true ∨ last ≠ some t)) ∧
    (∀ (m : Mgr) (p : Option Proposal) (sb : SystemBounds) (must : Bool),
      m.calc p sb must =
        if Extracted.Matryoshka.validateFails m.bucket.isSome sb.incl sb.excl then (m, none)
        else if Extracted.Matryoshka.bucketAbsent (m.newBucket p) then (m, none)
        else
          let b := (m.newBucket p).getD []
          if Extracted.Matryoshka.storeNew must m.last (calcTarget sb b) then
            ({ bucket := some b, last := some (calcTarget sb b) }, some (calcTarget sb b))
          else ({ m with bucket := some b }, none)) :=
  ⟨MatryoshkaTie.calcInit_eq, MatryoshkaTie.calcStep_eq, MatryoshkaTie.step_stopped,
   MatryoshkaTie.calcTarget_eq_source, MatryoshkaTie.validateFails_iff, MatryoshkaTie.bucketAbsent_iff,
   MatryoshkaTie.storeNew_iff, MatryoshkaTie.calc_eq⟩

/-- Non-vacuity: the source-assembled loop computes the non-trivial target of the example bucket. -/
example : MatryoshkaTie.srcCalcTarget C03_exSb.incl C03_exSb.excl (sortDesc [C03_exP2, C03_exP1]) = 50 := by
  decide +kernel
