import Frequenz.Model.Matryoshka

theorem C03_placeholder : (1 : Nat) = 1 := rfl
