/-
C20 — each component data message reaches every subscribed metric stream exactly once and in order; adding
subscriptions never loses, duplicates or reorders samples of existing ones; duplicate requests and requests for
unknown components (or, after `fixes/C20-unsupported-metric.patch`, for metrics the component's category does not
provide) have no effect.

All statements quantify over EVERY schedule (`List Event`: requests, API messages, streaming-task starts and
takes in any interleaving, for any set of components of any category) of the model in
`Frequenz/Model/DataSourcing.lean`; the metric tables are those regenerated from the source
(`Frequenz/Extracted/DataSourcing.lean`).

Notation: `final cfg s es` / `trace cfg s es` = state after / samples sent during schedule `es` from state `s`;
`delivered ch os` = what a receiver of registry channel `ch` sees; `sampleOf cfg ch m` = (timestamp of `m`, value of
`ch`'s metric in `m`); `owed cfg s ch` = samples of the messages still buffered in the API receiver of `ch`'s
component; `received cfg s cid es` = messages the SDK receives from the API for `cid` (those produced while the
stream is open); `msgsOf cid es` = all messages the API produces for `cid`.
-/
import Frequenz.Lemmas.DataSourcing
import Frequenz.Lemmas.DataSourcingTie

open DataSourcing Extracted.DataSourcing

/-! ## 1. One message, one sample per subscribed stream -/

/-- Fan-out of one message by a running streaming task, in any reachable state: every registered channel of the
component gets exactly one sample — the message's timestamp with the value of that channel's metric — and no other
channel gets anything. -/
def C20_fanout_once_statement : Prop :=
  ∀ (cfg : Config) (pre : List Event) (cid : Nat) (snap : Subs) (m : Msg) (q : List Msg) (ch : Chan),
    ((final cfg State.init pre).comps cid).active = some snap →
    ((final cfg State.init pre).comps cid).queue = m :: q →
    delivered ch (step cfg (final cfg State.init pre) (.take cid)).2
      = if ch ∈ ((final cfg State.init pre).comps cid).subs.chans
        then [⟨m.ts, extract (cfg.category cid) ch.metric m⟩] else []

theorem C20_fanout_once : C20_fanout_once_statement := by
  intro cfg pre cid snap m q ch ha hq
  have hi : Inv (final cfg State.init pre) := Inv.init.final cfg pre
  have hsnap := (hi cid).snap snap ha
  simp only [DataSourcing.step, ha, hq]
  rw [hsnap, delivered_fanout (hi cid).keyed]
  by_cases hm : ch ∈ ((final cfg State.init pre).comps cid).subs.chans
  · simp only [hm, if_true, count_eq_one_of_nodup_mem (hi cid).nodup hm]
    rfl
  · simp only [hm, if_false, List.count_eq_zero_of_not_mem hm]
    rfl

/-! ## 2. Exactly once, in order, across every hand-over -/

/-- Life of a subscription.  Let `request ch` arrive after any history `pre`, for a known component whose category
provides the metric, `ch` not registered before.  Then for EVERY continuation `post` (more requests — each accepted
one cancels and re-creates the streaming task —, messages, task starts and takes, interleaved in any way):
the samples delivered on `ch` over the whole history, followed by the samples of the messages still waiting in the
API receiver at the end, are exactly the samples of the messages that were waiting when the request was made
followed by those received afterwards — same order, each once, and nothing from before. -/
def C20_exactly_once_in_order_statement : Prop :=
  ∀ (cfg : Config) (pre post : List Event) (ch : Chan) (cat : Category),
    cfg.category ch.cid = some cat → supported cat ch.metric = true →
    ¬ Subscribed (final cfg State.init pre) ch →
    delivered ch (trace cfg State.init (pre ++ .request ch :: post))
        ++ owed cfg (final cfg State.init (pre ++ .request ch :: post)) ch
      = owed cfg (final cfg State.init pre) ch
        ++ (received cfg (final cfg State.init (pre ++ [.request ch])) ch.cid post).map (sampleOf cfg ch)

theorem C20_exactly_once_in_order : C20_exactly_once_in_order_statement := by
  intro cfg pre post ch cat hcat hsup hn
  have hi : Inv (final cfg State.init pre) := Inv.init.final cfg pre
  have hstep := step_request_accepted cfg hcat hsup hn
  have hfin : final cfg State.init (pre ++ [.request ch])
      = (final cfg State.init pre).set ch.cid (accept ((final cfg State.init pre).comps ch.cid) ch) := by
    rw [final_append, final_cons, final_nil, hstep]
  have hsub : Subscribed (final cfg State.init (pre ++ [.request ch])) ch := by
    rw [hfin]; exact subscribed_accept _ ch
  have hi' : Inv (final cfg State.init (pre ++ [.request ch])) := Inv.init.final cfg _
  have hbal := exec_balance cfg hi' hsub post
  have howed : owed cfg (final cfg State.init (pre ++ [.request ch])) ch
      = owed cfg (final cfg State.init pre) ch := by
    rw [hfin]; simp [owed, State.set_same, accept]
  have hpre : delivered ch (trace cfg State.init pre) = [] := exec_silent cfg Inv.init pre hn
  have hreq : delivered ch (trace cfg State.init (pre ++ [.request ch])) = [] := by
    rw [trace_append, delivered_append, hpre, trace_cons, hstep]
    rfl
  have hsplit : pre ++ .request ch :: post = (pre ++ [.request ch]) ++ post := by simp
  have e1 := trace_append cfg State.init (pre ++ [.request ch]) post
  have e2 := final_append cfg State.init (pre ++ [.request ch]) post
  rw [hsplit, e1, e2, delivered_append, hreq, List.nil_append, hbal, howed]

/-- The textbook form: if the API stream is already open and nothing is waiting when `ch` subscribes, and the
receiver has been drained at the end, then what `ch` has received is exactly
`⟨(ts m, value of ch's metric in m) | m produced by the API after the subscription⟩`. -/
theorem C20_exactly_once_in_order_drained (cfg : Config) (pre post : List Event) (ch : Chan) (cat : Category)
    (hcat : cfg.category ch.cid = some cat) (hsup : supported cat ch.metric = true)
    (hn : ¬ Subscribed (final cfg State.init pre) ch)
    (hopen : ((final cfg State.init pre).comps ch.cid).hasRecv = true)
    (hempty : ((final cfg State.init pre).comps ch.cid).queue = [])
    (hdrained : ((final cfg State.init (pre ++ .request ch :: post)).comps ch.cid).queue = []) :
    delivered ch (trace cfg State.init (pre ++ .request ch :: post))
      = (msgsOf ch.cid post).map (sampleOf cfg ch) := by
  have h := C20_exactly_once_in_order cfg pre post ch cat hcat hsup hn
  have hopen' : ((final cfg State.init (pre ++ [.request ch])).comps ch.cid).hasRecv = true := by
    rw [final_append, final_cons, final_nil]
    exact hasRecv_step cfg hopen _
  rw [received_eq_msgsOf cfg hopen' post] at h
  simpa [owed, hempty, hdrained] using h

/-- Hand-over, from any moment on.  Take any reachable moment at which `ch` is registered and the API stream of its
component is open.  Whatever happens afterwards (`post`: any number of new subscriptions for the same or other
components, each restarting a streaming task; messages arriving exactly between, before or after the restarts;
any scheduling of the tasks), the samples delivered on `ch` from that moment on, followed by those of the messages
still waiting at the end, are the samples of the messages waiting at that moment followed by ALL messages the API
produces afterwards — same order, each exactly once. -/
def C20_handover_statement : Prop :=
  ∀ (cfg : Config) (pre post : List Event) (ch : Chan),
    Live (final cfg State.init pre) ch →
    delivered ch (trace cfg (final cfg State.init pre) post)
        ++ owed cfg (final cfg State.init (pre ++ post)) ch
      = owed cfg (final cfg State.init pre) ch ++ (msgsOf ch.cid post).map (sampleOf cfg ch)

theorem C20_handover : C20_handover_statement := by
  intro cfg pre post ch hl
  have hi : Inv (final cfg State.init pre) := Inv.init.final cfg pre
  rw [final_append, exec_balance cfg hi hl.1 post, received_eq_msgsOf cfg hl.2 post]

/-- Consequence: what has been delivered on a live channel is always a prefix of what it is owed, so no sample is
duplicated, skipped or overtaken; and once the receiver has been drained nothing is missing. -/
theorem C20_delivered_prefix (cfg : Config) (pre post : List Event) (ch : Chan)
    (hl : Live (final cfg State.init pre) ch) :
    delivered ch (trace cfg (final cfg State.init pre) post)
      <+: owed cfg (final cfg State.init pre) ch ++ (msgsOf ch.cid post).map (sampleOf cfg ch) := by
  rw [← C20_handover cfg pre post ch hl]
  exact List.prefix_append _ _

theorem C20_drained_complete (cfg : Config) (pre post : List Event) (ch : Chan)
    (hl : Live (final cfg State.init pre) ch)
    (hd : ((final cfg State.init (pre ++ post)).comps ch.cid).queue = []) :
    delivered ch (trace cfg (final cfg State.init pre) post)
      = owed cfg (final cfg State.init pre) ch ++ (msgsOf ch.cid post).map (sampleOf cfg ch) := by
  have h := C20_handover cfg pre post ch hl
  simp only [owed, hd, List.map_nil, List.append_nil] at h
  simpa [owed] using h

/-! ## 3. Adding subscriptions does not disturb existing ones -/

/-- Insert a request `r` (any request: new channel, same or other metric, same or other component, duplicate,
unknown) at ANY position of ANY continuation.  For a channel that is live before, delivered ++ still-waiting is the
same with and without the inserted request: no sample is lost, duplicated or reordered by the restart. -/
def C20_add_preserves_existing_statement : Prop :=
  ∀ (cfg : Config) (pre a b : List Event) (r ch : Chan),
    Live (final cfg State.init pre) ch →
    delivered ch (trace cfg (final cfg State.init pre) (a ++ .request r :: b))
        ++ owed cfg (final cfg State.init (pre ++ (a ++ .request r :: b))) ch
      = delivered ch (trace cfg (final cfg State.init pre) (a ++ b))
        ++ owed cfg (final cfg State.init (pre ++ (a ++ b))) ch

theorem C20_add_preserves_existing : C20_add_preserves_existing_statement := by
  intro cfg pre a b r ch hl
  rw [C20_handover cfg pre _ ch hl, C20_handover cfg pre _ ch hl, msgsOf_append, msgsOf_append]
  rfl

/-! ## 4. Requests without effect -/

/-- Repeating a request that has occurred before (whether it was accepted or ignored then) changes nothing: the
state — registrations, streaming task, buffered messages — and everything sent afterwards are those of the
schedule without the repetition. -/
def C20_duplicate_noop_statement : Prop :=
  ∀ (cfg : Config) (pre post : List Event) (r : Chan),
    Event.request r ∈ pre →
    step cfg (final cfg State.init pre) (.request r) = (final cfg State.init pre, []) ∧
    exec cfg State.init (pre ++ .request r :: post) = exec cfg State.init (pre ++ post)

theorem C20_duplicate_noop : C20_duplicate_noop_statement := by
  intro cfg pre post r hmem
  have h := (settled_of_mem cfg State.init r pre hmem).noop
  exact ⟨h, exec_skip cfg State.init pre post _ h⟩

/-- The same for a channel that is registered, however it got there. -/
theorem C20_duplicate_noop_registered (cfg : Config) (pre : List Event) (r : Chan)
    (h : Subscribed (final cfg State.init pre) r) :
    step cfg (final cfg State.init pre) (.request r) = (final cfg State.init pre, []) :=
  Settled.noop (Or.inr (Or.inr ((Inv.init.final cfg pre r.cid).found r h)))

/-- A request for a component id that the API does not list is ignored, in every state. -/
def C20_unknown_ignored_statement : Prop :=
  ∀ (cfg : Config) (pre post : List Event) (r : Chan),
    cfg.category r.cid = none →
    (∀ s : State, step cfg s (.request r) = (s, [])) ∧
    exec cfg State.init (pre ++ .request r :: post) = exec cfg State.init (pre ++ post)

theorem C20_unknown_ignored : C20_unknown_ignored_statement := by
  intro cfg pre post r h
  exact ⟨fun s => step_request_unknown cfg s h,
    exec_skip cfg State.init pre post _ (step_request_unknown cfg _ h)⟩

/-- (Behaviour after `fixes/C20-unsupported-metric.patch`.)  A request for a metric that the component's category
does not provide — including any request for a category without data — is ignored, in every state. -/
def C20_unsupported_ignored_statement : Prop :=
  ∀ (cfg : Config) (pre post : List Event) (r : Chan) (cat : Category),
    cfg.category r.cid = some cat → supported cat r.metric = false →
    (∀ s : State, step cfg s (.request r) = (s, [])) ∧
    exec cfg State.init (pre ++ .request r :: post) = exec cfg State.init (pre ++ post)

theorem C20_unsupported_ignored : C20_unsupported_ignored_statement := by
  intro cfg pre post r cat hc hs
  exact ⟨fun s => step_request_unsupported cfg s hc hs,
    exec_skip cfg State.init pre post _ (step_request_unsupported cfg _ hc hs)⟩

/-! ## 5. The value put into a sample (tables extracted from the source) -/

/-- Every entry of every extracted table maps the metric id to the message attribute of the same name
(`FOO_PHASE_k ↦ foo_per_phase[k-1]`, `FOO ↦ foo`). -/
theorem C20_tables_canonical :
    ∀ cat tbl, (cat, tbl) ∈ extractionDispatch → ∀ μ f, (μ, f) ∈ tbl → f = canonicalField μ := by
  have h : (extractionDispatch.all fun p => p.2.all fun q => decide (q.2 = canonicalField q.1)) = true := by
    decide +kernel
  intro cat tbl hm μ f hf
  have h1 := List.all_eq_true.mp h (cat, tbl) hm
  have h2 := List.all_eq_true.mp h1 (μ, f) hf
  exact of_decide_eq_true h2

/-- The categories with a data stream are exactly meter, inverter, battery and EV charger; for each of them the
metrics are validated against the same table that later builds the samples, and the stream that is opened is the one
of that category. -/
theorem C20_dispatch_consistent :
    (∀ p ∈ dataCategories, ∃ tbl, assoc extractionDispatch p.1 = some tbl ∧ (p.1, tbl, p.2) ∈ checkDispatch) ∧
    extractionDispatch.length = dataCategories.length ∧ checkDispatch.length = dataCategories.length := by
  have h : (dataCategories.all fun p =>
      match assoc extractionDispatch p.1 with
      | none => false
      | some tbl => decide ((p.1, tbl, p.2) ∈ checkDispatch)) = true := by decide +kernel
  refine ⟨?_, by decide, by decide⟩
  intro p hp
  have hp' := List.all_eq_true.mp h p hp
  cases ha : assoc extractionDispatch p.1 with
  | none => simp [ha] at hp'
  | some tbl =>
    simp only [ha] at hp'
    exact ⟨tbl, rfl, of_decide_eq_true hp'⟩

/-- Value-extraction correctness for every category: when the category provides the metric, the value of the sample
is the canonical attribute of the message. -/
def C20_value_extraction_statement : Prop :=
  ∀ (cat : Category) (μ : Metric) (m : Msg),
    supported cat μ = true → extract (some cat) μ m = readField (canonicalField μ) m

theorem C20_value_extraction : C20_value_extraction_statement := by
  intro cat μ m hs
  unfold supported fieldOf at hs
  unfold extract fieldOf
  cases ht : assoc extractionDispatch cat with
  | none => simp [ht] at hs
  | some tbl =>
    simp only [ht] at hs ⊢
    cases hf : assoc tbl μ with
    | none => simp [hf] at hs
    | some f =>
      simp only []
      rw [C20_tables_canonical cat tbl (assoc_mem ht) μ f (assoc_mem hf)]

/-! ## 6. The property -/

def C20_statement : Prop :=
  C20_fanout_once_statement ∧ C20_exactly_once_in_order_statement ∧ C20_handover_statement ∧
  C20_add_preserves_existing_statement ∧ C20_duplicate_noop_statement ∧ C20_unknown_ignored_statement ∧
  C20_unsupported_ignored_statement ∧ C20_value_extraction_statement

theorem C20_full : C20_statement :=
  ⟨C20_fanout_once, C20_exactly_once_in_order, C20_handover, C20_add_preserves_existing, C20_duplicate_noop,
    C20_unknown_ignored, C20_unsupported_ignored, C20_value_extraction⟩

/-! ## 7. Message content is unconstrained: no data-dependent skip (appended; nothing above is changed)

Every statement above quantifies over arbitrary `Msg` values — no hypothesis mentions a timestamp or a value — so
they already cover repeated, decreasing, far-apart and cross-component-equal timestamps and repeated values.  The
corollaries below say so explicitly; `C20_message_path_unconditional` ties the `take` event, which fans out whatever
message is at the head of the queue, to the current source: the body of the streaming task's `async for` loop and the
fan-out function contain no branch that reads message content (of this or an earlier message) or that can skip. -/

/-- Read off the source on every run (`Extracted.DataSourcing.messagePath`, `fanoutBody`; taint analysis of the loop
body of `_handle_data_stream` and of `process_msg`): the raw API stream is iterated; each received message object is
handed to the fan-out exactly once, at the top level of the loop body, followed by an unconditional `await`; no `if`,
`match`, loop, handler, conditional expression, `continue`, `break`, `return` or `raise` on that path reads message
content — including content kept from earlier messages — or can skip; the fan-out sends, once per sender of the
snapshot, `Sample(msg.timestamp, Quantity(extractor(msg)))`. -/
def C20_message_path_statement : Prop :=
  messagePath.streamUnfiltered = true ∧ messagePath.schedulesOnce = true ∧
  messagePath.passesReceivedMessage = true ∧ messagePath.awaitsAfterScheduling = true ∧
  (∀ g ∈ messagePath.guards, g.readsMessage = false ∧ g.canSkip = false) ∧
  fanoutBody.onePerSender = true ∧ fanoutBody.sampleTimestamp = .msgAttr "timestamp" ∧
  fanoutBody.sampleValue = .quantityOfExtractor ∧
  (∀ g ∈ fanoutBody.guards, g.readsMessage = false ∧ g.canSkip = false)

theorem C20_message_path_unconditional :
    takeFaithful messagePath fanoutBody = true ∧ C20_message_path_statement := by
  have h : takeFaithful messagePath fanoutBody = true := by decide
  refine ⟨h, ?_⟩
  simp only [takeFaithful, Bool.and_eq_true, List.all_eq_true, decide_eq_true_eq] at h
  obtain ⟨⟨⟨⟨⟨⟨⟨⟨h1, h2⟩, h3⟩, h4⟩, h5⟩, h6⟩, h7⟩, h8⟩, h9⟩ := h
  have benign : ∀ g : Guard, guardBenign g = true → g.readsMessage = false ∧ g.canSkip = false := by
    intro g hg
    cases hr : g.readsMessage <;> cases hk : g.canSkip <;> simp [guardBenign, hr, hk] at hg ⊢
  exact ⟨h1, h2, h3, h4, fun g hg => benign g (h5 g hg), h6, h7, h8, fun g hg => benign g (h9 g hg)⟩

/-- The timestamps delivered on a live channel are the timestamps of the messages, verbatim and in arrival order —
whether they increase, repeat or go backwards. -/
theorem C20_timestamps_verbatim (cfg : Config) (pre post : List Event) (ch : Chan)
    (hl : Live (final cfg State.init pre) ch)
    (hempty : ((final cfg State.init pre).comps ch.cid).queue = [])
    (hd : ((final cfg State.init (pre ++ post)).comps ch.cid).queue = []) :
    (delivered ch (trace cfg (final cfg State.init pre) post)).map (·.ts)
      = (msgsOf ch.cid post).map (·.ts) := by
  rw [C20_drained_complete cfg pre post ch hl hd]
  simp [owed, hempty, sampleOf, Function.comp_def]

/-- A message that the API produces `n` times in a row (same timestamp, same values — a replay, or a component
reporting twice within its clock resolution) yields `n` samples: nothing is deduplicated. -/
theorem C20_repeated_message_delivered_each_time (cfg : Config) (pre post : List Event) (ch : Chan) (m : Msg)
    (n : Nat) (hl : Live (final cfg State.init pre) ch)
    (hempty : ((final cfg State.init pre).comps ch.cid).queue = [])
    (hd : ((final cfg State.init (pre ++ post)).comps ch.cid).queue = [])
    (hm : msgsOf ch.cid post = List.replicate n m) :
    delivered ch (trace cfg (final cfg State.init pre) post) = List.replicate n (sampleOf cfg ch m) := by
  rw [C20_drained_complete cfg pre post ch hl hd, hm]
  simp [owed, hempty]

/-- Two consecutive messages with the same timestamp and different values: two samples, both with that timestamp,
in arrival order. -/
theorem C20_same_timestamp_both_delivered (cfg : Config) (pre post : List Event) (ch : Chan) (m₁ m₂ : Msg)
    (hl : Live (final cfg State.init pre) ch)
    (hempty : ((final cfg State.init pre).comps ch.cid).queue = [])
    (hd : ((final cfg State.init (pre ++ post)).comps ch.cid).queue = [])
    (hm : msgsOf ch.cid post = [m₁, m₂]) (_hts : m₂.ts ≤ m₁.ts) :
    delivered ch (trace cfg (final cfg State.init pre) post) = [sampleOf cfg ch m₁, sampleOf cfg ch m₂] := by
  rw [C20_drained_complete cfg pre post ch hl hd, hm]
  simp [owed, hempty]

/-! ## Non-vacuity: concrete schedules satisfying the hypotheses, with something delivered -/

namespace C20_examples

def cfg : Config := ⟨[(4, "METER"), (9, "BATTERY")]⟩
def a : Chan := ⟨"a", 4, "ACTIVE_POWER_PHASE_2", none⟩
def b : Chan := ⟨"b", 4, "FREQUENCY", none⟩
def m (k : Int) : Msg :=
  ⟨k, [("active_power_per_phase", [some 1, some (k + 1/2), none]), ("frequency", [some 50])]⟩

/-- `a` subscribes, the stream opens, two messages arrive, one is taken; then `b` subscribes between the two
messages (restart), a third message arrives, the new task starts and drains. -/
def pre : List Event := [.request a, .start 4, .message 4 (m 1), .message 4 (m 2), .take 4]
def post : List Event := [.request b, .message 4 (m 3), .start 4, .take 4, .take 4]

instance (s : State) (ch : Chan) : Decidable (Subscribed s ch) := by unfold Subscribed; exact inferInstance
instance (s : State) (ch : Chan) : Decidable (Live s ch) := by unfold Live; exact inferInstance

-- hypotheses of `C20_handover` / `C20_add_preserves_existing` (for `a`) hold, with one message waiting
example : Live (final cfg State.init pre) a := by decide +kernel
example : ((final cfg State.init pre).comps 4).queue.length = 1 := by decide +kernel
-- hypotheses of `C20_exactly_once_in_order` (for `b`) hold
example : cfg.category b.cid = some "METER" ∧ supported "METER" b.metric = true ∧
    ¬ Subscribed (final cfg State.init pre) b := by decide +kernel
-- what is delivered: `a` sees all three messages once, in order; `b` sees the one waiting at its request and the
-- later one; the duplicate / unknown / unsupported hypotheses are inhabited as well
example : delivered a (trace cfg State.init (pre ++ post))
    = [⟨1, some (3/2)⟩, ⟨2, some (5/2)⟩, ⟨3, some (7/2)⟩] := by decide +kernel
example : delivered b (trace cfg State.init (pre ++ post)) = [⟨2, some 50⟩, ⟨3, some 50⟩] := by decide +kernel
-- hypotheses of `C20_exactly_once_in_order_drained`: `b` subscribes with the stream open and nothing waiting
example : ((final cfg State.init (pre ++ [.take 4])).comps 4).hasRecv = true ∧
    ((final cfg State.init (pre ++ [.take 4])).comps 4).queue = [] ∧
    ((final cfg State.init ((pre ++ [.take 4]) ++ .request b :: [.message 4 (m 3), .start 4, .take 4])).comps 4).queue = [] ∧
    delivered b (trace cfg State.init ((pre ++ [.take 4]) ++ .request b :: [.message 4 (m 3), .start 4, .take 4]))
      = [⟨3, some 50⟩] := by decide +kernel
example : Event.request a ∈ pre := by simp [pre]
example : cfg.category 77 = none := by decide +kernel
example : cfg.category 9 = some "BATTERY" ∧ supported "BATTERY" "ACTIVE_POWER" = false := by decide +kernel
-- hypotheses of `C20_fanout_once`: a running task with a message to take
example : ((final cfg State.init pre).comps 4).active = some [("ACTIVE_POWER_PHASE_2", [a])] := by decide +kernel

-- hypotheses of `C20_timestamps_verbatim` / `C20_repeated_message_delivered_each_time` /
-- `C20_same_timestamp_both_delivered`: `a` live with nothing waiting; then the SAME message twice, an earlier
-- timestamp, and the first message again — four samples, nothing deduplicated or dropped
def pre0 : List Event := [.request a, .start 4]
def dup : List Event := [.message 4 (m 5), .message 4 (m 5), .take 4, .take 4]
def back : List Event := [.message 4 (m 5), .message 4 (m 5), .take 4, .message 4 (m 2), .take 4, .message 4 (m 5),
  .take 4, .take 4]
example : Live (final cfg State.init pre0) a ∧ ((final cfg State.init pre0).comps 4).queue = [] ∧
    ((final cfg State.init (pre0 ++ dup)).comps 4).queue = [] ∧ msgsOf a.cid dup = List.replicate 2 (m 5) ∧
    ((final cfg State.init (pre0 ++ back)).comps 4).queue = [] := by
  refine ⟨by decide +kernel, by decide +kernel, by decide +kernel, rfl, by decide +kernel⟩
example : delivered a (trace cfg (final cfg State.init pre0) dup) = [⟨5, some (11/2)⟩, ⟨5, some (11/2)⟩] := by
  decide +kernel
example : delivered a (trace cfg (final cfg State.init pre0) back)
    = [⟨5, some (11/2)⟩, ⟨5, some (11/2)⟩, ⟨2, some (5/2)⟩, ⟨5, some (11/2)⟩] := by decide +kernel

end C20_examples

/-! ## 8. The model is the source (appended)

`Frequenz.Extracted.DataSourcingLoops` is a machine translation — regenerated from the current text of
`microgrid_api_source.py` / `data_sourcing.py` on every run — of `add_metric` (with `_update_streams`), of the streaming
method up to its `async for` (`_check_requested_component_and_metrics` and its per-category helpers,
`_get_metric_senders`), of one iteration of that loop (the fan-out closure, the sending-task set) and of
`DataSourcingActor._run`, as functions over the object state `Src` (the three dictionaries of the source).
`DataSourcingTie.srcStep` only says WHICH of them an event runs (`request` → the entry point, `start` → the prologue of a
created task, `take` → one loop iteration on the oldest buffered message, `message` → the API appends to the receiver).
The hand-written `step` / `exec`, about which every theorem above is stated, equal that translation read through
`DataSourcingTie.abs`: for every schedule from the initial state, and event by event on every well-formed source state
(`WF`, an invariant proved from the translation itself: no task is replaced while alive, a task exists only for a
component with registrations and carries that component's id and category, every registered metric is provided by the
category, a running task's receiver exists). -/

section ModelIsSource
open Extracted.DataSourcingLoops DataSourcingTie

theorem C20_model_is_source :
    (∀ (cfg : Config) (isDone : Msg → Bool) (es : List Event),
      exec cfg State.init es
        = (abs (srcExec cfg isDone Src.init es).1, (srcExec cfg isDone Src.init es).2)) ∧
    (∀ (cfg : Config) (isDone : Msg → Bool) (σ : Src) (e : Event), WF cfg σ →
      step cfg (abs σ) e = (abs (srcStep cfg isDone σ e).1, (srcStep cfg isDone σ e).2) ∧
      WF cfg (srcStep cfg isDone σ e).1) ∧
    (∀ cfg : Config, WF cfg Src.init) ∧ abs Src.init = State.init ∧
    (∀ (cfg : Config) (σ : Src) (r : Chan), ∃ σ', addMetric cfg.category σ r = .ok (σ', [], ())) ∧
    (∀ (cfg : Config) (σ : Src) (cid : Nat) (cat : Category), WF cfg σ →
      Dict.contains σ.reqs cid = true → cfg.category cid = some cat →
      handlePrologue σ cid cat
        = .ok (⟨σ.reqs, openedReceivers σ cid, σ.tasks, σ.leaked⟩, [],
            ((Dict.getD σ.reqs cid []).map (fun x => ((cat, x.1), x.2)), []))) ∧
    (∀ (cfg : Config) (isDone : Msg → Bool) (σ : Src) (rs : List Chan),
      actorRun cfg.category σ rs = .ok (srcExec cfg isDone σ (rs.map Event.request)).1) := by
  refine ⟨fun cfg isDone es => ?_, fun cfg isDone σ e h => ⟨step_eq cfg isDone σ e h, wf_step cfg isDone σ e h⟩,
    WF.init, abs_init, addMetric_ok, handlePrologue_spec, actorRun_eq⟩
  have h := (exec_eq cfg isDone Src.init es (WF.init cfg)).1
  rwa [abs_init] at h

-- non-vacuity: the translation, run on the example schedule above, registers, restarts, buffers and delivers
example : delivered C20_examples.a
      (srcExec C20_examples.cfg (fun _ => false) Src.init (C20_examples.pre ++ C20_examples.post)).2
    = [⟨1, some (3/2)⟩, ⟨2, some (5/2)⟩, ⟨3, some (7/2)⟩] := by decide +kernel
example : (srcExec C20_examples.cfg (fun _ => false) Src.init C20_examples.pre).1.reqs
      = [(4, [("ACTIVE_POWER_PHASE_2", [C20_examples.a])])] ∧
    ((srcExec C20_examples.cfg (fun _ => false) Src.init C20_examples.pre).1.receivers.map (·.2.length)) = [1] := by
  decide +kernel

end ModelIsSource

/-! ## 9. A request is its channel (appended)

The model identifies a `ComponentMetricRequest` with its registry channel (`Chan`).  Read off the current source of
`_component_metric_request.py` on every run: `get_channel_name()` formats exactly namespace, component id, metric name
and start time, and recomputes the name from the current field values on every call — no `cached_property` /
`lru_cache` / memo attribute, so a request object that was copied or mutated after its name was read and is submitted
again names the channel of its NEW field values. -/

theorem C20_channel_name_is_fields :
    chanIsChannelName channelName = true ∧ channelName.pure = true ∧
    channelName.fields = ["namespace", "component_id", "metric_id.name", "start_time"] := by
  have h : chanIsChannelName channelName = true := by decide
  refine ⟨h, ?_, ?_⟩ <;> simp [chanIsChannelName] at h
  · exact h.1
  · exact h.2
