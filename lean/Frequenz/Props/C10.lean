/-
C10 — actors restart after failures, only after failures, never run twice concurrently, and stop cleanly; background
services cancel and await all their tasks and surface non-cancellation errors; `run(*actors)` returns exactly when
all have finished.

Every theorem quantifies over EVERY event list of the machine in `Frequenz/Model/Actor.lean`: every outcome of every
`_run()` invocation at every await point (`taskStep i r` with `r` free), every restart limit, every instant of
`start/cancel/stop/wait/addTask`, every interleaving of task steps, wake-ups and clock advances.  No bounds.

The stop/wait/run theorems are about `fixedMode` — the shape of `wait()`/`stop()` after fixes/C10-wait-all-rounds.patch —
and `C10_extracted_mode_fixed` says that this IS the shape extracted from the source being checked (it fails to build
on a tree whose `wait()` raises per batch; `C10_pinned_stop_not_quiescent` shows why that shape is wrong).
-/
import Frequenz.Lemmas.ActorRun
import Frequenz.Lemmas.ActorCancelAwait
import Frequenz.Lemmas.ActorTie

open Actor
open Extracted.Actor (restartAllowed restartDelayUs delayApplies)

/-! ## ties to the source -/

/-- The extracted restart guard reads "no limit, or fewer restarts than the limit". -/
theorem C10_restart_guard_meaning (lim : Option Nat) (n : Nat) :
    restartAllowed lim n = true ↔ (lim = none ∨ ∃ l, lim = some l ∧ n < l) :=
  restartAllowed_iff lim n

/-- A *failure* of the run logic, in the sense of the property, is an `Exception`: a plain one or an `ExceptionGroup`
(which is an `Exception`).  Not a return, not a `CancelledError` (delivered or raised by the code itself), not any
other `BaseException` (SystemExit-, KeyboardInterrupt-like, user classes) and not a `BaseExceptionGroup` that has a
non-`Exception` member (it is not an `ExceptionGroup`, hence no `Exception`). -/
theorem C10_failure_meaning (o : Outcome) :
    (o.isFailure = true ↔ (o = .exc ∨ o = .excGroup)) ∧
    (o.isFailure = false ↔ (o = .ret ∨ o = .cancelled ∨ o = .baseExc ∨ o = .baseGroup)) := by
  cases o <;> decide

/-- The `except` clauses extracted from the source — the kinds each one catches by Python's class hierarchy, in source
order, first match — send exactly the failures to the restarting clause: the extracted "restarts on" predicate IS the
property's "is a failure".  (Does not build on a tree where e.g. `except Exception:` is widened to
`except (Exception, BaseExceptionGroup):`, narrowed, moved before `except CancelledError:`, or where another clause
restarts.) -/
theorem C10_restart_clause_catches_failures_only (o : Outcome) : restartsOn o = o.isFailure :=
  restartsOn_eq_isFailure o

/-- What `_run_loop` does with the outcome of invocation `n`: restart iff it was a failure (an `Exception`) and the
guard holds; otherwise the task ends with that very outcome (return, BaseException, BaseExceptionGroup, CancelledError,
or the Exception itself). -/
theorem C10_run_loop_dispatch (lim : Option Nat) (n : Nat) (o : Outcome) :
    (afterRun lim n o = .restart ↔ (o.isFailure = true ∧ restartAllowed lim n = true)) ∧
    (afterRun lim n o ≠ .restart → afterRun lim n o = .finish o) := by
  rcases afterRun_cases lim n o with ⟨h1, h2, h3⟩ | ⟨h1, h2⟩
  · exact ⟨⟨fun _ => ⟨h2, h3⟩, fun _ => h1⟩, fun h => absurd h1 h⟩
  · refine ⟨⟨fun h => ?_, fun h => ?_⟩, fun _ => h1⟩
    · rw [h1] at h; cases h
    · rcases h2 with h2 | h2
      · rw [h.1] at h2; cases h2
      · rw [h.2] at h2; cases h2

/-- The source being checked has the all-rounds `wait()` loop and a `stop()` that cancels in every round. -/
theorem C10_extracted_mode_fixed : extractedMode = fixedMode := by decide

/-- The restart delay is positive and the first invocation is not delayed, every later one is. -/
theorem C10_delay_shape : 0 < restartDelayUs ∧ delayApplies 0 = false ∧ ∀ n, delayApplies (n + 1) = true :=
  ⟨by decide, delayApplies_zero, delayApplies_succ⟩

/-! ## restart policy -/

/-- Full statement of the restart clauses, on the `_run` entry/exit history of every task after every schedule. -/
def C10_restart_statement : Prop :=
  ∀ (m : Mode) (lim : Option Nat) (es : List Event), ∀ t ∈ (Svc.exec (Svc.init m lim) es).tasks,
    -- invocation k+1 happens only directly after invocation k raised an Exception (plain or ExceptionGroup) with
    -- k < limit, after the delay
    (∀ post pre k tm, t.hist = post ++ HEv.enter (k + 1) tm :: pre →
      ∃ o t0 pre', pre = HEv.exit k o t0 :: pre' ∧ o.isFailure = true ∧ restartAllowed lim k = true ∧
        t0 + restartDelayUs ≤ tm) ∧
    -- and whenever invocation k raised an Exception with k < limit, the loop is sleeping out the delay before
    -- invocation k+1 (or was cancelled while doing so) — or is already past it
    (∀ k o tm rest, t.hist = HEv.exit k o tm :: rest → o.isFailure = true → restartAllowed lim k = true →
      t.phase = .delay (k + 1) (tm + restartDelayUs) ∨ t.phase = .done .cancelled) ∧
    -- never re-invoked after a return, a BaseException (incl. a BaseExceptionGroup that is no ExceptionGroup), a
    -- cancellation, or beyond the limit: that exit is the last event for ever and the task has ended with exactly
    -- that outcome
    (∀ post pre k o tm, t.hist = post ++ HEv.exit k o tm :: pre →
      (o.isFailure = false ∨ restartAllowed lim k = false) → post = [] ∧ t.phase = .done o)

theorem C10_restart_iff : C10_restart_statement := by
  intro m lim es t ht
  have hinv := Inv_exec (Svc.init m lim) es (Inv_init m lim)
  have hl : (Svc.exec (Svc.init m lim) es).limit = lim := exec_limit _ _
  have hti := hinv.t.taskInv t ht
  rw [hl] at hti
  obtain ⟨hc, hp⟩ := hti
  refine ⟨?_, ?_, ?_⟩
  · intro post pre k tm hh
    rw [hh] at hc
    exact ChainOk_enter_succ hc
  · intro k o tm rest hh hof hal
    unfold PhaseOk at hp
    cases hph : t.phase with
    | fresh => rw [hph] at hp; simp only at hp; rw [hp] at hh; cases hh
    | extra => rw [hph] at hp; simp only at hp; rw [hp] at hh; cases hh
    | running n => rw [hph] at hp; obtain ⟨tm', rest', h'⟩ := hp; rw [h'] at hh; cases hh
    | delay n u =>
      rw [hph] at hp
      obtain ⟨k', o', tm', rest', hn, _, h', _, hu⟩ := hp
      rw [h'] at hh; cases hh
      left; rw [hn, hu]
    | done od =>
      rw [hph] at hp
      rcases hp with h' | ⟨k', o', tm', rest', h', hfin⟩
      · rw [h'] at hh; cases hh
      · rw [h'] at hh; cases hh
        rw [afterRun_failure lim k o hof, hal] at hfin
        rcases hfin with hfin | ⟨_, ho⟩
        · cases hfin
        · right; rw [ho]
  · intro post pre k o tm hh hno
    rw [hh] at hc
    have hpost : post = [] := by
      rcases ChainOk_after_exit hc with h | ⟨ho, hal, _⟩
      · exact h
      · rcases hno with hno | hno
        · rw [ho] at hno; cases hno
        · rw [hal] at hno; cases hno
    refine ⟨hpost, ?_⟩
    subst hpost
    simp only [List.nil_append] at hh
    have hfin : afterRun lim k o = .finish o := by
      rcases afterRun_cases lim k o with ⟨_, ho, hal⟩ | ⟨h1, _⟩
      · rcases hno with hno | hno
        · rw [ho] at hno; cases hno
        · rw [hal] at hno; cases hno
      · exact h1
    unfold PhaseOk at hp
    cases hph : t.phase with
    | fresh => rw [hph] at hp; simp only at hp; rw [hp] at hh; cases hh
    | extra => rw [hph] at hp; simp only at hp; rw [hp] at hh; cases hh
    | running n => rw [hph] at hp; obtain ⟨tm', rest', h'⟩ := hp; rw [h'] at hh; cases hh
    | delay n u =>
      rw [hph] at hp
      obtain ⟨k', o', tm', rest', _, hof', h', hal, _⟩ := hp
      rw [h'] at hh; cases hh
      rcases hno with hno | hno
      · rw [hof'] at hno; cases hno
      · rw [hal] at hno; cases hno
    | done o2 =>
      rw [hph] at hp
      rcases hp with h' | ⟨k', o', tm', rest', h', hf⟩
      · rw [h'] at hh; cases hh
      · rw [h'] at hh; cases hh
        rw [hfin] at hf
        rcases hf with hf | ⟨hf, _⟩
        · cases hf; rfl
        · cases hf

/-- The run loop, one scheduler step at a time: an Exception (plain or ExceptionGroup) within the limit starts the
restart delay… -/
theorem C10_restart_after_failure (lim : Option Nat) (now : Int) (t : Tsk) (n : Nat) (o : Outcome)
    (hph : t.phase = .running n) (hof : o.isFailure = true) (hal : restartAllowed lim n = true) :
    (t.step lim now (.fin o)).phase = .delay (n + 1) (now + restartDelayUs) := by
  obtain ⟨id, lp, phase, cr, owned, dropped, hist⟩ := t
  simp only at hph; subst hph
  simp [Tsk.step, afterRun_failure lim n o hof, hal, beginIteration, delayApplies_succ]

/-- …when the delay has elapsed (and no cancellation is pending) `_run()` is entered again, and not earlier;
a cancellation during the delay ends the task without another invocation. -/
theorem C10_restart_after_delay (lim : Option Nat) (now : Int) (r : StepRes) (t : Tsk) (n : Nat) (u : Int)
    (hph : t.phase = .delay n u) :
    (t.cancelReq = false → u ≤ now →
        (t.step lim now r).phase = .running n ∧ (t.step lim now r).hist = HEv.enter n now :: t.hist) ∧
    (t.cancelReq = false → now < u → t.step lim now r = t) ∧
    (t.cancelReq = true → (t.step lim now r).phase = .done .cancelled ∧ (t.step lim now r).hist = t.hist) := by
  obtain ⟨id, lp, phase, cr, owned, dropped, hist⟩ := t
  simp only at hph; subst hph
  refine ⟨?_, ?_, ?_⟩
  · intro hc hu; simp only at hc; subst hc; simp [Tsk.step, hu]
  · intro hc hu; simp only at hc; subst hc
    have : ¬ u ≤ now := by omega
    simp [Tsk.step, this]
  · intro hc; simp only at hc; subst hc; simp [Tsk.step]

/-- A return, a BaseException (SystemExit-like, KeyboardInterrupt-like, or a BaseExceptionGroup that is no ExceptionGroup),
a CancelledError, or an Exception beyond the limit end the task with that outcome; a finished task never moves again. -/
theorem C10_no_restart_after_return_or_cancel (lim : Option Nat) (now : Int) (t : Tsk) (n : Nat) (o : Outcome)
    (hph : t.phase = .running n) (ho : o.isFailure = false ∨ restartAllowed lim n = false) :
    (t.step lim now (.fin o)).phase = .done o ∧
    ∀ now' r', (t.step lim now (.fin o)).step lim now' r' = t.step lim now (.fin o) := by
  have hfin : afterRun lim n o = .finish o := by
    rcases afterRun_cases lim n o with ⟨_, h2, h3⟩ | ⟨h1, _⟩
    · rcases ho with ho | ho
      · rw [h2] at ho; cases ho
      · rw [h3] at ho; cases ho
    · exact h1
  obtain ⟨id, lp, phase, cr, owned, dropped, hist⟩ := t
  simp only at hph; subst hph
  have h1 : (Tsk.step lim now (.fin o) ⟨id, lp, .running n, cr, owned, dropped, hist⟩).phase = .done o := by
    simp [Tsk.step, hfin]
  exact ⟨h1, fun now' r' => step_done _ _ _ _ (by simp [Tsk.isDone, h1])⟩

/-- Non-vacuity: limit 1; invocation 0 raises at its second await point, is restarted after 2 s, invocation 1 raises
again and the task ends with the Exception. -/
example :
    let s := Svc.exec (Svc.init fixedMode (some 1))
      [.start, .taskStep 0 .cont, .taskStep 0 .cont, .taskStep 0 (.fin .exc), .advance restartDelayUs.toNat,
       .taskStep 0 .cont, .taskStep 0 (.fin .exc)]
    s.tasks.map (fun t => (t.phase, t.hist)) =
      [(.done .exc, [.exit 1 .exc restartDelayUs, .enter 1 restartDelayUs, .exit 0 .exc 0, .enter 0 0])] := by
  decide

/-- Non-vacuity for the group outcomes (the `asyncio.TaskGroup` scenario): unlimited restarts; invocation 0 ends with an
`ExceptionGroup` and is restarted after the delay; invocation 1 ends with a `BaseExceptionGroup` that carries a
non-`Exception` error: the task ends with it for good (further steps change nothing) and `stop()` surfaces it. -/
example :
    let s := Svc.exec (Svc.init fixedMode none)
      [.start, .taskStep 0 .cont, .taskStep 0 (.fin .excGroup), .advance restartDelayUs.toNat,
       .taskStep 0 .cont, .taskStep 0 (.fin .baseGroup), .advance (5 * restartDelayUs.toNat), .taskStep 0 .cont,
       .call .stop, .wake 0]
    s.tasks.map (fun t => (t.phase, t.hist)) =
      [(.done .baseGroup, [.exit 1 .baseGroup restartDelayUs, .enter 1 restartDelayUs, .exit 0 .excGroup 0,
                           .enter 0 0])] ∧
    s.callers.map (fun c => c.st) = [.finished [(0, .baseGroup)] (6 * restartDelayUs) 1] := by
  decide

/-! ## never two runs at once -/

def runningNow (t : Tsk) : Bool := match t.phase with | .running _ => true | _ => false

def C10_single_run_statement : Prop :=
  ∀ (m : Mode) (lim : Option Nat) (es : List Event),
    let s := Svc.exec (Svc.init m lim) es
    -- at most one run-loop task is alive (not started yet / in `_run` / in the restart delay) …
    (s.tasks.filter (fun t => t.loop && !t.isDone)).length ≤ 1 ∧
    -- … so at most one task is inside `_run()`, and only a run-loop task ever is
    (s.tasks.filter runningNow).length ≤ 1 ∧
    -- a task that left `_tasks` has finished, so `is_running` sees every live task
    (∀ t ∈ s.tasks, t.owned = false → t.isDone = true) ∧
    -- start() is a no-op while running
    (s.isRunning = true → s.step .start = s)

theorem C10_single_run : C10_single_run_statement := by
  intro m lim es
  have hinv := Inv_exec (Svc.init m lim) es (Inv_init m lim)
  refine ⟨hinv.t.live, ?_, hinv.t.unownedDone, ?_⟩
  · refine Nat.le_trans ?_ hinv.t.live
    apply filter_length_le_of_imp
    intro t ht hr
    have hlp := hinv.t.loopPhase t ht
    cases hl : t.loop with
    | true =>
      show (t.loop && !t.isDone) = true
      rw [hl]
      cases hph : t.phase <;> simp [runningNow, hph] at hr
      simp [Tsk.isDone, hph]
    | false =>
      rcases hlp hl with h | h
      · simp [runningNow, h] at hr
      · cases hph : t.phase <;> simp [runningNow, hph] at hr
        simp [Tsk.isDone, hph] at h
  · intro hr
    simp [Svc.step, Svc.start, hr, startGuarded_true]

/-- Non-vacuity: a running actor is not started twice; after it has finished, `start()` creates the second task. -/
example :
    let s1 := Svc.exec (Svc.init fixedMode none) [.start, .taskStep 0 .cont, .start, .start]
    let s2 := Svc.exec s1 [.taskStep 0 (.fin .ret), .start]
    (s1.tasks.length, s1.isRunning, s2.tasks.length, (s2.tasks.filter (fun t => t.loop && !t.isDone)).length)
      = (1, true, 2, 1) := by
  decide

/-! ## stop() / wait() -/

/-- Full statement of the stop clauses (for every call that has returned, after every schedule). -/
def C10_stop_statement : Prop :=
  ∀ (lim : Option Nat) (es : List Event),
    let s := Svc.exec (Svc.init fixedMode lim) es
    (∀ cl ∈ s.callers, ∀ raised tm n, cl.st = .finished raised tm n →
      -- returns only after all of them have finished: `n` tasks had been registered when the call returned
      -- (those present at the call and those added while it waited) and every one of them is done
      (n ≤ s.tasks.length ∧ ∀ t ∈ s.tasks, t.id < n → t.isDone = true) ∧
      -- surfaces their errors: stop() raises exactly the non-cancellation errors of the tasks it reaped,
      -- wait() all their errors (its group also carries the CancelledErrors)
      (cl.kind = .stop → ∀ e, e ∈ raised ↔
        (e.2 ≠ .cancelled ∧ ∃ t ∈ s.tasks, t.id ∈ cl.reaped ∧ errOf t = some e)) ∧
      (cl.kind = .wait → ∀ e, e ∈ raised ↔ ∃ t ∈ s.tasks, t.id ∈ cl.reaped ∧ errOf t = some e)) ∧
    -- nothing is lost: a task leaves `_tasks` only when finished, and then it was reaped by some call (whose group
    -- carries its error, see above) — unless `Actor.start()` dropped the finished task to begin a new life
    (∀ t ∈ s.tasks, t.owned = false → t.isDone = true ∧ (t.dropped = true ∨ ∃ cl ∈ s.callers, t.id ∈ cl.reaped))

theorem C10_stop_quiescent_and_surfaces : C10_stop_statement := by
  intro lim es
  have hinv := Inv_exec (Svc.init fixedMode lim) es (Inv_init fixedMode lim)
  have hm : (Svc.exec (Svc.init fixedMode lim) es).mode = fixedMode := exec_mode _ _
  refine ⟨?_, fun t ht ho => ⟨hinv.t.unownedDone t ht ho, hinv.c.accounted t ht ho⟩⟩
  intro cl hcl raised tm n hst
  have hq := hinv.c.quiet (by rw [hm]; rfl) cl hcl raised tm n hst
  have hr := hinv.c.raisedEq cl hcl raised tm n hst
  have ha := hinv.c.accIff cl hcl
  refine ⟨hq, ?_, ?_⟩
  · intro hk e
    rw [hr, hk]
    simp only [raisedOf, List.mem_filter, decide_eq_true_eq]
    rw [ha e]
    exact ⟨fun h => ⟨h.2, h.1⟩, fun h => ⟨h.2, h.1⟩⟩
  · intro hk e
    rw [hr, hk]
    simp only [raisedOf]
    exact ha e

/-- `C10_stop_quiescent`: the quiescence clause on its own. -/
theorem C10_stop_quiescent (lim : Option Nat) (es : List Event) :
    let s := Svc.exec (Svc.init fixedMode lim) es
    ∀ cl ∈ s.callers, ∀ raised tm n, cl.st = .finished raised tm n →
      n ≤ s.tasks.length ∧ ∀ t ∈ s.tasks, t.id < n → t.isDone = true :=
  fun cl hcl raised tm n hst => ((C10_stop_quiescent_and_surfaces lim es).1 cl hcl raised tm n hst).1

/-- `C10_stop_surfaces`: the raised group = the (non-cancellation) errors of the reaped tasks. -/
theorem C10_stop_surfaces (lim : Option Nat) (es : List Event) :
    let s := Svc.exec (Svc.init fixedMode lim) es
    ∀ cl ∈ s.callers, ∀ raised tm n, cl.st = .finished raised tm n → cl.kind = .stop →
      ∀ e, e ∈ raised ↔ (e.2 ≠ .cancelled ∧ ∃ t ∈ s.tasks, t.id ∈ cl.reaped ∧ errOf t = some e) :=
  fun cl hcl raised tm n hst => ((C10_stop_quiescent_and_surfaces lim es).1 cl hcl raised tm n hst).2.1

/-- `stop()` cancels every task it finds: when it starts … -/
theorem C10_stop_cancels_at_call (s : Svc) (hm : s.mode = fixedMode) :
    ∀ t ∈ (s.call .stop).tasks, ownedLive t = true → t.cancelReq = true := by
  unfold Svc.call
  split
  · simp only [hm, fixedMode, Bool.and_true, decide_true, if_true]
    exact cancelAll_post _
  · rename_i hno
    intro t ht ho
    have := any_owned_false (by simpa using hno) t ht
    simp [ownedLive, this] at ho

/-- … and at the start of every later round (tasks registered while it was waiting). -/
theorem C10_stop_cancels_every_round (s : Svc) (hm : s.mode = fixedMode) (c : Nat) (cl : Caller) (batch : List Nat)
    (hc : s.callers[c]? = some cl) (hk : cl.kind = .stop) (hst : cl.st = .blocked batch)
    (hb : batchDone s.tasks batch = true) :
    ∀ t ∈ (s.wake c).tasks, ownedLive t = true → t.cancelReq = true := by
  unfold Svc.wake
  simp only [hc, hst, hb, if_true, hm, fixedMode, Bool.true_or, Bool.and_true, hk, decide_true]
  split
  · exact cancelAll_post _
  · rename_i hno
    intro t ht ho
    have := any_owned_false (by simpa using hno) t ht
    simp [ownedLive, this] at ho

/-- Non-vacuity (the DESIGN §5 #17 scenario on the repaired shape): the main task registers a clean-up task when it
is cancelled; stop() cancels it in its second round, returns when both are done and raises the clean-up's error. -/
example :
    let s := Svc.exec (Svc.init fixedMode (some 0))
      [.addTask, .call .stop, .addTask, .taskStep 0 (.fin .cancelled), .wake 0, .taskStep 1 (.fin .exc), .wake 0]
    s.callers.map (fun c => c.st) = [.finished [(1, .exc)] 0 2] ∧ s.tasks.map (fun t => (t.isDone, t.cancelReq)) =
      [(true, false), (true, false)] := by
  decide

/-- The per-batch `wait()` loop of the pinned tree does NOT have the property: same schedule, `stop()` returns while
the clean-up task (registered before the return) is still pending, and nobody has cancelled it. -/
theorem C10_pinned_stop_not_quiescent :
    ¬ (∀ (es : List Event),
        let s := Svc.exec (Svc.init pinnedMode none) es
        ∀ cl ∈ s.callers, ∀ raised tm n, cl.st = .finished raised tm n →
          ∀ t ∈ s.tasks, t.id < n → t.isDone = true) := by
  intro h
  have := h [.addTask, .call .stop, .addTask, .taskStep 0 (.fin .cancelled), .wake 0]
    { kind := .stop, st := .finished [] 0 2, acc := [(0, .cancelled)], reaped := [0] } (by decide) [] 0 2 rfl
    (newExtraTask 1) (by decide) (by decide)
  exact absurd this (by decide)

/-! ## run(*actors) -/

/-- Full statement of the `run` clause: a `run` that has returned had, for every actor it was given, a `wait()` that
returned, and each of those returned only when every task of its actor registered so far had finished. -/
def C10_run_statement : Prop :=
  ∀ (lims : List (Option Nat)) (es : List SysEvent),
    let y := Sys.exec (Sys.init fixedMode lims) es
    ∀ rc ∈ y.runs, rc.returned.isSome = true →
      ∀ a ∈ rc.actors, ∃ w ∈ rc.waiters, w.1 = a ∧
        ∃ (s : Svc) (cl : Caller) (raised : List (Nat × Outcome)) (tm : Int) (n : Nat),
          y.svcs[a]? = some s ∧ s.callers[w.2]? = some cl ∧ cl.kind = .wait ∧ cl.st = .finished raised tm n ∧
          n ≤ s.tasks.length ∧ ∀ t ∈ s.tasks, t.id < n → t.isDone = true

theorem C10_run_all : C10_run_statement := by
  intro lims es y rc hrc hret a ha
  have hinv : SysInv fixedMode y := SysInv_exec fixedMode _ es (SysInv_init fixedMode lims)
  have hdone := hinv.runOk rc hrc hret
  have hcov := hinv.cover rc hrc
  simp only [runDone, Bool.and_eq_true, List.isEmpty_iff, List.all_eq_true] at hdone
  rw [hdone.1, List.append_nil] at hcov
  rw [← hcov] at ha
  obtain ⟨w, hw, rfl⟩ := List.mem_map.mp ha
  refine ⟨w, hw, rfl, ?_⟩
  obtain ⟨s, cl, hs, hcl, hk⟩ := hinv.kind rc hrc w hw
  have hf := hdone.2 w hw
  simp only [waiterFinished, hs, callerFinished, hcl] at hf
  cases hst : cl.st with
  | blocked b => simp [hst] at hf
  | finished raised tm n =>
    have hsv := hinv.svc s (List.mem_of_getElem? hs)
    have hq := hsv.1.c.quiet (by rw [hsv.2]; rfl) cl (List.mem_of_getElem? hcl) raised tm n hst
    exact ⟨s, cl, raised, tm, n, hs, hcl, hk, hst, hq.1, hq.2⟩

/-- … and `run` returns exactly then: its return is enabled iff every `wait()` task has been created and has
finished; when enabled it happens at the current instant, otherwise the event changes nothing. -/
theorem C10_run_returns_iff_all_finished (y : Sys) (r : Nat) (rc : RunRec) (hr : y.runs[r]? = some rc)
    (hnot : rc.returned = none) :
    (runDone y.svcs rc = true → (y.step (.runReturn r)).runs[r]? = some { rc with returned := some y.now }) ∧
    (runDone y.svcs rc = false → y.step (.runReturn r) = y) := by
  have hlt : r < y.runs.length := by
    rcases Nat.lt_or_ge r y.runs.length with h | h
    · exact h
    · rw [List.getElem?_eq_none h] at hr; cases hr
  constructor
  · intro hd
    simp only [Sys.step, hr, hnot, hd, Option.isNone_none, Bool.and_self, if_true]
    simp [hlt]
  · intro hd
    simp only [Sys.step, hr, hnot, hd, Option.isNone_none, Bool.and_false, Bool.false_eq_true, if_false]

/-- Non-vacuity: two actors; `run` does not return while the second is still running, and returns once both
`wait()`s have. -/
example :
    let y1 := Sys.exec (Sys.init fixedMode [none, none])
      [.runCall [0, 1], .runWait 0, .runWait 0, .svc 0 (.taskStep 0 .cont), .svc 1 (.taskStep 0 .cont),
       .svc 0 (.taskStep 0 (.fin .ret)), .svc 0 (.wake 0), .runReturn 0]
    let y2 := Sys.exec y1 [.advance 5, .svc 1 (.taskStep 0 (.fin .baseExc)), .svc 1 (.wake 0), .runReturn 0]
    (y1.runs.map (·.returned), y2.runs.map (·.returned)) = ([none], [some 5]) := by
  decide

/-! ## `cancel_and_await(task)` -/

/-- The source being checked: early return exactly when `task.done()`, then `task.cancel()`, then `await task`
swallowing `CancelledError` only. -/
theorem C10_cancel_and_await_shape :
    (∀ d n, Extracted.Actor.caEarlyReturn d n = d) ∧ Extracted.Actor.caCancels = true ∧
    Extracted.Actor.caSwallowsCancelled = true :=
  ⟨fun d n => by simp [Extracted.Actor.caEarlyReturn], by decide, by decide⟩

/-- Full statement: after every schedule — task not started / running / cleaning up after one or several delivered
cancellations / already done with any outcome, bare `task.cancel()` calls at any time, any number of concurrent
`cancel_and_await` calls — a call that has returned left the task DONE; it raised nothing if it left through the
guard or the task ended by returning or with `CancelledError`, and the task's own Exception / BaseException / group
otherwise (the helper propagates those, see its docstring). -/
def C10_cancel_and_await_statement : Prop :=
  ∀ (es : List CA.Ev),
    let s := CA.exec CA.init es
    ∀ c ∈ s.callers, ∀ early raised tm, c = CA.CallSt.returned early raised tm →
      ∃ o, s.task.phase = .done o ∧
        (early = true → raised = none) ∧
        (early = false → raised = match o with | .ret => none | .cancelled => none | e => some e)

theorem C10_cancel_and_await_quiescent : C10_cancel_and_await_statement := by
  intro es s c hc early raised tm hr
  obtain ⟨o, ho, h1, h2⟩ := CA.Inv_exec CA.init es CA.Inv_init c hc early raised tm hr
  refine ⟨o, ho, h1, fun he => ?_⟩
  rw [h2 he]
  cases o <;> simp [CA.propagated, CA.caSwallows_true]

/-- A call that does not return at once has requested the cancellation (whatever was requested before). -/
theorem C10_cancel_and_await_requests_cancel (s : CA.St) (h : s.task.isDone = false) :
    (CA.step s .call).task.cancelReq = true ∧ (CA.step s .call).callers = s.callers ++ [.awaiting] := by
  have hg : Extracted.Actor.caEarlyReturn false s.task.cancelling = false := C10_cancel_and_await_shape.1 _ _
  simp [CA.step, hg, CA.caCancels_true, CA.Task.cancel, h]

/-- Non-vacuity: `task.cancel()` was already called twice and the first cancellation is being cleaned up when two
callers arrive; neither returns before the task is done; the task's Exception is propagated to both. -/
example :
    let s1 := CA.exec CA.init [.taskStep .cont, .cancel, .cancel, .taskStep .cont, .call, .call, .taskStep .cont,
      .wake 0, .wake 1]
    let s2 := CA.exec s1 [.taskStep .cont, .advance 7, .taskStep (.fin .exc), .wake 1, .wake 0]
    (s1.task.phase, s1.task.cancelling, s1.callers) = (.cleaning, 4, [.awaiting, .awaiting]) ∧
    (s2.task.phase, s2.callers) = (.done .exc, [.returned false (some .exc) 7, .returned false (some .exc) 7]) := by
  decide

/-! ## the whole property -/

def C10_statement : Prop :=
  C10_restart_statement ∧ C10_single_run_statement ∧ C10_stop_statement ∧ C10_run_statement ∧
  C10_cancel_and_await_statement

theorem C10_full : C10_statement :=
  ⟨C10_restart_iff, C10_single_run, C10_stop_quiescent_and_surfaces, C10_run_all, C10_cancel_and_await_quiescent⟩

/-! ## model is source -/

section ModelIsSource
open Extracted.ActorLoops Actor.Tie

/-- **Tie by proof.**  Every atomic step of the hand-written event machine the theorems above are about IS the
corresponding segment of the coroutine as machine-translated from the current source (`Extracted/ActorLoops.lean`,
regenerated by `tools/extractors/actor_loops.py` on every run), for all states and arguments:

* `Actor._run_loop` (with `_delay_if_restart`): the first step of a run-loop task is the translated code up to the first
  await; a step in `.delay n u` is the code resumed from `asyncio.sleep(RESTART_DELAY)` (sleep over at/after `u`, or
  cancelled meanwhile: the `except` clauses decide); a step `.fin o` in `.running n` is the code resumed from
  `await self._run()` with outcome `o` — `try/except` dispatch by exception kind, restart counting, limit test,
  `continue` into the next iteration with its delay, or the end of the task; and over a whole script of invocations
  (any length, outcomes, cancellations during delays, an invocation that never ends) the machine produces exactly the
  phase and entry/exit history the translated source produces (`run_is_source`);
* `Actor.start` (guard `is_running`, `clear`, register the run-loop task), the per-actor body of `run(*actors)` and
  the fact that each of its `wait()` tasks waits for its own actor;
* `BackgroundService.wait / stop / _wait_all / cancel`: `Svc.call` is the translated code up to the first
  `asyncio.wait`, `Svc.wake` the code resumed from it — removal of the finished tasks, collection of their
  `task.result()` errors, loop test, cancel-every-round (stop), the raised group, `CancelledError` filtering (stop);
* `cancel_and_await`: `CA.step .call` and `.wake`.

Not from the source (assumptions of the machine, sampled by the differential check): delivery of cancellations and
timers, `asyncio.wait` returning its snapshot, set iteration order, and `run()`'s own wait loop (`Sys.runWait`,
`Sys.runReturn`).  A semantic edit of the Python changes the translation and breaks this theorem (or the translator
raises); a behaviour-preserving rewrite does not. -/
theorem C10_model_is_source :
    (∀ (lim : Option Nat) (now : Int) (r : StepRes) (t : Tsk), t.phase = .fresh → t.cancelReq = false →
      view (t.step lim now r) = run_loop_entry lim now t.hist) ∧
    (∀ (lim : Option Nat) (now : Int) (r : StepRes) (t : Tsk) (n : Nat) (u : Int), t.phase = .delay n u →
      (t.cancelReq = true → view (t.step lim now r) = run_loop_after_sleep lim n true now t.hist) ∧
      (t.cancelReq = false → u ≤ now → view (t.step lim now r) = run_loop_after_sleep lim n false now t.hist) ∧
      (t.cancelReq = false → now < u → t.step lim now r = t)) ∧
    (∀ (lim : Option Nat) (now : Int) (t : Tsk) (n : Nat) (o : Outcome), t.phase = .running n →
      view (t.step lim now (.fin o)) = run_loop_after_run lim n o now t.hist) ∧
    (∀ (lim : Option Nat) (script : List Iter) (t : Tsk) (now : Int),
      view (modelRun lim script t now) = srcRun lim script (view t) now) ∧
    (∀ s : Svc, s.start = { s with tasks := start_entry s.tasks }) ∧
    (∀ s : Svc, startIfIdle s = { s with tasks := run_start_one s.tasks }) ∧
    (∀ (y : Sys) (actors : List Nat),
      (y.runCall actors).runs = y.runs ++ [{ actors := actors.filter (fun a => a < y.svcs.length),
                                             pending := (actors.filter (fun a => a < y.svcs.length)).map run_waits_for,
                                             waiters := [], returned := none }]) ∧
    (∀ (s : Svc) (k : CallKind), s.mode = fixedMode →
      s.call k = { s with tasks := tasksOfRes (entryOf k s.tasks),
                          callers := s.callers ++ [{ kind := k, st := stOf s.now s.tasks.length (entryOf k s.tasks),
                                                     acc := [], reaped := [] }] }) ∧
    (∀ (s : Svc) (c : Nat) (cl : Caller) (batch : List Nat), s.mode = fixedMode → s.callers[c]? = some cl →
      cl.st = .blocked batch → batchDone s.tasks batch = true →
      s.wake c = { s with tasks := tasksOfRes (resumeOf cl.kind batch s.tasks cl.acc),
                          callers := s.callers.set c
                            { cl with st := stOf s.now s.tasks.length (resumeOf cl.kind batch s.tasks cl.acc),
                                      acc := cl.acc ++ errorsOf s.tasks batch, reaped := cl.reaped ++ batch } }) ∧
    (∀ s : CA.St, CA.step s .call = { s with task := (caa_entry s.task).1,
                                             callers := s.callers ++ [caCallSt s.now (caa_entry s.task).2] }) ∧
    (∀ (s : CA.St) (c : Nat) (o : Outcome), s.callers[c]? = some .awaiting → s.task.phase = .done o →
      (caa_after_task s.task o).1 = s.task ∧
      CA.step s (.wake c) = { s with callers := s.callers.set c (caWakeSt s.now (caa_after_task s.task o).2) }) :=
  ⟨fresh_is_source, delay_is_source, running_is_source, run_is_source, start_is_source, run_start_is_source,
   run_waiters_is_source, call_is_source, fun s c cl batch hm hc hst hb => wake_is_source s c cl batch hm hc hst hb, caa_call_is_source,
   caa_wake_is_source⟩

/-- Non-vacuity: the translated source run on a script — limit 1; invocation 0 raises an `ExceptionGroup` after 1 s and
is restarted after the 2 s delay, invocation 1 raises a `BaseExceptionGroup` that is no `ExceptionGroup`: the task ends
with it; and the translated `stop()` resumed on a table whose only task ended with an Exception raises exactly it. -/
example :
    srcRun (some 1) [⟨false, 1000000, some .excGroup⟩, ⟨false, 1000000, some .baseGroup⟩] (run_loop_entry (some 1) 0 []) 0
      = (.done .baseGroup, [.exit 1 .baseGroup 4000000, .enter 1 3000000, .exit 0 .excGroup 1000000, .enter 0 0]) ∧
    stOf 7 1 (stop_after_wait [0] [{ newExtraTask 0 with phase := .done .exc }] [(5, .cancelled)])
      = .finished [(0, .exc)] 7 1 := by
  decide

end ModelIsSource
