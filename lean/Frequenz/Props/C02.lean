/-
C02 — no inverter or battery group is commanded outside its power bounds; groups without SoC headroom get zero.

Same model and domain as C01 (requests admitted by the bounds the pool ADVERTISES).  The pinned code VIOLATES the
group and the no-headroom clause (known findings); each clause is stated in full and proved on the complement of
its regimes:
  inverter bounds : no regime; inclusion half unconditional, exclusion half exact up to the two tolerance corners
  group bounds    : regime `split_infeasible`                    (inclusion half: unconditional)
  no headroom     : regimes `exp0`, `zero_ratio_min`
The exclusion halves are proved under ¬`isclose_cover` ∧ ¬`overcommit`, the two TOLERANCE corners described in
C01 (≤ n·1e-9 relative; sampled only, no violation beyond 1e-6 relative observed).  The exact inverter statement is
therefore not provable and is refuted only at that tolerance level (`C02_inverter_refuted_at_tolerance`: a
set-point of −1.5e-8 W) — that is NOT a finding.
-/
import Frequenz.Lemmas.DistributionTop
import Frequenz.Lemmas.DistributionWitness
import Frequenz.Lemmas.DistributionTie8

open Dist Extracted.Dist DistWitness

/-- every set-point is zero or inside its inverter's inclusion bounds and outside its exclusion zone -/
def C02_inverter_statement : Prop :=
  ∀ inp out, Consistent inp → Admitted inp → distribute inp = some out →
    ∀ x ∈ out.setpoints, x.2 = 0 ∨ InvRange inp.power x.1 x.2

/-- the total of a group is zero or inside the aggregated battery inclusion bounds and outside the exclusion zone -/
def C02_group_statement : Prop :=
  ∀ inp out, Consistent inp → Admitted inp → distribute inp = some out →
    ∀ gr ∈ out.groups, gr.total = 0 ∨ GroupRange inp.power gr.raw gr.total

/-- a group at or beyond its SoC limit in the requested direction is assigned zero -/
def C02_headroom_statement : Prop :=
  ∀ inp out, Consistent inp → Admitted inp → distribute inp = some out →
    ∀ gr ∈ out.groups, AtLimit inp.power gr.raw → ∀ x ∈ gr.sps, x.2 = 0

def C02_statement : Prop := C02_inverter_statement ∧ C02_group_statement ∧ C02_headroom_statement

/-! ### what holds for every consistent input -/

/-- The result talks about every input group and every inverter exactly once (so the clauses below are not
vacuous): the result's groups are a permutation of the input's, each with its inverters in input order. -/
theorem C02_outputs_cover_inputs (inp : Input) (out : Out) (h : distribute inp = some out) :
    (out.groups.map (·.raw)).Perm inp.groups ∧ ∀ gr ∈ out.groups, gr.sps.map (·.1) = gr.raw.invs :=
  DistLemmas.coverage inp out h

/-- No set-point is beyond its inverter's inclusion bound — unconditionally. -/
theorem C02_inverter_inclusion (inp : Input) (out : Out) (hc : Consistent inp) (h : distribute inp = some out)
    (hz : ¬ zeroRequest inp.power) : ∀ x ∈ out.setpoints, InvIncl inp.power x.1 x.2 :=
  DistLemmas.inverter_upper inp out hc h hz

/-- No group total is beyond the aggregated battery inclusion bound — unconditionally. -/
theorem C02_group_inclusion (inp : Input) (out : Out) (hc : Consistent inp) (h : distribute inp = some out)
    (hz : ¬ zeroRequest inp.power) : ∀ gr ∈ out.groups, GroupIncl inp.power gr.raw gr.total :=
  DistLemmas.group_upper inp out hc h hz

/-- The greedy top-up never lifts a group above its inclusion bound `min(Σ inverter incl, battery incl)` —
unconditionally (also in every known-finding regime). -/
theorem C02_greedy_capped (inp : Input) (out : Out) (hc : Consistent inp) (h : distribute inp = some out)
    (hz : ¬ zeroRequest inp.power) :
    ∃ c, out.core = some c ∧
      ∀ g ∈ c.groups, g.slot.p ≤ g.slot.en.it.ub ∧ g.slot.en.it.ub ≤ g.slot.en.it.ng.batIncl :=
  DistLemmas.greedy_capped inp out hc h hz

/-! ### the regimes where the clauses hold -/

theorem C02_inverter_partial (inp : Input) (out : Out) (hc : Consistent inp) (h : distribute inp = some out)
    (hz : ¬ zeroRequest inp.power) (ho : out.flags.overcommit = false) (hi : out.flags.iscloseCover = false) :
    ∀ x ∈ out.setpoints, x.2 = 0 ∨ InvRange inp.power x.1 x.2 :=
  DistLemmas.inverter_partial inp out hc h hz ho hi

theorem C02_group_partial (inp : Input) (out : Out) (hc : Consistent inp) (h : distribute inp = some out)
    (hz : ¬ zeroRequest inp.power) (hs : out.flags.splitInfeasible = false) (ho : out.flags.overcommit = false)
    (hi : out.flags.iscloseCover = false) :
    ∀ gr ∈ out.groups, gr.total = 0 ∨ GroupRange inp.power gr.raw gr.total :=
  DistLemmas.group_partial inp out hc h hz hs ho hi

theorem C02_headroom_partial (inp : Input) (out : Out) (hc : Consistent inp) (h : distribute inp = some out)
    (hz : ¬ zeroRequest inp.power) (he : out.flags.exp0 = false) (hm : out.flags.zeroRatioMin = false) :
    ∀ gr ∈ out.groups, AtLimit inp.power gr.raw → ∀ x ∈ gr.sps, x.2 = 0 :=
  DistLemmas.headroom_partial inp out hc h hz he hm

/-- The whole property on the complement of the known-finding regimes. -/
theorem C02_partial (inp : Input) (out : Out) (hc : Consistent inp) (had : Admitted inp) (h : distribute inp = some out)
    (hs : out.flags.splitInfeasible = false) (ho : out.flags.overcommit = false)
    (hi : out.flags.iscloseCover = false) (he : out.flags.exp0 = false) (hm : out.flags.zeroRatioMin = false) :
    (∀ x ∈ out.setpoints, x.2 = 0 ∨ InvRange inp.power x.1 x.2) ∧
    (∀ gr ∈ out.groups, gr.total = 0 ∨ GroupRange inp.power gr.raw gr.total) ∧
    (∀ gr ∈ out.groups, AtLimit inp.power gr.raw → ∀ x ∈ gr.sps, x.2 = 0) :=
  ⟨C02_inverter_partial inp out hc h had.1 ho hi, C02_group_partial inp out hc h had.1 hs ho hi,
   C02_headroom_partial inp out hc h had.1 he hm⟩

/-- non-vacuity: the case satisfies every hypothesis of `C02_partial`, has a group at its SoC limit (which
gets zero), a two-inverter group and non-zero exclusion bounds; consume and supply side -/
example : Consistent regular ∧ Admitted regular ∧ (distribute regular).map (·.flags) = some noFlags ∧
    ((outOf regular).groups.map fun g => (decide (AtLimit regular.power g.raw), g.sps.map (·.2))) =
      [(false, [280]), (false, [300, 120]), (true, [0])] := by decide +kernel
example : Consistent regularSupply ∧ Admitted regularSupply ∧ (distribute regularSupply).map (·.flags) = some noFlags ∧
    (outOf regularSupply).setpoints.map (·.2) = [-1500/11, -700/11, 0, -500] := by decide +kernel

/-! ### refutation of the full statements on the pinned code -/

/-- tolerance corner `isclose_cover` (not a finding): inverter 12 is commanded −1.5e-8 W -/
theorem C02_isclose_corner : Consistent iscloseCorner ∧ Admitted iscloseCorner ∧
    distribute iscloseCorner = some (outOf iscloseCorner) ∧ (outOf iscloseCorner).flags.iscloseCover = true ∧
    (outOf iscloseCorner).setpoints.map (·.2) = [20000000003 / 200000000, -3 / 200000000] := by decide +kernel

/-- regime `split_infeasible`: battery exclusion bound 400 W, the group's inverters receive 300 W in total -/
theorem C02_split_below_exclusion : Consistent splitDrops ∧ Admitted splitDrops ∧
    distribute splitDrops = some (outOf splitDrops) ∧ (outOf splitDrops).flags.splitInfeasible = true ∧
    (outOf splitDrops).groups.map (·.total) = [300] := by decide +kernel

/-- regime `zero_ratio_min`: the full battery (SoC = upper limit) is charged with 300 W -/
theorem C02_full_battery_charged : Consistent fullBatteryCharged ∧ Admitted fullBatteryCharged ∧
    distribute fullBatteryCharged = some (outOf fullBatteryCharged) ∧
    (outOf fullBatteryCharged).flags.zeroRatioMin = true ∧ (outOf fullBatteryCharged).flags.exp0 = false ∧
    ((outOf fullBatteryCharged).groups.map fun g => (decide (AtLimit 301 g.raw), g.sps.map (·.2))) =
      [(true, [300]), (false, [0])] := by decide +kernel

/-- regime `exp0`: with exponent 0 the full battery gets half of the request -/
theorem C02_exponent_zero : Consistent exponentZero ∧ Admitted exponentZero ∧
    distribute exponentZero = some (outOf exponentZero) ∧
    (outOf exponentZero).flags.exp0 = true ∧ (outOf exponentZero).flags.zeroRatioMin = false ∧
    ((outOf exponentZero).groups.map fun g => (decide (AtLimit 100 g.raw), g.sps.map (·.2))) =
      [(true, [50]), (false, [50])] := by decide +kernel

/-- The EXACT inverter clause fails by 1.5e-8 W in the tolerance corner; no violation beyond float tolerance is
known (and none exists outside the two corners, `C02_inverter_partial`). -/
theorem C02_inverter_refuted_at_tolerance : ¬ C02_inverter_statement := by
  intro h
  obtain ⟨hc, ha, hd, _, _⟩ := C02_isclose_corner
  have := h iscloseCorner _ hc ha hd
  revert this
  decide +kernel

theorem C02_group_refuted : ¬ C02_group_statement := by
  intro h
  obtain ⟨hc, ha, hd, _, _⟩ := C02_split_below_exclusion
  have := h splitDrops _ hc ha hd
  revert this
  decide +kernel

theorem C02_headroom_refuted : ¬ C02_headroom_statement := by
  intro h
  obtain ⟨hc, ha, hd, _, _⟩ := C02_full_battery_charged
  have := h fullBatteryCharged _ hc ha hd
  revert this
  decide +kernel

theorem C02_full_refuted : ¬ C02_statement := fun h => C02_group_refuted h.2.1

/-! ### calls on a long-lived instance (the `BatteryManager` keeps ONE algorithm object) -/

/-- The class holds no per-call state (extracted from the source: `__init__` assigns only `_distributor_exponent`,
from its parameter; no method writes to `self`, to a global or to a cache), and therefore the k-th result of any
sequence of calls on one instance is the stateless `distribute` of the k-th arguments: every theorem above applies to
each call with the data given to THAT call, whatever was requested before. -/
theorem C02_history_free (a : Instance) (calls : List Call) (k : Nat) :
    Extracted.Dist.perCallState = [] ∧ Extracted.Dist.instanceAttrs = ["_distributor_exponent"] ∧
    (a.run calls)[k]? = calls[k]?.map (fun c => distribute (a.input c)) := by
  refine ⟨rfl, rfl, ?_⟩
  induction calls generalizing k with
  | nil => simp [Instance.run]
  | cons c cs ih =>
    cases k with
    | zero => simp [Instance.run, Instance.call]
    | succ k => simpa [Instance.run, Instance.call] using ih k

/-- non-vacuity: two calls on one instance (the regular case, then its supply-side twin) give the two stateless results. -/
example : (Instance.mk regular.exp).run [⟨regular.power, regular.groups⟩, ⟨regularSupply.power, regularSupply.groups⟩]
    = [distribute { regular with }, distribute { regularSupply with exp := regular.exp }] := by
  simp [Instance.run, Instance.call, Instance.input]


/-! ### Model is source -/

/-- The model `Dist.distribute` of the theorems above is the machine translation of the current source
(`Extracted/DistributionLoops.lean`): see `C01_model_is_source` (same model, same statement). -/
theorem C02_model_is_source (m : Nat) (fsOrder : List Int → List Int) (inp : Input)
    (hfs : DistTie.FsOrderOK fsOrder inp.groups) (hnd : (DistTie.keysL DistTie.batId inp.groups).Nodup)
    (hne : ∀ g ∈ inp.groups, g.invs ≠ []) :
    DistTie.SameDict
      (Extracted.DistLoops.distributePowerTop inp.exp fsOrder (inp.groups.length + 1 + m) inp.power
        (inp.groups.map DistTie.compOf))
      ((distribute inp).map DistTie.resultOf) :=
  DistTie.model_is_source m fsOrder inp hfs hnd hne

/-- non-vacuity: a request with a full battery set (no headroom) — source translation and model agree on it -/
example : Extracted.DistLoops.distributePowerTop fullBatteryCharged.exp id (fullBatteryCharged.groups.length + 1)
      fullBatteryCharged.power (fullBatteryCharged.groups.map DistTie.compOf) =
    (distribute fullBatteryCharged).map DistTie.resultOf := by decide +kernel

/-! ### The manager between two requests -/

/-- `BatteryManager` keeps no state of its own from one request to the next: no method reachable from
`BatteryManager.distribute_power` assigns to, stores into or calls a mutating container method on an attribute of `self`
(`Extracted.Dist.managerRequestWrites`, regenerated from `_battery_manager.py` on every run, is empty).  The component data
of a request comes from the latest-value caches (fed by the data streams, not by requests), the health from the status
tracker (C15/C16) and the algorithm object is history-free (`C02_history_free`) — so every request is distributed from the
LATEST component data.  A memo attribute written on the request path makes this false.  The harness drives sequences of
requests through one real manager with the component data changing in between (`mgrseq:*` tags). -/
theorem C02_manager_request_free : Extracted.Dist.managerRequestWrites = [] := by decide
