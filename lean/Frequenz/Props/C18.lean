/-
C18 — Pool SoC and capacity are the documented aggregates of working batteries.

`socOf bs` / `capOf bs` (in `Frequenz.Model.PoolSoc`) are the values of `SoCCalculator.calculate` /
`CapacityCalculator.calculate` for a pool `bs : List CBat`, computed THROUGH the modelled real path: every battery's
message goes through `LatestMetricsFetcher.fetch_next` (NaN metrics dropped; `none` = NaN), is cached or not
(`present`), is in the working set or not, and the loop bodies / final expressions are the machine-translated
`socStep`, `socFinal`, `capStep`, `capFinal` of `Frequenz.Extracted.Pool`.  A `CBat` carries `working`, `present`
and the four metrics as `Option Rat`, so `List CBat` covers every set of batteries, every working subset and every
missing / NaN pattern.

Qualifying batteries: `b.socArgs = some (capacity, upper, lower, soc)` iff working ∧ cached ∧ no metric missing
(`C18_qualifies_iff`).  `weight = capacity·(upper − lower)` (usable capacity ×100), `scaledSoc` = SoC rescaled to
the limits and clamped to 0–100, `snap` = "within 1e-9 (relative) of 100 is 100", `isCloseToZero` = |x| ≤ 1e-9
(extracted).

Result: formula, none-iff, range, monotonicity, exclusion hold in full.  Scale invariance holds exactly when the
usable total stays on one side of the 1e-9 tolerance (`C18_scale`) and is refuted across it (`C18_scale_full_refuted`;
known finding `NearZeroTotal`).
-/
import Frequenz.Lemmas.PoolSoc

open PoolSoc Extracted.Pool PoolArith

/-- capacity ≥ 0 and lower ≤ upper for every qualifying battery (the property's data domain). -/
def C18_Domain (bs : List CBat) : Prop := ArgsOk (bs.filterMap CBat.socArgs)

/-- A battery counts iff it is working, has a cached message and none of the required metrics is missing / NaN. -/
theorem C18_qualifies_iff (b : CBat) :
    (b.socArgs.isSome ↔ b.working ∧ b.present ∧ b.msg.capacity.isSome ∧ b.msg.soc_lower_bound.isSome ∧
      b.msg.soc_upper_bound.isSome ∧ b.msg.soc.isSome) ∧
    (b.capArgs.isSome ↔ b.working ∧ b.present ∧ b.msg.capacity.isSome ∧ b.msg.soc_lower_bound.isSome ∧
      b.msg.soc_upper_bound.isSome) :=
  ⟨socArgs_isSome_iff b, capArgs_isSome_iff b⟩

/-- Formula: the SoC is the usable-capacity-weighted mean of the rescaled, clamped SoCs of the qualifying batteries
(0 when the total usable capacity is within the zero tolerance, exactly 100 when within 1e-9 of it); the capacity
is the sum of the usable capacities. -/
def C18_formula_statement : Prop :=
  ∀ bs : List CBat,
    socOf bs = (if bs.filterMap CBat.socArgs = [] then none
                else some (if isCloseToZero (totalX100 bs) then 0 else snap (usedX100 bs / totalX100 bs))) ∧
    capOf bs = (if bs.filterMap CBat.capArgs = [] then none
                else some (pySum ((bs.filterMap CBat.capArgs).map fun a => a.1 * (a.2.1 - a.2.2) / 100)))

theorem C18_formula : C18_formula_statement := fun bs => ⟨socOf_eq bs, capOf_eq bs⟩

/-- The documented per-battery term: with distinct limits `scaledSoc = min(max((soc−lower)/(upper−lower)·100, 0), 100)`. -/
theorem C18_scaled_documented (c u l s : Rat) (h : ¬ pyIsclose u l) :
    scaledSoc (c, u, l, s) = pyMin (pyMax ((s - l) / (u - l) * 100) 0) 100 := by
  simp [scaledSoc, h]

/-- The result is `None` exactly when no battery qualifies. -/
def C18_none_iff_statement : Prop :=
  ∀ bs : List CBat,
    (socOf bs = none ↔ ∀ b ∈ bs, b.socArgs = none) ∧ (capOf bs = none ↔ ∀ b ∈ bs, b.capArgs = none)

theorem C18_none_iff : C18_none_iff_statement := by
  intro bs
  constructor
  · rw [socOf_eq]
    by_cases h : bs.filterMap CBat.socArgs = []
    · simp only [Qs, h, if_true, true_iff]; exact List.filterMap_eq_nil_iff.mp h
    · simp only [Qs, h, if_false]
      constructor
      · intro h'; cases h'
      · intro h'; exact absurd (List.filterMap_eq_nil_iff.mpr h') h
  · rw [capOf_eq]
    by_cases h : bs.filterMap CBat.capArgs = []
    · simp only [Qc, h, if_true, true_iff]; exact List.filterMap_eq_nil_iff.mp h
    · simp only [Qc, h, if_false]
      constructor
      · intro h'; cases h'
      · intro h'; exact absurd (List.filterMap_eq_nil_iff.mpr h') h

/-- The SoC is always within [0, 100]. -/
def C18_range_statement : Prop :=
  ∀ (bs : List CBat) (v : Rat), C18_Domain bs → socOf bs = some v → 0 ≤ v ∧ v ≤ 100

theorem C18_range : C18_range_statement := by
  intro bs v hd hv
  rw [socOf_final] at hv
  by_cases h : Qs bs = []
  · simp [h] at hv
  · simp only [h, if_false, Option.some.injEq] at hv
    obtain ⟨h0, h1, h2⟩ := sums_bounds (Qs bs) hd
    rw [← hv]
    exact final_range h0 h1 h2

/-- Non-decreasing in every battery's SoC: raise any number of SoCs (everything else equal), the pool SoC does not
decrease (and stays defined). -/
def C18_monotone_statement : Prop :=
  ∀ (bs bs' : List CBat) (v : Rat), C18_Domain bs → Pointwise SocRaised bs bs' → socOf bs = some v →
    ∃ v', socOf bs' = some v' ∧ v ≤ v'

theorem C18_monotone : C18_monotone_statement := by
  intro bs bs' v hd hp hv
  rw [socOf_final] at hv
  rw [socOf_final]
  by_cases h : Qs bs = []
  · simp [h] at hv
  · have h' : ¬ Qs bs' = [] := fun hq => h ((Qs_nil_of_raised bs bs' hp).mpr hq)
    simp only [h, if_false, Option.some.injEq] at hv
    simp only [h', if_false]
    refine ⟨_, rfl, ?_⟩
    rw [← hv]
    obtain ⟨hw, hu, hok'⟩ := sums_raised (Qs bs) (Qs bs') (Qs_raised bs bs' hp) hd
    obtain ⟨h0, _, h2⟩ := sums_bounds (Qs bs) hd
    obtain ⟨_, h1', _⟩ := sums_bounds (Qs bs') hok'
    unfold usedX100 totalX100
    show final _ (pySum ((Qs bs).map weight)) ≤ final _ (pySum ((Qs bs').map weight))
    rw [hw] at h1' ⊢
    exact final_mono h0 h1' h2 hu

/-- Scale invariance, literal: unchanged when all capacities are multiplied by a common factor `k > 0`. -/
def C18_scale_statement : Prop :=
  ∀ (bs : List CBat) (k : Rat), C18_Domain bs → 0 < k → socOf (bs.map (CBat.scale k)) = socOf bs

/-- … holds whenever the usable total stays on the same side of the `is_close_to_zero` tolerance (the hypothesis is
exactly the complement of the `NearZeroTotal` regime; the data domain is not even needed). -/
theorem C18_scale (bs : List CBat) (k : Rat) (hk : 0 < k)
    (hc : isCloseToZero (totalX100 bs) ↔ isCloseToZero (k * totalX100 bs)) :
    socOf (bs.map (CBat.scale k)) = socOf bs := by
  rw [socOf_final, socOf_final]
  have hq : Qs (bs.map (CBat.scale k)) = (Qs bs).map (scaleArgs k) := Qs_scale k bs
  obtain ⟨hw, hu⟩ := sums_scale k (Qs bs)
  have e1 : usedX100 (bs.map (CBat.scale k)) = k * usedX100 bs := by
    show pySum ((Qs (bs.map (CBat.scale k))).map _) = k * pySum ((Qs bs).map _)
    rw [hq]; exact hu
  have e2 : totalX100 (bs.map (CBat.scale k)) = k * totalX100 bs := by
    show pySum ((Qs (bs.map (CBat.scale k))).map _) = k * pySum ((Qs bs).map _)
    rw [hq]; exact hw
  by_cases h : Qs bs = []
  · simp [h, hq]
  · have h' : ¬ Qs (bs.map (CBat.scale k)) = [] := by rw [hq]; simpa using h
    simp only [h, h', if_false, e1, e2]
    exact congrArg some (final_scale hk hc)

/-- Non-vacuity of `C18_scale`: a 1 kWh battery at 50 % between limits 10 and 90, factor 1000; the pool SoC is 50. -/
example :
    let bs : List CBat := [⟨true, true, ⟨1, some 1000, some 10, some 90, some 50⟩⟩]
    (isCloseToZero (totalX100 bs) ↔ isCloseToZero (1000 * totalX100 bs)) ∧ socOf bs = some 50 := by
  decide +kernel

/-- The witness of the finding: capacity 2⁻⁴⁰ Wh, limits 0 and 100, SoC 50 → 0 %; scaled by 2²⁰ → 50 %. -/
def C18_near_zero_witness : List CBat := [⟨true, true, ⟨1, some (1 / 1099511627776), some 0, some 100, some 50⟩⟩]

theorem C18_near_zero_witness_ok :
    C18_Domain C18_near_zero_witness ∧ socOf C18_near_zero_witness = some 0 ∧
    socOf (C18_near_zero_witness.map (CBat.scale 1048576)) = some 50 ∧
    isCloseToZero (totalX100 C18_near_zero_witness) ∧ ¬ isCloseToZero (1048576 * totalX100 C18_near_zero_witness) := by
  refine ⟨?_, ?_, ?_, ?_, ?_⟩
  · intro a ha
    simp only [C18_near_zero_witness, List.filterMap_cons, CBat.socArgs, List.filterMap_nil] at ha
    simp at ha
    subst ha
    decide +kernel
  · decide +kernel
  · decide +kernel
  · decide +kernel
  · decide +kernel

theorem C18_scale_full_refuted : ¬ C18_scale_statement := by
  intro h
  obtain ⟨hd, h0, h1, _, _⟩ := C18_near_zero_witness_ok
  have := h C18_near_zero_witness 1048576 hd (by decide +kernel)
  rw [h0, h1] at this
  exact absurd this (by decide +kernel)

/-- Batteries that are not working, not cached or lack a required metric do not contribute: dropping them changes
nothing (and by `C18_formula` nothing else about them enters the result). -/
def C18_excluded_statement : Prop :=
  ∀ bs : List CBat,
    socOf bs = socOf (bs.filter fun b => b.socArgs.isSome) ∧
    capOf bs = capOf (bs.filter fun b => b.capArgs.isSome)

theorem C18_excluded : C18_excluded_statement := by
  intro bs
  constructor
  · rw [socOf_eq, socOf_eq]
    unfold totalX100 usedX100 Qs
    rw [filterMap_filter_isSome]
  · rw [capOf_eq, capOf_eq]
    unfold Qc
    rw [filterMap_filter_isSome]

/-- Both calculators iterate over a Python `set`: the order of the batteries does not matter. -/
theorem C18_order_irrelevant (bs bs' : List CBat) (h : bs.Perm bs') : socOf bs = socOf bs' ∧ capOf bs = capOf bs' :=
  socOf_perm h

/-- The cache glue: when the working set is updated, the cached metrics of every battery that stopped working are
gone (so a battery that comes back does not count until it sends again), the others are untouched. -/
theorem C18_evicted (ids : List String) (p : Pool) (new : List Nat) (b : Nat) :
    let p' := p.step ids (.working new)
    (b ∈ p.working → ¬ (b ∈ p.batteries ∧ b ∈ new) → p'.cached.lookup b = none) ∧
    (¬ (b ∈ p.working ∧ ¬ (b ∈ p.batteries ∧ b ∈ new)) → p'.cached.lookup b = p.cached.lookup b) ∧
    (∀ x, x ∈ p'.working ↔ x ∈ p.batteries ∧ x ∈ new) :=
  step_working ids p new b

/-- C18, all clauses as written. -/
def C18_statement : Prop :=
  C18_formula_statement ∧ C18_none_iff_statement ∧ C18_range_statement ∧ C18_monotone_statement ∧
  C18_excluded_statement ∧ C18_scale_statement

theorem C18_full_refuted : ¬ C18_statement := fun h => C18_scale_full_refuted h.2.2.2.2.2

/-- C18 with scale invariance restricted to the complement of the `NearZeroTotal` regime; everything else in full. -/
theorem C18_partial :
    C18_formula_statement ∧ C18_none_iff_statement ∧ C18_range_statement ∧ C18_monotone_statement ∧
    C18_excluded_statement ∧
    (∀ (bs : List CBat) (k : Rat), 0 < k →
      (isCloseToZero (totalX100 bs) ↔ isCloseToZero (k * totalX100 bs)) →
      socOf (bs.map (CBat.scale k)) = socOf bs) :=
  ⟨C18_formula, C18_none_iff, C18_range, C18_monotone, C18_excluded, C18_scale⟩

/-! Non-vacuity of the domain hypotheses: three batteries — one with SoC above its limits, one with equal limits, one
not working — pool SoC = (64000·100 + 0·…)/64000 = 100 exactly; raising SoCs keeps it defined. -/
example :
    let bs : List CBat :=
      [⟨true, true, ⟨3, some 800, some 10, some 90, some 95⟩⟩, ⟨true, true, ⟨4, some 500, some 20, some 20, some 19⟩⟩,
       ⟨false, true, ⟨5, some 100, some 0, some 100, some 50⟩⟩]
    C18_Domain bs ∧ socOf bs = some 100 ∧ capOf bs = some 640 := by
  refine ⟨?_, by decide +kernel, by decide +kernel⟩
  intro a ha
  simp [CBat.socArgs] at ha
  rcases ha with rfl | rfl <;> decide +kernel

example : Pointwise SocRaised
    [⟨true, true, ⟨3, some 800, some 10, some 90, some 40⟩⟩, ⟨true, true, ⟨4, some 500, some 20, some 80, none⟩⟩]
    [⟨true, true, ⟨9, some 800, some 10, some 90, some 45⟩⟩, ⟨true, true, ⟨4, some 500, some 20, some 80, none⟩⟩] := by
  refine Pointwise.cons ?_ (Pointwise.cons ?_ Pointwise.nil)
  · exact ⟨rfl, rfl, rfl, rfl, rfl, Or.inr ⟨40, 45, rfl, rfl, by decide +kernel⟩⟩
  · exact ⟨rfl, rfl, rfl, rfl, rfl, Or.inl ⟨rfl, rfl⟩⟩
