/-
C11 — Distributed power = regular target + operating-point target, inside the latest bounds.

Model: `Frequenz.Model.PowerManager` (event handlers of `PowerManagingActor`, after the `fix:` commit
recorded in known_findings.json) over the Matryoshka model; every history of events.
-/
import Frequenz.Lemmas.PowerManager
import Frequenz.Lemmas.PowerManagerTie

open Matryoshka PowerManager BoundsLemmas

/-- Inside the latest system inclusion bounds (zero when there are none). -/
def C11_InBounds (sb : SystemBounds) (x : Rat) : Prop :=
  match sb.incl with
  | none => x = 0
  | some b => b.lower ≤ x ∧ x ≤ b.upper

def C11_Inv (st : State) : Prop := MgrInv st.reg ∧ MgrInv st.op

/-- What must hold after an event handler that emitted request `o`. -/
def C11_Good (st' : State) (o : Option Rat) : Prop :=
  ∀ r, o = some r →
    (r = st'.reg.last.getD 0 + st'.op.last.getD 0 ∧ (st'.reg.last ≠ none ∨ st'.op.last ≠ none)) ∧
    (∀ sb, st'.sb = some sb → C03_InDomain sb → C11_InBounds sb r)

def C11_AllGood : State → List Event → Prop
  | _, [] => True
  | st, e :: es => C11_Good (step st e).1 (step st e).2 ∧ C11_AllGood (step st e).1 es

theorem C11_combine (a b : Option Rat) (r : Rat) (h : combine a b = some r) :
    r = a.getD 0 + b.getD 0 ∧ (a ≠ none ∨ b ≠ none) := by
  unfold combine at h
  cases a <;> cases b <;> simp at h ⊢ <;> grind

/-- The two-stage computation: the first group against the system bounds, the second against the
bounds shifted by the first group's stored target.  The sum of the stored targets is in bounds. -/
theorem C11_two_stage (m1 m2 : Mgr) (h1 : MgrInv m1) (h2 : MgrInv m2) (p p2 : Option Proposal)
    (sb : SystemBounds) (hd : C03_InDomain sb) (must : Bool) :
    C11_InBounds sb ((m1.calc p sb must).1.last.getD 0 +
      (m2.calc p2 (shifted sb (m1.calc p sb must).1.last) must).1.last.getD 0) := by
  obtain ⟨_, c1⟩ := calc_cases m1 h1 p sb must
  generalize (m1.calc p sb must).1.last = l1 at *
  have env1 : ∀ t, l1 = some t → C03_Envelope sb t := by
    intro t ht
    rcases c1 with ⟨hn, _⟩ | ⟨b, hb, _⟩
    · rw [hn] at ht; cases ht
    · rw [hb] at ht; cases ht; exact C03_envelope sb hd _
  have hd2 : C03_InDomain (shifted sb l1) := by
    cases l1 with
    | none => exact hd
    | some t => exact shifted_inDomain sb hd t (env1 t rfl)
  obtain ⟨_, c2⟩ := calc_cases m2 h2 p2 (shifted sb l1) must
  generalize (m2.calc p2 (shifted sb l1) must).1.last = l2 at *
  have env2 : ∀ t, l2 = some t → C03_Envelope (shifted sb l1) t := by
    intro t ht
    rcases c2 with ⟨hn, _⟩ | ⟨b, hb, _⟩
    · rw [hn] at ht; cases ht
    · rw [hb] at ht; cases ht; exact C03_envelope _ hd2 _
  unfold C11_InBounds
  cases l1 with
  | none =>
    cases l2 with
    | none =>
      simp only [Option.getD_none]
      cases hi : sb.incl with
      | none => simp only []; grind
      | some b => have := hd.1 b hi; simp only []; grind
    | some t2 =>
      have := (env2 t2 rfl).1
      simp only [shifted, Extracted.Proposal.shiftedLower, Extracted.Proposal.shiftedUpper] at this
      simp only [Option.getD_none, Option.getD_some]
      cases hi : sb.incl with
      | none => rw [hi] at this; simp only [] at this ⊢; grind
      | some b => rw [hi] at this; simp only [] at this ⊢; grind
  | some t1 =>
    have e1 := (env1 t1 rfl).1
    cases l2 with
    | none =>
      simp only [Option.getD_none, Option.getD_some]
      cases hi : sb.incl with
      | none => rw [hi] at e1; simp only [] at e1 ⊢; grind
      | some b => rw [hi] at e1; simp only [] at e1 ⊢; grind
    | some t2 =>
      have e2 := (env2 t2 rfl).1
      simp only [shifted, Extracted.Proposal.shiftedLower, Extracted.Proposal.shiftedUpper] at e2
      simp only [Option.getD_some]
      cases hi : sb.incl with
      | none => rw [hi] at e1 e2; simp only [Option.map_none] at e1 e2 ⊢; grind
      | some b =>
        rw [hi] at e1 e2
        simp only [Option.map_some] at e1 e2 ⊢
        obtain ⟨bl, bu⟩ := b
        simp only at *
        grind

theorem C11_twoStage_inv (m1 m2 : Mgr) (h1 : MgrInv m1) (h2 : MgrInv m2) (p p2 : Option Proposal)
    (sb : SystemBounds) (must : Bool) :
    MgrInv (twoStage m1 m2 p p2 sb must).1 ∧ MgrInv (twoStage m1 m2 p p2 sb must).2.1 :=
  ⟨(calc_cases m1 h1 p sb must).1, (calc_cases m2 h2 p2 _ must).1⟩

theorem C11_twoStage_bounds (m1 m2 : Mgr) (h1 : MgrInv m1) (h2 : MgrInv m2) (p p2 : Option Proposal)
    (sb : SystemBounds) (hd : C03_InDomain sb) (must : Bool) :
    C11_InBounds sb ((twoStage m1 m2 p p2 sb must).1.last.getD 0 + (twoStage m1 m2 p p2 sb must).2.1.last.getD 0) :=
  C11_two_stage m1 m2 h1 h2 p p2 sb hd must

theorem C11_calc_inv (st : State) (h1 : MgrInv st.reg) (h2 : MgrInv st.op) (sb : SystemBounds) (p : Option (Proposal × Bool))
    (must : Bool) : C11_Inv (calcPower st sb p must).1 :=
  (C11_twoStage_inv st.op st.reg h2 h1 (opPart p) (regPart p) sb must).symm

/-- One `_calculate_target_power`: whatever is sent is the sum of the stored targets and in bounds. -/
theorem C11_calc_good (st : State) (h1 : MgrInv st.reg) (h2 : MgrInv st.op) (sb : SystemBounds)
    (p : Option (Proposal × Bool)) (must : Bool) (r : Rat)
    (hr : (calcPower st sb p must).2 = some r) :
    (r = (calcPower st sb p must).1.reg.last.getD 0 + (calcPower st sb p must).1.op.last.getD 0 ∧
      ((calcPower st sb p must).1.reg.last ≠ none ∨ (calcPower st sb p must).1.op.last ≠ none)) ∧
    (C03_InDomain sb → C11_InBounds sb r) := by
  have comm : ∀ a b : Rat, a + b = b + a := by intro a b; grind
  unfold calcPower at hr ⊢
  simp only [] at hr ⊢
  split at hr
  · have hc := C11_combine _ _ r hr
    refine ⟨⟨by rw [hc.1, comm], hc.2.symm⟩, fun hd => ?_⟩
    rw [hc.1]; exact C11_twoStage_bounds st.op st.reg h2 h1 (opPart p) (regPart p) sb hd must
  · cases hr

theorem C11_step_inv (st : State) (hinv : C11_Inv st) (e : Event) : C11_Inv (step st e).1 := by
  cases e with
  | proposal p isOp => simp only [PowerManager.step]; exact C11_calc_inv _ (by exact hinv.1) (by exact hinv.2) _ _ _
  | bounds sb => simp only [PowerManager.step]; exact C11_calc_inv _ (by exact hinv.1) (by exact hinv.2) _ _ _
  | result k =>
    cases k with
    | success => exact hinv
    | error => exact hinv
    | partialFailure =>
      simp only [PowerManager.step]
      split
      · exact hinv
      · split
        · exact C11_calc_inv _ (by exact hinv.1) (by exact hinv.2) _ _ _
        · exact hinv
  | drop now => exact ⟨mgrInv_drop _ hinv.1 _ _, mgrInv_drop _ hinv.2 _ _⟩

theorem C11_calc_sb (st : State) (sb : SystemBounds) (p : Option (Proposal × Bool)) (must : Bool) :
    (calcPower st sb p must).1.sb = st.sb := rfl

/-- Every event handler: what it sends is the sum of the (reported) targets and lies in the latest bounds. -/
theorem C11_step_good (st : State) (hinv : C11_Inv st) (e : Event) :
    C11_Good (step st e).1 (step st e).2 := by
  intro r hr
  cases e with
  | proposal p isOp =>
    simp only [PowerManager.step] at hr ⊢
    have := C11_calc_good _ (by exact hinv.1) (by exact hinv.2) _ _ _ r hr
    refine ⟨this.1, ?_⟩
    intro sb hsb hd
    rw [C11_calc_sb] at hsb
    simp only [Option.some.injEq] at hsb
    subst hsb; exact this.2 hd
  | bounds sb0 =>
    simp only [PowerManager.step] at hr ⊢
    have := C11_calc_good _ (by exact hinv.1) (by exact hinv.2) _ _ _ r hr
    refine ⟨this.1, ?_⟩
    intro sb hsb hd
    rw [C11_calc_sb] at hsb
    simp only [Option.some.injEq] at hsb
    subst hsb; exact this.2 hd
  | result k =>
    cases k with
    | success => simp [PowerManager.step] at hr
    | error => simp [PowerManager.step] at hr
    | partialFailure =>
      simp only [PowerManager.step] at hr ⊢
      split at hr
      · cases hr
      · rename_i hlp
        simp only [hlp, Bool.false_eq_true, if_false]
        cases hsb0 : st.sb with
        | none => simp [hsb0] at hr
        | some sb0 =>
          simp only [hsb0] at hr ⊢
          have := C11_calc_good _ (by exact hinv.1) (by exact hinv.2) _ _ _ r hr
          refine ⟨this.1, ?_⟩
          intro sb hsb hd
          rw [C11_calc_sb] at hsb
          simp only [hsb0, Option.some.injEq] at hsb
          subst hsb; exact this.2 hd
  | drop now => simp [PowerManager.step] at hr

/-- **C11 for every history of events**, starting from a fresh actor (or any state satisfying the invariant). -/
theorem C11_all_histories (es : List Event) (st : State) (hinv : C11_Inv st) : C11_AllGood st es := by
  induction es generalizing st with
  | nil => trivial
  | cons e es ih => exact ⟨C11_step_good st hinv e, ih _ (C11_step_inv st hinv e)⟩

def C11_statement : Prop := ∀ es : List Event, C11_AllGood State.init es

theorem C11_full : C11_statement :=
  fun es => C11_all_histories es State.init ⟨mgrInv_init, mgrInv_init⟩

/-! Non-vacuity: the history of the original defect — op proposal 50 W, regular proposal 5 W, then
the bounds shrink to [-100, 40] — emits 50, 55 and then 40 = 0 + 40 … see the examples (operating point first). -/
def C11_exHist : List Event :=
  [.bounds ⟨some ⟨-100, 100⟩, none⟩,
   .proposal { prio := 1, src := "o", pref := some 50, lo := none, hi := none, created := 0 } true,
   .proposal { prio := 1, src := "r", pref := some 5, lo := none, hi := none, created := 0 } false,
   .bounds ⟨some ⟨-100, 40⟩, none⟩]

example : (run State.init C11_exHist).2 = [none, some 50, some 55, some 40] := by decide +kernel
example : (run State.init C11_exHist).1.reg.last = some 0 ∧ (run State.init C11_exHist).1.op.last = some 40 := by
  decide +kernel

/-- **The hand-written actor model is the current source text** of `_power_managing_actor.py`.
`Extracted.PowerManagerActor.*` is machine-translated on every run: `_calculate_shifted_bounds`, `_calculate_target_power`
(state-passing over the two `Matryoshka` instances in Python's evaluation order: which group is computed first, which
bounds each call receives, where `get_target_power` is read, the routing by `set_operating_point`, the final None / sum
logic), `_send_updated_target_power`, the proposals / results / timer branches of `_run` (with its loop-carried flag) and
the body of `_bounds_tracker`.  For ALL states, proposals, bounds, result kinds and times: (1) `shifted` is the
translated `_calculate_shifted_bounds`; (2) `calcPower` is the translated `_calculate_target_power`, and a request is
sent iff it returns a power, with that power; (3) every arm of `PowerManager.step` is the translated handler — where
Python raises `KeyError` (a partial failure for ids without a bounds cache entry) the translation says `none`;
(4) the initial flag, the cache entry of a new bounds tracker and `adjust_power=True` are those of the source. -/
theorem C11_model_is_source :
    (∀ (sb : SystemBounds) (t : Option Rat), Extracted.PowerManagerActor.shiftedBounds sb t = shifted sb t) ∧
    (∀ (st : State) (sb : SystemBounds) (p : Option (Proposal × Bool)) (must : Bool),
      Extracted.PowerManagerActor.calculateTargetPower st.op st.reg sb p must =
        ((calcPower st sb p must).1.op, (calcPower st sb p must).1.reg, (calcPower st sb p must).2) ∧
      Extracted.PowerManagerActor.sendUpdatedTargetPower st.op st.reg sb p must =
        ((calcPower st sb p must).1.op, (calcPower st sb p must).1.reg, (calcPower st sb p must).2) ∧
      (calcPower st sb p must).1.sb = st.sb ∧ (calcPower st sb p must).1.lastPartial = st.lastPartial) ∧
    (∀ (st : State) (p : Proposal) (isOp : Bool),
      Extracted.PowerManagerActor.onProposal st.lastPartial st.op st.reg st.sb p isOp =
        some (PowerManagerTie.stTuple (PowerManager.step st (.proposal p isOp)).1, (PowerManager.step st (.proposal p isOp)).2)) ∧
    (∀ (st : State) (sb : SystemBounds),
      Extracted.PowerManagerActor.onBounds st.lastPartial st.op st.reg st.sb sb =
        some (PowerManagerTie.stTuple (PowerManager.step st (.bounds sb)).1, (PowerManager.step st (.bounds sb)).2)) ∧
    (∀ (st : State) (k : ResultKind),
      Extracted.PowerManagerActor.onResult st.lastPartial st.op st.reg st.sb
          (decide (k = .partialFailure)) (decide (k = .success)) =
        if k = .partialFailure ∧ st.lastPartial = false ∧ st.sb = none then none
        else some (PowerManagerTie.stTuple (PowerManager.step st (.result k)).1, (PowerManager.step st (.result k)).2)) ∧
    (∀ (st : State) (now : Rat),
      Extracted.PowerManagerActor.onTimer st.lastPartial st.op st.reg st.sb now =
        some (PowerManagerTie.stTuple (PowerManager.step st (.drop now)).1, (PowerManager.step st (.drop now)).2)) ∧
    (Extracted.PowerManagerActor.initialFlag = State.init.lastPartial ∧
      Extracted.PowerManagerActor.trackerInitBounds = noBounds ∧
      Extracted.PowerManagerActor.requestAdjustPower = true) :=
  ⟨PowerManagerTie.shiftedBounds_eq,
   fun st sb p must => ⟨PowerManagerTie.calculateTargetPower_eq st sb p must,
     PowerManagerTie.sendUpdatedTargetPower_eq st sb p must, rfl, rfl⟩,
   PowerManagerTie.onProposal_eq, PowerManagerTie.onBounds_eq, PowerManagerTie.onResult_eq,
   PowerManagerTie.onTimer_eq, PowerManagerTie.constants_eq⟩
