/-
C17 — Power inside a battery pool's advertised bounds is never rejected as out of bounds.

Objects (all in `Frequenz.Model.PoolBounds`; the arithmetic inside them is machine-translated from the Python
source on every run, `Frequenz.Extracted.Pool`):

* `advertisedRaw msgs`  = `PowerBoundsCalculator.calculate` on what `LatestMetricsFetcher.fetch_next` keeps of the
                          component messages — the `SystemBounds` streamed by the pool (`none` = no bounds);
* `pairsRaw msgs`       = `BatteryManager._get_components_data` on the SAME messages; `getBounds` = `_get_bounds`;
* `answer pairs p adj`  = `_get_distribution` up to `_check_request`: `.ok` | `.outOfBounds` | `.error`;
* `sumMinPowerIds`      = Σ over the battery sets of `min_power` of `_compute_battery_availability_ratio`, read from
                          the id-keyed `excl_bounds` dict exactly as the code does.

Domain: `gs : List CGroup` — any number of battery sets, each any list of batteries behind any list of inverters
(shared inverters / shared batteries; the same component may even sit in several sets, which is what the real maps
derive for partially shared inverters), every message complete, any working subset; `WellFormed` = every set has a
battery and an inverter; `Consistent` = `incl_lower ≤ excl_lower ≤ 0 ≤ excl_upper ≤ incl_upper` per component.
"Inside the advertised bounds" is `InAdvertised` — inside the inclusion bounds, not strictly inside the exclusion
zone (the weakest reading; `C17_accept_contains` covers the literal `Power in SystemBounds`, which is narrower).

Result: the three bounds clauses (`C17_bounds_full`) hold for EVERY topology.  The minimum-power clause holds when
no two participating sets share a component id (`DistinctIds`, i.e. the battery sets are disjoint — `C17_partial`)
and is REFUTED for overlapping battery sets (`C17_full_refuted`; known finding `OverlappingBatterySets`).
-/
import Frequenz.Lemmas.PoolBounds

open PoolBounds Extracted.Pool PoolArith

/-- What both sides compute on complete data: one `Group` / one pair per battery set with a working battery. -/
theorem C17_same_data (gs : List CGroup) :
    advertisedRaw (gs.map (·.toRaw)) = advertised ((gs.filter (·.active)).map (·.group)) ∧
    pairsRaw (gs.map (·.toRaw)) = .ok ((gs.filter (·.active)).map (·.idPair)) :=
  ⟨advertisedRaw_complete gs, pairsRaw_complete gs⟩

/-- Bounds are advertised exactly when the distributor has data to enforce bounds on (else it answers `Error`,
never `OutOfBounds`). -/
theorem C17_presence (gs : List CGroup) (h : WellFormed gs) :
    (advertisedRaw (gs.map (·.toRaw)) = none ↔ pairsRaw (gs.map (·.toRaw)) = .ok []) := by
  rw [advertisedRaw_complete, pairsRaw_complete, advertised_closed _ (group_nonempty _ (wf_filter h))]
  by_cases he : gs.filter (·.active) = [] <;> simp [he]

/-- The inclusion bounds advertised and enforced are identical. -/
theorem C17_incl_equal (gs : List CGroup) (h : WellFormed gs) (adv : PowerBounds)
    (ha : advertisedRaw (gs.map (·.toRaw)) = some adv) :
    ∃ pairs, pairsRaw (gs.map (·.toRaw)) = .ok pairs ∧ pairs ≠ [] ∧
      adv.inclusion_lower = (getBounds (plain pairs)).inclusion_lower ∧
      adv.inclusion_upper = (getBounds (plain pairs)).inclusion_upper := by
  obtain ⟨hne, rfl⟩ := adv_some h ha
  refine ⟨_, pairsRaw_complete gs, by simpa using hne, ?_, ?_⟩
  · rw [plain_map, enforced_il]
  · rw [plain_map, enforced_iu]

/-- The enforced exclusion zone lies inside the advertised one (`max Σ ≤ Σ max`, `Σ min ≤ min Σ`). -/
theorem C17_excl_dominates (gs : List CGroup) (h : WellFormed gs) (adv : PowerBounds)
    (ha : advertisedRaw (gs.map (·.toRaw)) = some adv) :
    ∃ pairs, pairsRaw (gs.map (·.toRaw)) = .ok pairs ∧
      adv.exclusion_lower ≤ (getBounds (plain pairs)).exclusion_lower ∧
      (getBounds (plain pairs)).exclusion_upper ≤ adv.exclusion_upper := by
  obtain ⟨_, rfl⟩ := adv_some h ha
  refine ⟨_, pairsRaw_complete gs, ?_, ?_⟩
  · rw [plain_map, enforced_el]; exact sum_min_le_min_sum _
  · rw [plain_map, enforced_eu]; exact max_sum_le_sum_max _

/-- Every power inside the advertised bounds is accepted (not `OutOfBounds`, not `Error`), with `adjust_power` on
and off.  (`p ≠ 0` is not even needed: zero is always forwarded.) -/
theorem C17_accept (gs : List CGroup) (h : WellFormed gs) (adv : PowerBounds)
    (ha : advertisedRaw (gs.map (·.toRaw)) = some adv) (p : Rat) (adjust : Bool) (hin : InAdvertised adv p) :
    ∃ pairs, pairsRaw (gs.map (·.toRaw)) = .ok pairs ∧ answer (plain pairs) p adjust = .ok := by
  obtain ⟨pairs, hp, hne, hil, hiu⟩ := C17_incl_equal gs h adv ha
  obtain ⟨pairs', hp', hel, heu⟩ := C17_excl_dominates gs h adv ha
  have e : pairs' = pairs := by rw [hp] at hp'; injection hp' with h'; exact h'.symm
  rw [e] at hel heu
  refine ⟨pairs, hp, ?_⟩
  have hlen : ¬ (plain pairs).length = 0 := by simpa [plain, List.length_eq_zero_iff] using hne
  simp only [answer, hlen, if_false,
    checkRequest_accepts adv (getBounds (plain pairs)) p adjust hil hiu hel heu hin]
  simp

/-- The literal container test `Power(p) in SystemBounds` (closed exclusion interval) implies `InAdvertised`. -/
theorem C17_contains_inAdvertised (adv : PowerBounds) (p : Rat)
    (hc : advertisedContains (some adv) p = true) : InAdvertised adv p := by
  simp only [advertisedContains, systemBoundsContains, boundsContains, Option.map_some] at hc
  unfold InAdvertised
  by_cases h1 : adv.inclusion_lower ≤ p ∧ p ≤ adv.inclusion_upper
  · by_cases h2 : adv.exclusion_lower ≤ p ∧ p ≤ adv.exclusion_upper
    · simp [h1, h2] at hc
    · grind
  · simp [h1] at hc

theorem C17_accept_contains (gs : List CGroup) (h : WellFormed gs) (adv : PowerBounds)
    (ha : advertisedRaw (gs.map (·.toRaw)) = some adv) (p : Rat) (adjust : Bool)
    (hc : advertisedContains (some adv) p = true) :
    ∃ pairs, pairsRaw (gs.map (·.toRaw)) = .ok pairs ∧ answer (plain pairs) p adjust = .ok :=
  C17_accept gs h adv ha p adjust (C17_contains_inAdvertised adv p hc)

/-- Neither side depends on the order in which the battery sets are iterated (`set` / `frozenset` iteration in the
real code): permuting the sets changes neither the advertised nor the enforced bounds. -/
theorem C17_order_irrelevant (gs gs' : List CGroup) (h : gs.Perm gs') (hw : WellFormed gs) :
    advertisedRaw (gs.map (·.toRaw)) = advertisedRaw (gs'.map (·.toRaw)) ∧
    ∃ ps ps', pairsRaw (gs.map (·.toRaw)) = .ok ps ∧ pairsRaw (gs'.map (·.toRaw)) = .ok ps' ∧
      getBounds (plain ps) = getBounds (plain ps') := by
  constructor
  · rw [advertisedRaw_complete, advertisedRaw_complete]
    exact advertised_perm ((h.filter _).map _) (group_nonempty _ (wf_filter hw))
  · refine ⟨_, _, pairsRaw_complete gs, pairsRaw_complete gs', ?_⟩
    rw [plain_map, plain_map]
    exact getBounds_perm ((h.filter _).map _)

/-- Bounds clauses of C17: identical inclusion bounds, enforced exclusion zone inside the advertised one, every
non-zero admitted power accepted with either `adjust_power` setting. -/
def C17_bounds_statement : Prop :=
  ∀ (gs : List CGroup), WellFormed gs → Consistent gs →
    ∀ adv : PowerBounds, advertisedRaw (gs.map (·.toRaw)) = some adv →
      ∃ pairs, pairsRaw (gs.map (·.toRaw)) = .ok pairs ∧ pairs ≠ [] ∧
        adv.inclusion_lower = (getBounds (plain pairs)).inclusion_lower ∧
        adv.inclusion_upper = (getBounds (plain pairs)).inclusion_upper ∧
        adv.exclusion_lower ≤ (getBounds (plain pairs)).exclusion_lower ∧
        (getBounds (plain pairs)).exclusion_upper ≤ adv.exclusion_upper ∧
        (∀ (p : Rat) (adjust : Bool), p ≠ 0 → InAdvertised adv p → answer (plain pairs) p adjust = .ok)

/-- … for every topology, overlapping battery sets included (consistency of the data is not even used). -/
theorem C17_bounds_full : C17_bounds_statement := by
  intro gs h _ adv ha
  obtain ⟨pairs, hp, hne, hil, hiu⟩ := C17_incl_equal gs h adv ha
  obtain ⟨pairs1, hp1, hel, heu⟩ := C17_excl_dominates gs h adv ha
  have e1 : pairs1 = pairs := by rw [hp] at hp1; injection hp1 with h'; exact h'.symm
  rw [e1] at hel heu
  refine ⟨pairs, hp, hne, hil, hiu, hel, heu, ?_⟩
  intro p adjust _ hin
  obtain ⟨pairs3, hp3, hans⟩ := C17_accept gs h adv ha p adjust hin
  have e3 : pairs3 = pairs := by rw [hp] at hp3; injection hp3 with h'; exact h'.symm
  rw [e3] at hans
  exact hans

/-- Minimum-power clause: every non-zero admitted power is at least the sum of the groups' minimum powers, as the
distribution algorithm computes them (`sumMinPowerIds`, both directions). -/
def C17_minpower_statement : Prop :=
  ∀ (gs : List CGroup), WellFormed gs → Consistent gs →
    ∀ adv : PowerBounds, advertisedRaw (gs.map (·.toRaw)) = some adv →
      ∃ pairs, pairsRaw (gs.map (·.toRaw)) = .ok pairs ∧
        ∀ p : Rat, p ≠ 0 → InAdvertised adv p →
          (0 < p → sumMinPowerIds false pairs ≤ p) ∧ (p < 0 → sumMinPowerIds true pairs ≤ -p)

/-- With disjoint battery sets the advertised exclusion bounds dominate the sum of the groups' minimum powers (both
directions), hence every admitted non-zero power is at least that sum. -/
theorem C17_min_power (gs : List CGroup) (h : WellFormed gs) (hc : Consistent gs) (hd : DistinctIds gs)
    (adv : PowerBounds) (ha : advertisedRaw (gs.map (·.toRaw)) = some adv) :
    ∃ pairs, pairsRaw (gs.map (·.toRaw)) = .ok pairs ∧
      sumMinPowerIds false pairs ≤ adv.exclusion_upper ∧ sumMinPowerIds true pairs ≤ -adv.exclusion_lower ∧
      adv.exclusion_lower ≤ 0 ∧ 0 ≤ adv.exclusion_upper ∧
      ∀ p, InAdvertised adv p →
        (0 < p → sumMinPowerIds false pairs ≤ p) ∧ (p < 0 → sumMinPowerIds true pairs ≤ -p) := by
  obtain ⟨_, rfl⟩ := adv_some h ha
  have hpos : ∀ g ∈ gs.filter (·.active), g.invs ≠ [] ∧ ∀ i ∈ g.invs, 0 ≤ i.data.active_power_exclusion_upper_bound := by
    intro g hg
    have hmem := (List.mem_filter.mp hg).1
    exact ⟨(h g hmem).2, fun i hi => ((hc g hmem).2 i hi).2.2.1⟩
  have hneg : ∀ g ∈ gs.filter (·.active), g.invs ≠ [] ∧ ∀ i ∈ g.invs, i.data.active_power_exclusion_lower_bound ≤ 0 := by
    intro g hg
    have hmem := (List.mem_filter.mp hg).1
    exact ⟨(h g hmem).2, fun i hi => ((hc g hmem).2 i hi).2.1⟩
  have h1 := sumMinPower_consume_le _ hpos
  have h2 := sumMinPower_supply_le _ hneg
  rw [← plain_map, ← sumMinPowerIds_eq false _ hd] at h1
  rw [← plain_map, ← sumMinPowerIds_eq true _ hd] at h2
  have h3 : pySum (((gs.filter (·.active)).map (·.group)).map Group.el) ≤ 0 := by
    have := pySum_map_le (fun g : CGroup => g.group.el) (fun _ => 0) (gs.filter (·.active))
      (fun g hg => group_el_nonpos g (hneg g hg).2)
    rw [List.map_map]
    have hz : pySum ((gs.filter (·.active)).map fun _ : CGroup => (0 : Rat)) = 0 := by
      induction (gs.filter (·.active)) with
      | nil => rfl
      | cons x xs ih => simp only [List.map_cons, pySum_cons, ih]; grind
    rw [hz] at this
    exact this
  have h4 : 0 ≤ pySum (((gs.filter (·.active)).map (·.group)).map Group.eu) := by
    apply pySum_nonneg
    intro x hx
    rw [List.map_map] at hx
    rcases List.mem_map.mp hx with ⟨g, hg, rfl⟩
    exact group_eu_nonneg g (hpos g hg).2
  refine ⟨_, pairsRaw_complete gs, h1, h2, h3, h4, ?_⟩
  intro p hin
  unfold InAdvertised at hin
  simp only at hin
  constructor <;> intro hp <;> grind

theorem C17_minpower_partial :
    ∀ (gs : List CGroup), WellFormed gs → Consistent gs → DistinctIds gs →
      ∀ adv : PowerBounds, advertisedRaw (gs.map (·.toRaw)) = some adv →
        ∃ pairs, pairsRaw (gs.map (·.toRaw)) = .ok pairs ∧
          ∀ p : Rat, p ≠ 0 → InAdvertised adv p →
            (0 < p → sumMinPowerIds false pairs ≤ p) ∧ (p < 0 → sumMinPowerIds true pairs ≤ -p) := by
  intro gs h hc hd adv ha
  obtain ⟨pairs, hp, _, _, _, _, hm⟩ := C17_min_power gs h hc hd adv ha
  exact ⟨pairs, hp, fun p _ hin => hm p hin⟩

/-- The battery sets the real maps derive for: battery 11 behind inverters 101 and 102, battery 12 behind 101 only,
battery 13 behind 102 only (all working; only battery 12 has an exclusion bound, 10 W).  All three sets are keyed by
battery 11 in `excl_bounds`.  (Replayed on the real code: `corpus/C17/overlapping-sets-minpower.json`.) -/
def C17_overlap_witness : List CGroup :=
  let b11 : CBattery := ⟨11, true, ⟨-100, 0, 0, 100⟩⟩
  let b12 : CBattery := ⟨12, true, ⟨-100, 0, 10, 100⟩⟩
  let b13 : CBattery := ⟨13, true, ⟨-100, 0, 0, 100⟩⟩
  let i101 : CInverter := ⟨101, ⟨-100, 0, 0, 100⟩⟩
  let i102 : CInverter := ⟨102, ⟨-100, 0, 0, 100⟩⟩
  [⟨[b11, b12, b13], [i101, i102]⟩, ⟨[b11, b13], [i101, i102]⟩, ⟨[b11, b12], [i101, i102]⟩]

theorem C17_overlap_witness_ok :
    WellFormed C17_overlap_witness ∧ Consistent C17_overlap_witness ∧ ¬ DistinctIds C17_overlap_witness ∧
    advertisedRaw (C17_overlap_witness.map (·.toRaw)) = some ⟨-600, 0, 50, 600⟩ ∧
    InAdvertised ⟨-600, 0, 50, 600⟩ 50 ∧
    (pairsRaw (C17_overlap_witness.map (·.toRaw))).toOption.map (sumMinPowerIds false) = some 60 := by
  refine ⟨?_, ?_, ?_, ?_, ?_, ?_⟩
  · unfold WellFormed C17_overlap_witness; simp
  · unfold Consistent C17_overlap_witness ConsistentBounds batBounds invBounds; simp; decide +kernel
  · decide +kernel
  · decide +kernel
  · decide +kernel
  · decide +kernel

/-- The minimum-power clause fails for overlapping battery sets: 50 W is admitted, the minimum powers sum to 60 W. -/
theorem C17_minpower_full_refuted : ¬ C17_minpower_statement := by
  intro hst
  obtain ⟨hw, hc, _, ha, hin, hs⟩ := C17_overlap_witness_ok
  obtain ⟨pairs, hp, hm⟩ := hst C17_overlap_witness hw hc _ ha
  rw [hp] at hs
  simp only [Except.toOption, Option.map_some, Option.some.injEq] at hs
  have := (hm 50 (by decide +kernel) hin).1 (by decide +kernel)
  rw [hs] at this
  exact absurd this (by decide +kernel)

/-- C17, all clauses. -/
def C17_statement : Prop := C17_bounds_statement ∧ C17_minpower_statement

theorem C17_full_refuted : ¬ C17_statement := fun h => C17_minpower_full_refuted h.2

/-- C17 with all clauses, on the complement of the `OverlappingBatterySets` regime. -/
theorem C17_partial :
    ∀ (gs : List CGroup), WellFormed gs → Consistent gs → DistinctIds gs →
      ∀ adv : PowerBounds, advertisedRaw (gs.map (·.toRaw)) = some adv →
        ∃ pairs, pairsRaw (gs.map (·.toRaw)) = .ok pairs ∧ pairs ≠ [] ∧
          adv.inclusion_lower = (getBounds (plain pairs)).inclusion_lower ∧
          adv.inclusion_upper = (getBounds (plain pairs)).inclusion_upper ∧
          adv.exclusion_lower ≤ (getBounds (plain pairs)).exclusion_lower ∧
          (getBounds (plain pairs)).exclusion_upper ≤ adv.exclusion_upper ∧
          (∀ (p : Rat) (adjust : Bool), p ≠ 0 → InAdvertised adv p → answer (plain pairs) p adjust = .ok) ∧
          (∀ p : Rat, p ≠ 0 → InAdvertised adv p →
            (0 < p → sumMinPowerIds false pairs ≤ p) ∧ (p < 0 → sumMinPowerIds true pairs ≤ -p)) ∧
          sumMinPowerIds false pairs ≤ adv.exclusion_upper ∧ sumMinPowerIds true pairs ≤ -adv.exclusion_lower := by
  intro gs h hc hd adv ha
  obtain ⟨pairs, hp, hne, hil, hiu, hel, heu, hacc⟩ := C17_bounds_full gs h hc adv ha
  obtain ⟨pairs2, hp2, hm1, hm2, _, _, hm⟩ := C17_min_power gs h hc hd adv ha
  have e2 : pairs2 = pairs := by rw [hp] at hp2; injection hp2 with h'; exact h'.symm
  rw [e2] at hm1 hm2 hm
  exact ⟨pairs, hp, hne, hil, hiu, hel, heu, hacc, fun p _ hin => hm p hin, hm1, hm2⟩

/-! Non-vacuity of `C17_partial` / `C17_bounds_full`: two disjoint battery sets — two batteries behind two inverters
(one battery not working), and a 1:1 set — with consistent complete data; the advertised exclusion zone (−41, 61) is
strictly wider than the enforced one (−40, 60); 61 W is admitted (and accepted), 60 W is not admitted. -/
def C17_example : List CGroup :=
  [ { bats := [⟨11, true, ⟨-100, -10, 10, 100⟩⟩, ⟨12, false, ⟨-200, -20, 30, 200⟩⟩],
      invs := [⟨101, ⟨-120, -5, 5, 120⟩⟩, ⟨102, ⟨-130, -7/2, 5, 130⟩⟩] },
    { bats := [⟨13, true, ⟨-50, 0, 0, 50⟩⟩], invs := [⟨103, ⟨-60, -1, 1, 40⟩⟩] } ]

example : WellFormed C17_example ∧ Consistent C17_example ∧ DistinctIds C17_example := by
  refine ⟨?_, ?_, ?_⟩
  · unfold WellFormed C17_example; simp
  · unfold Consistent C17_example ConsistentBounds batBounds invBounds; simp; decide +kernel
  · decide +kernel

example : advertisedRaw (C17_example.map (·.toRaw)) = some ⟨-300, -41, 61, 290⟩ := by decide +kernel

example : InAdvertised ⟨-300, -41, 61, 290⟩ 61 ∧ ¬ InAdvertised ⟨-300, -41, 61, 290⟩ 60 := by decide +kernel

example : (pairsRaw (C17_example.map (·.toRaw))).toOption.map (fun ps => getBounds (plain ps))
    = some ⟨-300, -40, 60, 290⟩ := by decide +kernel


/-! ### the streamed bounds are the bounds of the latest data -/

/-- Whatever sequence of samples arrived (drifts of any size, repeats, one component changing while the others stay):
once `_send_on_update` has woken up after the last sample, the streamed value is the calculation on the LATEST data —
provided (re-established from the source on every run) that a sample triggers a recalculation iff it differs from
the cached one and that `ComponentMetricsData.__eq__` is exact equality of the stored values.  With `recalc :=
advertisedRaw`, every C17 theorem above therefore applies to the streamed bounds and the latest component data. -/
theorem C17_stream_is_latest {α β : Type} [DecidableEq α] (recalc : α → β) (s : PoolStream α β)
    (h0 : s.pending = false → s.streamed = recalc s.cached) (es : List (PoolStreamEv α)) :
    Extracted.Pool.metricsEqIsDataEq = true ∧ Extracted.Pool.updateIffChanged = true ∧
    ((PoolStream.run recalc s es).pending = false → (PoolStream.run recalc s es).streamed = recalc (PoolStream.run recalc s es).cached) ∧
    (PoolStream.run recalc s (es ++ [.wake])).streamed = recalc (PoolStream.run recalc s (es ++ [.wake])).cached := by
  have inv : ∀ (es : List (PoolStreamEv α)) (s : PoolStream α β), (s.pending = false → s.streamed = recalc s.cached) →
      ((PoolStream.run recalc s es).pending = false → (PoolStream.run recalc s es).streamed = recalc (PoolStream.run recalc s es).cached) := by
    intro es
    induction es with
    | nil => intro s h; simpa [PoolStream.run] using h
    | cons e es ih =>
      intro s h
      simp only [PoolStream.run, List.foldl_cons]
      apply ih
      cases e with
      | sample d =>
        simp only [PoolStream.step]
        intro hp
        simp only [Bool.or_eq_false_iff, decide_eq_false_iff_not, ne_eq, Classical.not_not] at hp
        rw [hp.2]; exact h hp.1
      | wake =>
        simp only [PoolStream.step]
        by_cases hp : s.pending = true
        · simp [hp]
        · simp only [hp]; intro _; exact h (by simpa using hp)
  refine ⟨rfl, rfl, inv es s h0, ?_⟩
  have h1 := inv es s h0
  simp only [PoolStream.run, List.foldl_append, List.foldl_cons, List.foldl_nil] at h1 ⊢
  simp only [PoolStream.step]
  by_cases hp : (List.foldl (PoolStream.step recalc) s es).pending = true
  · simp [hp]
  · simp only [hp]; exact h1 (by simpa using hp)

/-- non-vacuity: a drift in three small steps and a repeat; after the wake-up the stream shows the last value. -/
example : (PoolStream.run (fun (x : Nat) => x + 1) ⟨800, false, 801⟩
    [.sample 799, .sample 798, .sample 798, .sample 797, .wake]).streamed = 798 := by decide
