/-
C08 — resampled values use exactly the recent, non-future, valid input samples.

The helper model (`ResamplingHelper`) takes from the checked source tree (regenerated on every run,
`Extracted.Resampling`): the None/NaN filter of the receiving task, the guard of the input-period estimate and the
lower clamp applied to it, the buffer length the deque is rebuilt with (clamps included) and the two keys of the
`bisect` calls that bound the slice.  `bisect` is the real binary search.

The theorems quantify over every configuration, every receive/tick history (`List Ev`) and every tick time; the
window theorems need the buffer to be time-ordered — the domain of the property — which every time-ordered history
guarantees (`C08_ordered_history_sorted_buffer`).
-/
import Frequenz.Lemmas.ResamplingHelper
import Frequenz.Lemmas.ResamplerTie

set_option linter.unusedSimpArgs false

open ResamplingHelper Extracted.Resampling

/-- The width `max_age · max(period, input period)` of the relevance window, as CPython computes `timedelta * float`. -/
def C08_windowLen (cfg : Cfg) (h : Helper) : Int :=
  tdMulFloat (match h.inputPeriod with | some ip => max cfg.period ip | none => cfg.period) cfg.maxAge

/-- Closes leaf goals about the translated window keys whatever shape the source gives them. -/
macro "finish_key" : tactic =>
  `(tactic| first
      | rfl
      | omega
      | (simp_all; done)
      | (simp_all <;> omega)
      | (congr 1 <;> first | rfl | omega | (simp_all <;> omega) | ((repeat' split) <;> omega))
      | (congr 2 <;> first | rfl | omega | (simp_all <;> omega) | ((repeat' split) <;> omega))
      | ((repeat' split) <;> first | rfl | omega | (simp_all <;> omega)))

/-- Closes the goals about the relevance period after the order of the two periods is fixed, whatever tests the source
makes (and in whatever order). -/
macro "finish_period" : tactic =>
  `(tactic| first
      | rfl
      | omega
      | (simp_all; done)
      | ((repeat' split) <;> first | rfl | omega | (simp_all; done) | (simp_all <;> omega)))

/-- The older edge the source bisects for is `T − W`. -/
theorem C08_minRelevant (cfg : Cfg) (h : Helper) (T : Int) : minRelevant cfg h T = T - C08_windowLen cfg h := by
  unfold minRelevant C08_windowLen relevanceLowKey
  generalize cfg.period = p
  generalize cfg.maxAge = ma
  cases h.inputPeriod with
  | none => finish_key
  | some ip =>
    simp only []
    rcases Int.lt_trichotomy p ip with hlt | heq | hgt
    · rw [Int.max_eq_right (by omega)]; finish_period
    · subst heq; rw [Int.max_self]; finish_period
    · rw [Int.max_eq_left (by omega)]; finish_period

/-- The newer edge the source bisects for is `T` itself. -/
theorem C08_maxRelevant (cfg : Cfg) (h : Helper) (T : Int) : maxRelevant cfg h T = T := by
  unfold maxRelevant relevanceHighKey
  cases h.inputPeriod with
  | none => finish_key
  | some ip => finish_key

/-- What is handed to the resampling function at tick `T` is the buffer filtered on the half-open interval
`(T − W, T]`, in arrival order: strict at the old edge, inclusive at `T`. -/
theorem C08_window (cfg : Cfg) (h : Helper) (T : Int) (hs : SortedTs h.buf) :
    relevant cfg h T = h.buf.filter (fun s => decide (T - C08_windowLen cfg h < s.ts ∧ s.ts ≤ T)) := by
  unfold relevant
  simp only []
  rw [bisectRight_eq _ _ hs, bisectRight_eq _ _ hs, C08_maxRelevant, window_eq _ _ _ hs, C08_minRelevant]

/-- Nothing stamped after `T` is handed over, nothing as old as `T − W` either. -/
theorem C08_no_future (cfg : Cfg) (h : Helper) (T : Int) (hs : SortedTs h.buf) :
    ∀ s ∈ relevant cfg h T, s.ts ≤ T ∧ T - C08_windowLen cfg h < s.ts := by
  intro s hmem
  rw [C08_window cfg h T hs, List.mem_filter] at hmem
  have := hmem.2
  simp only [decide_eq_true_eq] at this
  exact ⟨this.2, this.1⟩

/-- Every sample of the buffer that lies in the window IS handed over (none is lost). -/
theorem C08_window_complete (cfg : Cfg) (h : Helper) (T : Int) (hs : SortedTs h.buf) (s : Sample)
    (hm : s ∈ h.buf) (h1 : T - C08_windowLen cfg h < s.ts) (h2 : s.ts ≤ T) : s ∈ relevant cfg h T := by
  rw [C08_window cfg h T hs, List.mem_filter]
  exact ⟨hm, by simp only [decide_eq_true_eq]; exact ⟨h1, h2⟩⟩

/-- Over every history the buffer is the most recent part of the valid samples received, and fits the deque. -/
theorem C08_recent (cfg : Cfg) (es : List Ev) :
    (run cfg es).buf <:+ validHistory es ∧ (run cfg es).buf.length ≤ (run cfg es).maxlen := by
  have := runFrom_invariant cfg es (init cfg) [] (by simp [init]) (by simp [init])
  simpa [run] using this

/-- Between ticks the deque holds exactly the last `maxlen` of (what it held ++ the valid samples received since). -/
theorem C08_recent_exact (cfg : Cfg) (es : List Ev) (xs : List Sample) :
    (xs.foldl recv (run cfg es)).buf = lastN (run cfg es).maxlen ((run cfg es).buf ++ xs.filter accepted) :=
  (recv_only_exact (run cfg es) xs (C08_recent cfg es).2).1

/-- A tick that changes the buffer length keeps the most recent samples (and only drops from the old end). -/
theorem C08_resize_keeps_suffix (cfg : Cfg) (es : List Ev) (T est : Int) :
    (tick cfg (run cfg es) T est).1.buf = lastN (tick cfg (run cfg es) T est).1.maxlen (run cfg es).buf :=
  tick_buf cfg (run cfg es) T est (C08_recent cfg es).2

/-- What the receiving task accepts is neither None nor NaN (whatever shape the filter has in the source). -/
theorem C08_accepted_valid (x : Sample) (h : accepted x = true) : x.isNone = false ∧ x.isNaN = false := by
  unfold accepted acceptsSample at h
  cases h1 : x.isNone <;> cases h2 : x.isNaN <;> cases h3 : x.isInf <;> simp_all

/-- Nothing that was None or NaN is ever in the buffer (invariant over the receive history). -/
theorem C08_no_invalid (cfg : Cfg) (es : List Ev) :
    ∀ x ∈ (run cfg es).buf, x.isNone = false ∧ x.isNaN = false := by
  intro x hx
  have hv := validHistory_accepted es x ((C08_recent cfg es).1.subset hx)
  exact C08_accepted_valid x hv

/-- Conversely, every sample that is neither None nor NaN — ±inf included — is accepted into the buffer. -/
theorem C08_valid_accepted (x : Sample) (h1 : x.isNone = false) (h2 : x.isNaN = false) : accepted x = true := by
  unfold accepted acceptsSample
  cases h3 : x.isInf <;> simp_all

example : accepted ⟨0, 0, false, false, true⟩ = true := by decide

/-- Time-ordered input gives a time-ordered buffer (so the window theorems apply at every tick). -/
theorem C08_ordered_history_sorted_buffer (cfg : Cfg) (es : List Ev) (ho : SortedTs (validHistory es)) :
    SortedTs (run cfg es).buf :=
  List.Pairwise.sublist (C08_recent cfg es).1.sublist ho

/-- The emitted value is `None` exactly when no sample is relevant. -/
theorem C08_none_iff_empty (f : List Sample → Rat) (o : TickOut) : emitted f o = none ↔ o.rel = [] := by
  unfold emitted
  cases h : o.rel with
  | nil => simp
  | cons a t => simp

/-- The estimate of the input period can never be zero, so a tick always produces a sample. -/
theorem C08_always_emits (cfg : Cfg) (h : Helper) (T est : Int) : (tick cfg h T est).2.err = false := by
  have hc : clampEstimate est ≠ 0 := by
    unfold clampEstimate
    have : minInputPeriodEstimate = 1 := rfl
    rw [this]
    split <;> omega
  have hn : newBufferLen cfg (clampEstimate est) ≠ none := by
    unfold newBufferLen
    simp [hc]
  rcases tick_cases cfg h T est with ⟨_, ht⟩ | ⟨_, hb, _⟩ | ⟨n, _, _, ht⟩
  · rw [ht]
  · exact absurd hb hn
  · rw [ht]

/-- The deque is rebuilt for `ceil(period / input period · max_age)` samples (when up-sampling:
`ceil(input period [s] · max_age)`), at least 1 and at most `max_buffer_len` — whatever `warn_buffer_len` is. -/
theorem C08_buffer_len (ip p : Int) (ma : Rat) (maxL warnL : Nat) :
    newBufferLenOf ip p ma maxL warnL =
      min (maxL : Int) (max 1 (Rat.ceil (if ip > p then totalSeconds ip * ma else totalSeconds p / totalSeconds ip * ma))) := by
  unfold newBufferLenOf
  by_cases h : ip > p <;> simp only [h, decide_true, decide_false, if_true, if_false, Bool.false_eq_true] <;>
    first
      | omega
      | ((repeat' split) <;> omega)
      | (simp_all <;> (repeat' split) <;> omega)

/-- The full statement: for every configuration, every time-ordered history and every tick time. -/
def C08_statement : Prop :=
  ∀ (cfg : Cfg) (es : List Ev) (T est : Int) (f : List Sample → Rat), SortedTs (validHistory es) →
    let r := tick cfg (run cfg es) T est
    -- a value is produced, computed from exactly the buffered samples stamped in (T − W, T], in arrival order …
    r.2.err = false ∧
    r.2.rel = r.1.buf.filter (fun s => decide (T - C08_windowLen cfg r.1 < s.ts ∧ s.ts ≤ T)) ∧
    -- … where the buffer is the most recent part of the valid samples received that fits the configured deque,
    r.1.buf <:+ validHistory es ∧ r.1.buf = lastN r.1.maxlen (run cfg es).buf ∧
    -- no future and no None/NaN sample is ever passed,
    (∀ s ∈ r.2.rel, s.ts ≤ T ∧ s.isNone = false ∧ s.isNaN = false) ∧
    -- and the emitted value is None exactly when that set is empty.
    (emitted f r.2 = none ↔ r.2.rel = [])

theorem C08_tick_rel (cfg : Cfg) (h : Helper) (T est : Int) (he : (tick cfg h T est).2.err = false) :
    (tick cfg h T est).2.rel = relevant cfg (tick cfg h T est).1 T := by
  rcases tick_cases cfg h T est with ⟨_, ht⟩ | ⟨_, _, ht⟩ | ⟨n, _, _, ht⟩
  · rw [ht]
  · rw [ht] at he; simp at he
  · rw [ht]

theorem C08_full : C08_statement := by
  intro cfg es T est f ho
  have hrec := C08_recent cfg es
  have hbuf := C08_resize_keeps_suffix cfg es T est
  have hsuf : (tick cfg (run cfg es) T est).1.buf <:+ validHistory es := by
    rw [hbuf]; exact (lastN_suffix _ _).trans hrec.1
  have hsorted : SortedTs (tick cfg (run cfg es) T est).1.buf := List.Pairwise.sublist hsuf.sublist ho
  have herr := C08_always_emits cfg (run cfg es) T est
  have hrel := C08_tick_rel cfg (run cfg es) T est herr
  refine ⟨herr, ?_, hsuf, hbuf, ?_, C08_none_iff_empty f _⟩
  · rw [hrel]; exact C08_window cfg _ T hsorted
  · intro s hs
    rw [hrel] at hs
    have h1 := (C08_no_future cfg _ T hsorted s hs).1
    have hm : s ∈ (tick cfg (run cfg es) T est).1.buf := by
      rw [C08_window cfg _ T hsorted] at hs
      exact (List.mem_filter.mp hs).1
    have hv := C08_accepted_valid s (validHistory_accepted es s (hsuf.subset hm))
    exact ⟨h1, hv.1, hv.2⟩

-- non-vacuity: a time-ordered history with a sample stamped exactly `T` (kept), exactly `T − W` (dropped),
-- a NaN sample (never buffered) and a future-stamped one (not passed).
def C08_exCfg : Cfg := { period := 1000000, maxAge := 2, initLen := 4, maxLen := 1024 }
def C08_exHist : List Ev :=
  [Ev.recv ⟨1000000, 0, false, false, false⟩, Ev.recv ⟨1500000, 1, false, true, false⟩,
   Ev.recv ⟨3000000, 2, false, false, true⟩, Ev.recv ⟨3500000, 3, false, false, false⟩]

example : SortedTs (validHistory C08_exHist) := by decide +kernel
example : SortedTs (run C08_exCfg C08_exHist).buf := by decide +kernel
example : (tick C08_exCfg (run C08_exCfg C08_exHist) 3000000 0).2.rel.map (·.id) = [2] := by decide +kernel
example : (run C08_exCfg C08_exHist).buf.map (·.id) = [0, 2, 3] := by decide +kernel

/-- **The hand-written helper model is the current source text** of `_ResamplingHelper`
(`Extracted.ResamplerLoops.*`, machine-translated from `_resampling.py` on every run, over a list-backed
`deque(maxlen)`).  For ALL configurations, states, samples, tick times and estimates:
(1) `add_sample` is `addSample` (append with `maxlen`, the sampling start stamped once, the count);
(2) `_update_source_sample_period` is `updatePeriod` (guard, clamp of the estimate, returned flag; nothing else changes);
(3) `_update_buffer_len` is `newBufferLen` + `resize` (the `ZeroDivisionError` case, the length asked for, no rebuild
when it is the current `maxlen`, otherwise the newest samples are kept);
(4) `resample` is `tick`: update first, resize iff updated, then the two bisections with the extracted keys bound the
slice handed to the resampling function; the value is `None` without calling it exactly when the slice is empty; an
exception escapes exactly when the model says `err`. -/
theorem C08_model_is_source :
    (∀ (h : Helper) (x : Sample),
      Extracted.ResamplerLoops.addSample h.buf h.maxlen h.start h.received h.inputPeriod x
        = ResamplerTie.stTuple (addSample h x)) ∧
    (∀ (cfg : Cfg) (h : Helper) (T est : Int),
      Extracted.ResamplerLoops.updatePeriod h.buf h.maxlen h.start h.received h.inputPeriod
          cfg.period cfg.maxAge cfg.maxLen cfg.warnLen T est =
        (h.buf, h.maxlen, h.start, h.received, (updatePeriod cfg h T est).1.inputPeriod, (updatePeriod cfg h T est).2) ∧
      (updatePeriod cfg h T est).1 = { h with inputPeriod := (updatePeriod cfg h T est).1.inputPeriod }) ∧
    (∀ (cfg : Cfg) (h : Helper) (ip : Int),
      Extracted.ResamplerLoops.updateBufferLen h.buf h.maxlen h.start h.received ip
          cfg.period cfg.maxAge cfg.maxLen cfg.warnLen =
        match newBufferLen cfg ip with
        | none => none
        | some n => some ((resize { h with inputPeriod := some ip } n).buf,
                          (resize { h with inputPeriod := some ip } n).maxlen,
                          h.start, h.received, some ip, decide (n ≠ h.maxlen))) ∧
    (∀ (cfg : Cfg) (h : Helper) (T est : Int),
      Extracted.ResamplerLoops.resampleHelper h.buf h.maxlen h.start h.received h.inputPeriod
          cfg.period cfg.maxAge cfg.maxLen cfg.warnLen T est =
        if (tick cfg h T est).2.err then none
        else some (ResamplerTie.stTuple (tick cfg h T est).1, T,
                   if (tick cfg h T est).2.rel.isEmpty then none else some (tick cfg h T est).2.rel)) :=
  ⟨ResamplerTie.addSample_eq, ResamplerTie.updatePeriod_eq, ResamplerTie.updateBufferLen_eq,
   ResamplerTie.resampleHelper_eq⟩

-- non-vacuity: the translated `resample` on the example history returns the sample stamped exactly `T`
example : (Extracted.ResamplerLoops.resampleHelper (run C08_exCfg C08_exHist).buf (run C08_exCfg C08_exHist).maxlen
      (run C08_exCfg C08_exHist).start (run C08_exCfg C08_exHist).received (run C08_exCfg C08_exHist).inputPeriod
      1000000 2 1024 128 3000000 0).map (fun r => (r.2.1, r.2.2.map (·.map (·.id)))) = some (3000000, some [2]) := by
  decide +kernel

/-- The result of the resampling function is a parameter of ANY type (floats with NaN and ±inf, optional values, …):
the emitted value is `None` exactly when no sample is relevant, and otherwise it IS the function's result on the
relevant samples — a NaN result is a value, not "no value". -/
theorem C08_value_is_function_result {α : Type} (f : List Sample → α) (o : TickOut) :
    (emittedAs f o = none ↔ o.rel = []) ∧ (∀ v, emittedAs f o = some v → o.rel ≠ [] ∧ v = f o.rel) := by
  unfold emittedAs
  cases h : o.rel with
  | nil => simp
  | cons a t => simp

-- non-vacuity: a function that always returns "NaN" (here: `none : Option Rat` as a none-like RESULT) over a
-- non-empty relevant set is emitted as `some none`, not as `none`
example : emittedAs (fun _ => (none : Option Rat)) { rel := [⟨0, 0, false, false, true⟩], err := false } = some none := by
  decide

