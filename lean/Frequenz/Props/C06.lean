/-
C06 — every formula sample is computed from inputs of a single timestamp; timestamps advance by exactly one step.

Model: `Frequenz/Model/Evaluator.lean` (`FormulaEvaluator.apply` / `_synchronize_metric_timestamps`,
`FormulaEngine._run`, `FormulaEngine3Phase._run` of the pinned tree).

Reading of the statements.  `n` streams; stream `i` delivers the consecutive ticks `t0 i, t0 i + 1, …` with values
`src i tick` (time unit = one input step); a schedule `es` is any interleaving of `deliver i s` events (per-stream
order = tick order, which is what `AdmFrom` says) and `eval c` events (`apply()` attempts; `c` = which input the
evaluator happens to take the timestamp from in the steady state); the consumer attaching late is a schedule whose
`eval`s come late.  `f` is the formula on the values in stream order.  Receiver queues are unbounded in the model:
the quantifier keeps every backlog within the receiver capacity, so nothing is dropped.
-/
import Frequenz.Lemmas.Evaluator3
import Frequenz.Lemmas.EvaluatorFb
import Frequenz.Extracted.Evaluator
import Frequenz.Lemmas.EvaluatorTie

open Evaluator

/-! ### Single-phase engine: holds in full -/

/-- Full statement for `FormulaEngine`: for every number of streams, every per-stream first timestamp, every
admissible interleaving and every steady-state choice, the `r`-th emitted sample is stamped `T0 + r` with
`T0 = max_i t0 i` (none skipped, repeated or reordered) and its value is the formula on the samples stamped `T0 + r`. -/
def C06_single_statement : Prop :=
  ∀ (n : Nat) (f : List (Option Rat) → Option Rat) (t0 : Nat → Int) (src : Nat → Int → Option Rat) (es : List Ev),
    0 < n → AdmFrom n f t0 src St.init es →
    ∀ (r : Nat) (o : Sample), (run n f es).out[r]? = some o →
      o.ts = maxStart n t0 + r ∧ o.val = f (valuesAt n src o.ts)

theorem C06_single_full : C06_single_statement := by
  intro n f t0 src es hn ha r o ho
  have := (inv_run hn es ha).outs r o ho
  subst this
  exact ⟨rfl, rfl⟩

/-- two streams starting at ticks 0 and 2, stream 1 delivered first, stream 0 catching up, evals anywhere -/
def C06_demo : List Ev :=
  [.deliver 1 ⟨2, some 30⟩, .eval 0, .deliver 1 ⟨3, none⟩, .deliver 0 ⟨0, some 1⟩, .eval 1, .deliver 0 ⟨1, some 2⟩,
   .deliver 0 ⟨2, some 3⟩, .eval 1, .deliver 0 ⟨3, some 4⟩, .eval 0, .eval 1]

def C06_demo_f : List (Option Rat) → Option Rat := fun l => (l.headD none).bind (fun a => (l.getD 1 none).map (a + ·))
def C06_demo_src : Nat → Int → Option Rat :=
  fun i t => if i = 0 then some ((t + 1 : Int) : Rat) else if t = 2 then some 30 else none

example : AdmFrom 2 C06_demo_f (fun i => if i = 0 then 0 else 2) C06_demo_src St.init C06_demo ∧
    (run 2 C06_demo_f C06_demo).out = [⟨2, some 33⟩, ⟨3, none⟩] := by decide +kernel

/-- `T0` is the latest of the first timestamps ("once all inputs are available"). -/
theorem C06_single_first (n : Nat) (t0 : Nat → Int) (hn : 0 < n) :
    (∀ i, i < n → t0 i ≤ maxStart n t0) ∧ ∃ i, i < n ∧ maxStart n t0 = t0 i :=
  ⟨maxStart_ge n t0, maxStart_attained n t0 hn⟩

/-- Consecutive outputs are exactly one input step apart. -/
theorem C06_single_step (n : Nat) (f : List (Option Rat) → Option Rat) (t0 : Nat → Int)
    (src : Nat → Int → Option Rat) (es : List Ev) (hn : 0 < n) (ha : AdmFrom n f t0 src St.init es)
    (r : Nat) (o o' : Sample) (h1 : (run n f es).out[r]? = some o) (h2 : (run n f es).out[r + 1]? = some o') :
    o'.ts = o.ts + 1 := by
  have e1 := (C06_single_full n f t0 src es hn ha r o h1).1
  have e2 := (C06_single_full n f t0 src es hn ha (r + 1) o' h2).1
  push_cast at e2
  omega

/-- Confluence: two admissible schedules of the same streams emit the same sequence (one is a prefix of the other):
arbitrary relative lag, consumer attach point and steady-state choices do not influence what is emitted. -/
theorem C06_confluence (n : Nat) (f : List (Option Rat) → Option Rat) (t0 : Nat → Int)
    (src : Nat → Int → Option Rat) (es es' : List Ev) (hn : 0 < n)
    (ha : AdmFrom n f t0 src St.init es) (ha' : AdmFrom n f t0 src St.init es')
    (r : Nat) (o o' : Sample) (h1 : (run n f es).out[r]? = some o) (h2 : (run n f es').out[r]? = some o') :
    o = o' := by
  rw [(inv_run hn es ha).outs r o h1, (inv_run hn es' ha').outs r o' h2]

/-- Progress: as soon as every stream has delivered the tick that is due (`T0 + #outputs`), the next `apply()`
completes — so every tick from `T0` on is emitted once all inputs have it. -/
theorem C06_progress (n : Nat) (f : List (Option Rat) → Option Rat) (t0 : Nat → Int)
    (src : Nat → Int → Option Rat) (es : List Ev) (hn : 0 < n) (ha : AdmFrom n f t0 src St.init es) (c : Nat)
    (hdue : ∀ i, i < n → t0 i + ((run n f es).all i).length > maxStart n t0 + (run n f es).out.length) :
    ((run n f (es ++ [.eval c])).out.length = (run n f es).out.length + 1) := by
  have hinv := inv_run hn es ha
  have hen := apply_enabled hn hinv c hdue
  unfold run at *
  rw [List.foldl_append]
  simp only [List.foldl_cons, List.foldl_nil]
  rw [step_eval]
  cases happ : apply n f c (List.foldl (step n f) St.init es) with
  | none => rw [happ] at hen; cases hen
  | some σ' =>
    simp only [Option.getD_some]
    obtain ⟨t, ht⟩ := step_out_append n f (List.foldl (step n f) St.init es) (.eval c)
    rw [step_eval, happ] at ht
    simp only [Option.getD_some] at ht
    -- exactly one sample was appended
    unfold apply at happ
    by_cases hf : (List.foldl (step n f) St.init es).firstRun = true
    · rw [if_pos hf] at happ
      unfold applyFirst at happ
      split at happ
      · dsimp only at happ
        split at happ
        · cases happ; simp
        · cases happ
      · cases happ
    · rw [if_neg hf] at happ
      unfold applySteady at happ
      split at happ
      · cases happ; simp
      · cases happ

example : (run 2 C06_demo_f (C06_demo ++ [.eval 0])).out.length = 2 := by decide

/-- what the model relies on in `apply()`: all fetchers are awaited (`return_when=ALL_COMPLETED`) — regenerated
from the source on every run -/
theorem C06_apply_waits_all : Extracted.Evaluator.applyWaitsAllCompleted = true := by decide

/-! ### 3-phase engine (with `fixes/C06-3phase-resync.patch`): holds in full -/

/-- The model's 3-phase round is the resynchronising one only if the source is: regenerated from
`FormulaEngine3Phase._run` on every run.  On the pinned tree (`_run` zips the three per-phase engines without
comparing timestamps) this does not build, and the check searches (and finds) the failing input. -/
theorem C06_3phase_resyncs : Extracted.Evaluator.threePhaseResyncs = true := by decide

/-- Full statement for `FormulaEngine3Phase` (`t0 p i`, `src p i`: stream `i` of phase `p`): the `k`-th emitted
sample carries one timestamp `T = T0 + k`, `T0` the latest of the first timestamps of *all* streams (no skip, repeat
or reorder), and each of its three values is that phase's formula on that phase's samples stamped `T`. -/
def C06_3phase_statement : Prop :=
  ∀ (P1 P2 P3 : Phase) (t0 : Nat → Nat → Int) (src : Nat → Nat → Int → Option Rat) (es : List Ev3),
    0 < P1.n → 0 < P2.n → 0 < P3.n → AdmFrom3 true P1 P2 P3 t0 src St3.init es →
    ∀ (k : Nat) (o : Sample3), (run3 true P1 P2 P3 es).out[k]? = some o →
      o.ts = maxStart3 P1 P2 P3 t0 + k ∧
      o.v1 = P1.f (valuesAt P1.n (src 0) o.ts) ∧ o.v2 = P2.f (valuesAt P2.n (src 1) o.ts) ∧
      o.v3 = P3.f (valuesAt P3.n (src 2) o.ts)

theorem C06_3phase_full : C06_3phase_statement := by
  intro P1 P2 P3 t0 src es h1 h2 h3 ha k o ho
  have := (inv3_run h1 h2 h3 es ha).outs k o ho
  subst this
  exact ⟨rfl, rfl, rfl, rfl⟩

/-- Consecutive 3-phase samples are exactly one input step apart. -/
theorem C06_3phase_step (P1 P2 P3 : Phase) (t0 : Nat → Nat → Int) (src : Nat → Nat → Int → Option Rat)
    (es : List Ev3) (h1 : 0 < P1.n) (h2 : 0 < P2.n) (h3 : 0 < P3.n)
    (ha : AdmFrom3 true P1 P2 P3 t0 src St3.init es) (k : Nat) (o o' : Sample3)
    (ho : (run3 true P1 P2 P3 es).out[k]? = some o) (ho' : (run3 true P1 P2 P3 es).out[k + 1]? = some o') :
    o'.ts = o.ts + 1 := by
  have e1 := (C06_3phase_full P1 P2 P3 t0 src es h1 h2 h3 ha k o ho).1
  have e2 := (C06_3phase_full P1 P2 P3 t0 src es h1 h2 h3 ha (k + 1) o' ho').1
  push_cast at e2
  omega

def C06_w_phase : Phase := ⟨1, fun l => l.headD none⟩
def C06_w_t0 : Nat → Nat → Int := fun p _ => p
def C06_w_src : Nat → Nat → Int → Option Rat := fun p _ t => some (((p + 1) * 100 + t : Int) : Rat)
/-- Witness schedule: one stream per phase, first delivered at ticks 0 / 1 / 2 (= corpus/C06/three_phase_different_start). -/
def C06_witness : List Ev3 :=
  [.ph 0 (.deliver 0 ⟨0, some 100⟩), .ph 0 (.eval 0), .ph 0 (.deliver 0 ⟨1, some 101⟩), .ph 0 (.eval 0),
   .ph 1 (.deliver 0 ⟨1, some 201⟩), .ph 1 (.eval 0), .ph 0 (.deliver 0 ⟨2, some 102⟩), .ph 0 (.eval 0),
   .ph 1 (.deliver 0 ⟨2, some 202⟩), .ph 1 (.eval 0), .ph 2 (.deliver 0 ⟨2, some 302⟩), .ph 2 (.eval 0), .zip,
   .ph 0 (.deliver 0 ⟨3, some 103⟩), .ph 0 (.eval 0), .ph 1 (.deliver 0 ⟨3, some 203⟩), .ph 1 (.eval 0),
   .ph 2 (.deliver 0 ⟨3, some 303⟩), .ph 2 (.eval 0), .zip]

/-- non-vacuity: on the witness the resynchronising engine emits ticks 2 and 3, each from one timestamp -/
example : AdmFrom3 true C06_w_phase C06_w_phase C06_w_phase C06_w_t0 C06_w_src St3.init C06_witness ∧
    (run3 true C06_w_phase C06_w_phase C06_w_phase C06_witness).out =
      [⟨2, some 102, some 202, some 302⟩, ⟨3, some 103, some 203, some 303⟩] := by decide

/-- The pinned semantics (plain zip, `resync = false`) violates the statement on the same schedule: the first sample
is stamped tick 0 and mixes the values of ticks 0, 1 and 2 — and the shift persists. -/
example : (run3 false C06_w_phase C06_w_phase C06_w_phase C06_witness).out =
      [⟨0, some 100, some 201, some 302⟩, ⟨1, some 101, some 202, some 303⟩] := by decide

/-! ### Engine whose terms may have a fallback (`push_metric(..., fallback=…)`): holds in full

Model: `Evaluator.stepF` = the evaluator composed with the `MetricFetcher` model of C19 (`Model/Fallback.lean`), one
event per completed `fetch_next()` (so every real-time placement of a fallback's lazy `start()` relative to the
emissions of its source is a schedule).  `t0 i` / `g0 i`: first tick of the primary stream / of the fallback source of
term `i`, both gap-free; `hasFb i`: the term was built with a fallback. -/

/-- The model's `MetricFetcher` returns the primary sample when it is OLDER than the latest fallback sample
(`Fallback.withLatest`, first branch) only if the source does: regenerated from
`MetricFetcher._synchronize_and_fetch_fallback` on every run.  Without that guard the catch-up loop (which only
handles a NEWER primary) is skipped and a fallback sample stamped later than the primary sample is used; this theorem
then does not build and the check searches (and finds) the failing input (corpus/C06/fallback_first_sample_later_than_primary). -/
theorem C06_fallback_guard : Extracted.Evaluator.fallbackSyncGuardsAhead = true := by decide

/-- Full statement for an engine whose terms may have fallbacks: for every number of terms, every subset of terms
with a fallback, every first tick of every primary stream and fallback source, and every schedule (interleaving of
primary deliveries, fallback-source emissions before / with / after the primary sample of the same tick, and
completions of the individual `fetch_next()` calls — hence every moment at which a fallback is lazily started, every
backlog, every attach point, every steady-state timestamp choice): the `r`-th emitted sample is stamped
`T = max_i t0 i + r` (none skipped, repeated or reordered) and its value is the formula on one sample `u` per term,
every one stamped `T`: the primary sample `p` stamped `T` itself whenever that is valid, and otherwise either `p`
(invalid: the fallback is not there yet) or a sample stamped `T` that the term's started fallback delivered. -/
def C06_fallback_statement : Prop :=
  ∀ (n : Nat) (f : List (Option Rat) → Option Rat) (hasFb : Nat → Bool) (t0 g0 : Nat → Int) (es : List EvF),
    0 < n → AdmFromF n f hasFb t0 g0 FSt.init es →
    ∀ (r : Nat) (o : Sample), (runF n f hasFb es).out[r]? = some o →
      o.ts = maxStart n t0 + r ∧
      ∃ us : List Fallback.Sample, us.length = n ∧ o.val = f (us.map (·.val)) ∧
        ∀ i, i < n → ∃ u p, us[i]? = some u ∧ u.ts = o.ts ∧
          p ∈ ((runF n f hasFb es).terms i).pAll ∧ p.ts = o.ts ∧
          (p.val.isSome = true → u = p) ∧
          (u = p ∨ (hasFb i = true ∧ p.val = none ∧ u ∈ ((runF n f hasFb es).terms i).acc))

theorem C06_fallback_single_timestamp : C06_fallback_statement := by
  intro n f hasFb t0 g0 es hn ha r o ho
  obtain ⟨hts, us, hl, hv, hu⟩ := (finv_run hn es ha).outs r o ho
  refine ⟨hts, us, hl, hv, ?_⟩
  intro i hi
  obtain ⟨u, h1, h2, p, h3, h4, h5, h6⟩ := hu i hi
  exact ⟨u, p, h1, h2, h3, by rw [h4, h2], h5, h6⟩

/-- Consecutive outputs of an engine with fallback terms are exactly one input step apart. -/
theorem C06_fallback_step (n : Nat) (f : List (Option Rat) → Option Rat) (hasFb : Nat → Bool) (t0 g0 : Nat → Int)
    (es : List EvF) (hn : 0 < n) (ha : AdmFromF n f hasFb t0 g0 FSt.init es) (r : Nat) (o o' : Sample)
    (h1 : (runF n f hasFb es).out[r]? = some o) (h2 : (runF n f hasFb es).out[r + 1]? = some o') :
    o'.ts = o.ts + 1 := by
  have e1 := (C06_fallback_single_timestamp n f hasFb t0 g0 es hn ha r o h1).1
  have e2 := (C06_fallback_single_timestamp n f hasFb t0 g0 es hn ha (r + 1) o' h2).1
  push_cast at e2
  omega

/-- `#a + #b` (missing counts as zero), `#a` with a fallback: the primaries deliver ticks 0..3 as a backlog (`#a`
valid only at tick 0), then the engine works through it; the fallback started at tick 1 first sees the sample of
tick 3 — LATER than the primary sample being processed (= corpus/C06/fallback_first_sample_later_than_primary). -/
def C06_fb_demo : List EvF :=
  [.dP 0 ⟨0, some 1⟩, .dP 1 ⟨0, some 65536⟩, .dP 0 ⟨1, none⟩, .dP 1 ⟨1, some 131072⟩, .dP 0 ⟨2, none⟩,
   .dP 1 ⟨2, some 196608⟩, .dP 0 ⟨3, none⟩, .dP 1 ⟨3, some 262144⟩,
   .fetch 0 0, .fetch 1 0, .fetch 0 1, .fetch 1 1, .fetch 1 0, .dF 0 ⟨3, some 1024⟩, .fetch 0 0, .fetch 0 0, .fetch 1 0]

def C06_fb_demo_f : List (Option Rat) → Option Rat := fun l => some ((l.getD 0 none).getD 0 + (l.getD 1 none).getD 0)
def C06_fb_demo_has : Nat → Bool := fun i => i == 0

/-- non-vacuity: ticks 1 and 2 use the invalid primary sample (counted as zero), never the fallback sample of
tick 3; tick 3 uses it -/
example : AdmFromF 2 C06_fb_demo_f C06_fb_demo_has (fun _ => 0) (fun _ => 3) FSt.init C06_fb_demo ∧
    (runF 2 C06_fb_demo_f C06_fb_demo_has C06_fb_demo).out =
      [⟨0, some 65537⟩, ⟨1, some 131072⟩, ⟨2, some 196608⟩, ⟨3, some 263168⟩] := by decide +kernel

/-! ### The model is the source -/

/-- **Tie by proof, all states** (replaces the sampling tie of `apply` / `applyFirst` / `applySteady`).
`Extracted.EvaluatorPull.apply` is the statement-by-statement translation of the CURRENT source text of
`FormulaEvaluator.apply` and `_synchronize_metric_timestamps`, regenerated on every run, as a function of the `n`
receiver queues, the fetchers' current samples and the first-run flag (`Pull.EvSt`; the set of finished tasks is
iterated in an arbitrary order `s.order`).  For EVERY `n > 0`, formula `f`, model state `σ` and translated state `s`
with the same queues and flag (`EvaluatorTie.Rel`: `s.order` any permutation of the streams that starts with the
stream the model's steady-state choice `c` names; streams `≥ n` empty; and, in the first run, every queue gap-free):
  * the translated call blocks (needs data not yet delivered)  ⇔  `apply n f c σ = none`;
  * it returns the sample `o` leaving `s'`  ⇒  `apply n f c σ = some σ'` with `σ'.qs = s'.qs`,
    `σ'.firstRun = s'.firstRun`, `σ'.out = σ.out ++ [o]`;
  * it never raises (`EvaluatorTie.Agrees`).
`_partial`: the gap-free hypothesis of the first run cannot be dropped — the code drains the streams of one
first-timestamp group in lockstep (and raises when it overshoots), the model drains each stream by itself and blocks;
the two differ on queues with gaps, which no admissible schedule produces (`C06_model_is_source`).  A semantic change
of the two methods makes this theorem (or the extraction) fail; a behaviour-preserving rewrite does not. -/
theorem C06_model_is_source_partial (n : Nat) (f : List (Option Rat) → Option Rat) (c : Nat) (σ : St)
    (s : Pull.EvSt Sample) (hn : 0 < n) (h : EvaluatorTie.Rel n c σ s) :
    EvaluatorTie.Agrees σ (apply n f c σ) (Extracted.EvaluatorPull.apply f s) :=
  EvaluatorTie.apply_is_source n f c σ s hn h

/-- **Tie by proof, on the scope of the C06 theorems**: in every state `run n f es` an admissible schedule reaches
(any `n`, first timestamps, interleaving, first run or steady state) one `eval c` step of the model IS the translated
`apply` of the current source on the model's queues and first-run flag, for every iteration order of the task set
that starts with stream `c % n` — no further hypothesis. -/
theorem C06_model_is_source (n : Nat) (f : List (Option Rat) → Option Rat) (t0 : Nat → Int)
    (src : Nat → Int → Option Rat) (es : List Ev) (hn : 0 < n) (ha : AdmFrom n f t0 src St.init es) (c : Nat)
    (s : Pull.EvSt Sample) (hnames : s.names = List.range n) (hperm : s.order.Perm (List.range n))
    (hhead : s.order.head? = some (c % n)) (hqs : s.qs = (run n f es).qs)
    (hfirst : s.firstRun = (run n f es).firstRun) :
    EvaluatorTie.Agrees (run n f es) (apply n f c (run n f es)) (Extracted.EvaluatorPull.apply f s) :=
  EvaluatorTie.apply_is_source n f c _ s hn
    (EvaluatorTie.rel_of_run n f t0 src es hn ha c s hnames hperm hhead hqs hfirst)

/-- Non-vacuity: the state of `C06_demo` before its third `eval` (stream 0 holds ticks 0, 1, 2, stream 1 holds ticks 2, 3;
first run), task set iterated as [1, 0]. -/
def C06_tie_demo : Pull.EvSt Sample :=
  ⟨[0, 1], [1, 0], (run 2 C06_demo_f (C06_demo.take 7)).qs, fun _ => none, true⟩

/-- the schedule is admissible, and the translated `apply` drains stream 0 to tick 2, returns the sample stamped 2 and
clears the first-run flag -/
example :
    AdmFrom 2 C06_demo_f (fun i => if i = 0 then 0 else 2) C06_demo_src St.init (C06_demo.take 7) ∧
    (match Extracted.EvaluatorPull.apply C06_demo_f C06_tie_demo with
     | .ok o s' => decide (o = ⟨2, some 33⟩) && decide (s'.qs 0 = []) && decide (s'.qs 1 = [⟨3, none⟩]) && !s'.firstRun
     | _ => false) = true :=
  ⟨by decide +kernel, by decide +kernel⟩
