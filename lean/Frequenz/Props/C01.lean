/-
C01 — battery power distribution conserves the requested power.

Model: `Frequenz.Model.Distribution` (loops hand-written; every expression and branch condition regenerated from
`_battery_distribution_algorithm.py`, `_battery_manager.py`, `_math.py` into `Frequenz.Extracted.Distribution`).
Quantifier: every consistent data set (`Consistent`), every exponent, every non-zero request admitted by the
exclusion bounds the battery pool ADVERTISES (`Admitted`, modelled on `PowerBoundsCalculator.calculate`; the
weaker bounds `BatteryManager._get_bounds` enforces are `ManagerAdmits`); no bound on the number of groups,
batteries or inverters.

The pinned code VIOLATES the property (known findings): the full statement is refuted from kernel-evaluated
witnesses, and proved on the complement of the regimes `adjust` and `split_infeasible`.
Two TOLERANCE corners are hypotheses of the exact sign/remainder theorem and are covered by sampling only (no
violation beyond 1e-6 relative was ever observed in them): `isclose_cover` (the code accepts a 1e-9 relative error
in the deficit covering by design) and `overcommit` (`left_over < 0` at the greedy step; for admitted requests
this can only happen by the residue of excesses that are "close to zero", i.e. by n·1e-9 W —
`C01_admitted_covers_min_powers` shows that an admitted request covers all minimum powers, which rules out the
gross form of it that `BatteryManager` alone would let through, see `DistWitness.overcommit`).
-/
import Frequenz.Lemmas.DistributionTop
import Frequenz.Lemmas.DistributionWitness
import Frequenz.Lemmas.DistributionTie8

open Dist Extracted.Dist DistWitness

/-- set-points + reported remainder = request -/
def C01_sum_statement : Prop :=
  ∀ inp out, Consistent inp → Admitted inp → distribute inp = some out → out.total + out.rem = inp.power

/-- every set-point and the remainder have the sign of the request or are zero; the remainder does not exceed
the request in magnitude -/
def C01_sign_statement : Prop :=
  ∀ inp out, Consistent inp → Admitted inp → distribute inp = some out →
    (∀ x ∈ out.setpoints, SameSign inp.power x.2) ∧ SameSign inp.power out.rem ∧ NoLarger inp.power out.rem

/-- the full property (exact arithmetic) -/
def C01_statement : Prop := C01_sum_statement ∧ C01_sign_statement

/-! ### what holds for every input -/

/-- The code's own running total `distributed_power` equals the powers assigned to the groups (before the
greedy step) plus the increments made by the two `distributed_power += …` lines of the deficit branch:
all creation / loss of power inside `_distribute_power` is localised in those two lines. -/
theorem C01_bookkeeping (inp : Input) (out : Out) (h : distribute inp = some out) (hz : ¬ zeroRequest inp.power) :
    ∃ c, out.core = some c ∧ c.tracked = sumL ((c.entries.map slotOf).map (·.p)) + sumL c.adjs :=
  DistLemmas.bookkeeping inp out h hz

/-- Accounting identity for EVERY input (no consistency needed): set-points + remainder + what the
per-inverter split dropped + the deficit-branch increments = request (mirrored for supply requests). -/
theorem C01_accounting (inp : Input) (out : Out) (h : distribute inp = some out) (hz : ¬ zeroRequest inp.power) :
    ∃ c, out.core = some c ∧ out.flags = coreFlags inp.exp c ∧
      (0 < inp.power → out.total + out.rem + (sumL (c.groups.map (·.residual)) + sumL c.adjs) = inp.power) ∧
      (inp.power < 0 → out.total + out.rem - (sumL (c.groups.map (·.residual)) + sumL c.adjs) = inp.power) :=
  DistLemmas.accounting inp out h hz

/-- The inverter set-points of a group add up to the group's power minus what could not be placed
(`residual`); in particular to the group's power when the split is feasible. -/
theorem C01_multi_inverter_split (s : Slot) : (splitGroup s).total + (splitGroup s).residual = s.p :=
  DistLemmas.splitGroup_sum s

/-- The model bounds the `while` loop of the deficit covering by `number of entries + 1` iterations; the bound
is never reached (every iteration but the last zeroes one live excess), so the model loop is the unbounded
Python loop. -/
theorem C01_cover_loop_fuel (es : List Entry) (d : Rat) (a : Bool) (m : Nat) :
    coverLoop (es.length + 1 + m) es d a = coverLoop (es.length + 1) es d a :=
  DistLemmas.coverLoop_fuel es d a m

/-! ### the regimes where the clauses hold -/

/-- Conservation outside the regimes `adjust` and `split_infeasible` — for every input, consistent or not. -/
theorem C01_sum_partial (inp : Input) (out : Out) (h : distribute inp = some out) (hz : ¬ zeroRequest inp.power)
    (ha : out.flags.adjust = false) (hs : out.flags.splitInfeasible = false) : out.total + out.rem = inp.power :=
  DistLemmas.sum_partial inp out h hz ha hs

/-- A request admitted by the advertised bounds is at least the sum of the groups' minimum powers (so the
reservation loop never has to hand out more than was requested). -/
theorem C01_admitted_covers_min_powers (inp : Input) (hc : Consistent inp) (ha : Admitted inp) :
    (0 < inp.power → sumL (inp.groups.map fun g => minPOf (normGroup false g)) ≤ inp.power) ∧
    (inp.power < 0 → sumL (inp.groups.map fun g => minPOf (normGroup true g)) ≤ -inp.power) :=
  DistLemmas.admitted_min_powers inp hc ha

/-- Sign and remainder clauses outside the regime `adjust` and the two tolerance corners. -/
theorem C01_sign_partial (inp : Input) (out : Out) (hc : Consistent inp) (h : distribute inp = some out)
    (hz : ¬ zeroRequest inp.power) (ha : out.flags.adjust = false) (ho : out.flags.overcommit = false)
    (hi : out.flags.iscloseCover = false) :
    (∀ x ∈ out.setpoints, SameSign inp.power x.2) ∧ SameSign inp.power out.rem ∧ NoLarger inp.power out.rem :=
  DistLemmas.sign_partial inp out hc h hz ha ho hi

/-- The whole property on the complement of the known-finding regimes. -/
theorem C01_partial (inp : Input) (out : Out) (hc : Consistent inp) (had : Admitted inp) (h : distribute inp = some out)
    (ha : out.flags.adjust = false) (hs : out.flags.splitInfeasible = false) (ho : out.flags.overcommit = false)
    (hi : out.flags.iscloseCover = false) :
    out.total + out.rem = inp.power ∧
    (∀ x ∈ out.setpoints, SameSign inp.power x.2) ∧ SameSign inp.power out.rem ∧ NoLarger inp.power out.rem :=
  ⟨C01_sum_partial inp out h had.1 ha hs, C01_sign_partial inp out hc h had.1 ha ho hi⟩

/-- non-vacuity: a three-group case with exclusion bounds, a full battery and a two-inverter group satisfies
all hypotheses of `C01_partial` (consume and supply side) -/
example : Consistent regular ∧ Admitted regular ∧ (distribute regular).map (·.flags) = some noFlags ∧
    (outOf regular).total = 700 := by decide +kernel
example : Consistent regularSupply ∧ Admitted regularSupply ∧ (distribute regularSupply).map (·.flags) = some noFlags ∧
    (outOf regularSupply).total = -700 := by decide +kernel

/-- What the battery manager reports: succeeded + failed + excess = request always; and when the distribution
conserves power, "succeeded" is exactly the power of the `set_power` calls that did not fail. -/
theorem C01_manager (P rem : Rat) (failed : Option Rat) (commanded : Rat) :
    (report P rem failed).succeeded + (report P rem failed).failed + (report P rem failed).excess = P ∧
    (commanded + rem = P → (report P rem failed).succeeded = commanded - (report P rem failed).failed) := by
  cases failed <;>
    simp only [report, mgrSuccessSucceeded, mgrSuccessExcess, mgrDistributed, mgrPartialSucceeded, mgrPartialFailed,
      mgrPartialExcess] <;> constructor <;> grind

/-! ### refutation of the full statement on the pinned code -/

/-- regime `adjust`: 100 W requested, 110 W commanded, remainder 0 -/
theorem C01_creates_power : Consistent createsPower ∧ Admitted createsPower ∧
    distribute createsPower = some (outOf createsPower) ∧ (outOf createsPower).flags.adjust = true ∧
    (outOf createsPower).total = 110 ∧ (outOf createsPower).rem = 0 := by decide +kernel

/-- regime `adjust`: 301 W requested, 300 W commanded, remainder 0 -/
theorem C01_loses_power : Consistent fullBatteryCharged ∧ Admitted fullBatteryCharged ∧
    distribute fullBatteryCharged = some (outOf fullBatteryCharged) ∧ (outOf fullBatteryCharged).flags.adjust = true ∧
    (outOf fullBatteryCharged).total = 300 ∧ (outOf fullBatteryCharged).rem = 0 := by decide +kernel

/-- regime `split_infeasible`: 550 W requested, 300 W commanded, remainder 0 -/
theorem C01_split_drops_power : Consistent splitDrops ∧ Admitted splitDrops ∧
    distribute splitDrops = some (outOf splitDrops) ∧ (outOf splitDrops).flags.splitInfeasible = true ∧
    (outOf splitDrops).total = 300 ∧ (outOf splitDrops).rem = 0 := by decide +kernel

/-- regime `adjust`: 1000 W requested, 4 × 100 W commanded, reported remainder ≈ 1144.5 W > request -/
theorem C01_remainder_exceeds_request : Consistent remainderExceeds ∧ Admitted remainderExceeds ∧
    distribute remainderExceeds = some (outOf remainderExceeds) ∧ (outOf remainderExceeds).flags.adjust = true ∧
    (outOf remainderExceeds).total = 400 ∧ (outOf remainderExceeds).rem = 1147950 / 1003 := by decide +kernel

/-- outside the domain: the manager forwards 200 W (enforced exclusion bound 200 W) although the pool advertises
400 W; one inverter is then commanded −100 W.  Not admitted, hence no counterexample to C01. -/
theorem C01_manager_forwards_unadvertised : Consistent overcommit ∧ ¬ Admitted overcommit ∧ ManagerAdmits overcommit ∧
    advertisedExcl overcommit.groups = (-400, 400) ∧ enforcedExcl overcommit.groups = (-200, 200) ∧
    (outOf overcommit).setpoints.map (·.2) = [-100, 100, 100, 100] := by decide +kernel

theorem C01_sum_refuted : ¬ C01_sum_statement := by
  intro h
  obtain ⟨hc, ha, hd, _, ht, hr⟩ := C01_creates_power
  have := h createsPower _ hc ha hd
  rw [ht, hr] at this
  exact absurd this (by decide +kernel)

theorem C01_sign_refuted : ¬ C01_sign_statement := by
  intro h
  obtain ⟨hc, ha, hd, _, _, hr⟩ := C01_remainder_exceeds_request
  have := (h remainderExceeds _ hc ha hd).2.2
  rw [hr] at this
  revert this
  decide +kernel

theorem C01_full_refuted : ¬ C01_statement := fun h => C01_sum_refuted h.1

/-! ### Model is source

`Extracted/DistributionLoops.lean` is the machine translation of the WHOLE bodies of `AggregatedBatteryData.__init__`,
`_aggregate_battery_power_bounds` and of every method of `BatteryDistributionAlgorithm` on the path of `distribute_power`
(`_total_capacity`, `_compute_battery_availability_ratio`, `_distribute_power`, `_greedy_distribute_remaining_power`,
`_distribute_multi_inverter_pairs`, `_inclusion_exclusion_bounds`, `_distribute_consume_power`, `_distribute_supply_power`,
`distribute_power`), regenerated from the current source text on every run (`tools/extractors/distribution_loops.py`:
statement by statement; dicts as association lists in insertion order, `for` loops as folds over generated step functions,
the `while` as a fuel-indexed recursion, `ValueError` as `none`).  The hand-written model `Dist.distribute` — about which
every theorem above is stated — equals it. -/

/-- an iteration order of `frozenset` for the witness `regular` (ids 13, 14 in that order; singletons as they are) -/
def C01_fsOrderWitness (l : List Int) : List Int := if 13 ∈ l then [13, 14] else l

/-- **The model is the source** (loop by loop: `Lemmas/DistributionTie*.lean` — `greedy_eq_source`, `split_eq_source`,
`reserve_eq_source`, `coverLoop_eq_source` for every fuel, `coverFold_eq_source`, `excess_eq_source`, `core_eq_source`,
`bounds_eq_source`, `ratio_eq_source` incl. both sorts, `side_zero_source`, `consume_/supply_eq_source`,
`aggregate_eq_source`).  From the raw battery and inverter data: building `AggregatedBatteryData` for every battery set
and calling `distribute_power` returns what `Dist.distribute` returns — both raise, or the same `remaining_power` and the
same `distribution` dictionary (`SameDict`; the two lists are EQUAL whenever the sum of the availability ratios is not
close to zero, `DistTie.distribute_eq_source`) — for every power, exponent and data, and for every fuel of the `while` from
`number of pairs + 1` on.  Hypotheses: distinct component ids, non-empty inverter sets, and `Group.invs` listed in the
iteration order `fsOrder` of the `frozenset` of its ids (the one oracle of the translation). -/
theorem C01_model_is_source (m : Nat) (fsOrder : List Int → List Int) (inp : Input)
    (hfs : DistTie.FsOrderOK fsOrder inp.groups) (hnd : (DistTie.keysL DistTie.batId inp.groups).Nodup)
    (hne : ∀ g ∈ inp.groups, g.invs ≠ []) :
    DistTie.SameDict
      (Extracted.DistLoops.distributePowerTop inp.exp fsOrder (inp.groups.length + 1 + m) inp.power
        (inp.groups.map DistTie.compOf))
      ((distribute inp).map DistTie.resultOf) :=
  DistTie.model_is_source m fsOrder inp hfs hnd hne

theorem C01_fsOrderWitness_ok : DistTie.FsOrderOK C01_fsOrderWitness regular.groups := by
  intro g hg l hl
  simp only [regular, pair, List.mem_cons, List.not_mem_nil, or_false] at hg
  rcases hg with rfl | rfl | rfl
  · have : l = [11] := by simpa using hl
    subst this; decide
  · have : l = [12] := by simpa using hl
    subst this; decide
  · have h13 : (13 : Int) ∈ l := hl.mem_iff.mpr (by simp)
    simp [C01_fsOrderWitness, h13]

/-- non-vacuity: the hypotheses hold for the witness `regular` (three pairs, one with two inverters), and the translated
source and the model both evaluate to the same non-trivial result on it -/
example : DistTie.FsOrderOK C01_fsOrderWitness regular.groups ∧ (DistTie.keysL DistTie.batId regular.groups).Nodup ∧
    (∀ g ∈ regular.groups, g.invs ≠ []) ∧
    Extracted.DistLoops.distributePowerTop regular.exp C01_fsOrderWitness (regular.groups.length + 1) regular.power
        (regular.groups.map DistTie.compOf) =
      some { distribution := [(11, 280), (13, 300), (14, 120), (12, 0)], remaining_power := 0 } ∧
    (distribute regular).map DistTie.resultOf =
      some { distribution := [(11, 280), (13, 300), (14, 120), (12, 0)], remaining_power := 0 } :=
  ⟨C01_fsOrderWitness_ok, by decide +kernel, by decide +kernel, by decide +kernel, by decide +kernel⟩
